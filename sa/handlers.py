"""Handler tables of Walker subclasses, reproducing MetaNodeTypeHandler statically.

For a class C the runtime table is `getattr(C-instance, "walk_<op>")` for every operator, where
class attributes come from (in this order, per class, base classes first):
  1. explicit `def walk_<op>` and class-level aliases `walk_a = walk_b` (class body order),
  2. MetaNodeTypeHandler.__new__: for every attribute of the class body that carries
     `nodetypes` (set by @handles), `setattr(cls, walk_<op>, f)` for each op -- executed after the
     body, so it overrides same-class explicit defs; later attributes win.
Lookup then follows the MRO.  `Walker.walk_error` carries @handles(ALL_TYPES), so every operator
resolves to something; "unhandled" means it resolves to Walker.walk_error.
"""
import ast

from .loader import AnalysisError, get_repo
from .opsets import NotConst, get_ops

WALKER = "pysmt.walkers.generic.Walker"


class Handler(object):
    __slots__ = ("cls", "name", "func", "via")

    def __init__(self, cls, name, func, via):
        self.cls = cls        # qual of the class whose namespace provides the attribute
        self.name = name      # name of the FunctionDef
        self.func = func      # FunctionDef (undecorated def)
        self.via = via        # 'def' | 'alias' | 'handles'

    @property
    def is_error(self):
        return self.cls == WALKER and self.name == "walk_error"

    def __repr__(self):
        return "%s.%s[%s]" % (self.cls.split(".")[-1], self.name, self.via)


def _decorator_info(repo, ops, ci, func):
    """Returns (nodetypes or None, wrappers) for a FunctionDef in class ci.
    nodetypes is visible on the final attribute only if every decorator applied after
    (= listed above) a @handles keeps function attributes (uses functools.wraps) or is itself
    @handles."""
    nodetypes = None
    wrappers = []
    # decorators apply bottom-up
    for dec in reversed(func.decorator_list):
        target = dec.func if isinstance(dec, ast.Call) else dec
        r = repo.resolve_expr(ci.module, target)
        is_handles = False
        if r and r[0] == "class" and r[1].endswith("walkers.generic.handles"):
            is_handles = True
        if is_handles:
            if not isinstance(dec, ast.Call):
                raise AnalysisError("bare @handles in %s.%s" % (ci.qual, func.name))
            nts = []
            if len(dec.args) == 1:
                v = ops.ce.expr(ci.module, dec.args[0])
                if isinstance(v, int):
                    nts = [v]
                else:
                    nts = list(v)
            else:
                for a in dec.args:
                    nts.append(ops.ce.expr(ci.module, a))
            nodetypes = (nodetypes or []) + nts
        else:
            name = ast.unparse(target)
            keeps = _uses_wraps(repo, r)
            wrappers.append(name)
            if nodetypes is not None and not keeps:
                nodetypes = None
    return nodetypes, wrappers


def _uses_wraps(repo, r):
    if not r or r[0] != "func":
        return False
    fn = r[2]
    for n in ast.walk(fn):
        if isinstance(n, ast.Call):
            t = n.func
            nm = t.id if isinstance(t, ast.Name) else (t.attr if isinstance(t, ast.Attribute) else "")
            if nm == "wraps":
                return True
        if isinstance(n, ast.Attribute) and n.attr == "__dict__":
            return True
    return False


class HandlerTables(object):
    def __init__(self, repo=None, ops=None):
        self.repo = repo or get_repo()
        self.ops = ops or get_ops()
        if WALKER not in self.repo.classes:
            raise AnalysisError("anchor %s vanished" % WALKER)
        self._ns = {}
        self._sns = {}
        self._tab = {}
        self.source = {}         # class -> how its namespace was obtained
        self.deviations = []     # classes whose interpreted namespace differs from the static model

    def walkers(self):
        return [q for q in self.repo.subclasses(WALKER)]

    def class_ns(self, qual):
        """walk_* attributes contributed by the class itself: name -> Handler.  Obtained by interpreting the metaclass and
        the decorator of pysmt/walkers/generic.py on the class body (metatab.py); the static model below is the fall-back."""
        if qual in self._ns:
            return self._ns[qual]
        static = self._static_ns(qual)
        ns = static
        try:
            from . import metatab
            got = metatab.class_namespace(self.repo, self.ops, qual)
            ns = {}
            for name, (fd, how) in got.items():
                via = static[name].via if name in static and static[name].func is fd else how
                ns[name] = Handler(qual, fd.name, fd, via)
            self.source[qual] = "interpreted"
            if dict((k, h.func) for k, h in ns.items()) != dict((k, h.func) for k, h in static.items() if h.func is not None):
                self.deviations.append(qual)
        except AnalysisError:
            raise
        except Exception as ex:            # noqa - any failure of the interpretation falls back to the model
            self.source[qual] = "static model (%s: %s)" % (type(ex).__name__, str(ex)[:120])
        self._ns[qual] = ns
        return ns

    def _static_ns(self, qual):
        if qual in self._sns:
            return self._sns[qual]
        ci = self.repo.cls(qual)
        ns = {}
        pending = []
        for name in ci.order:
            kind, v = ci.attrs[name]
            if kind == "func":
                if name.startswith("walk_"):
                    ns[name] = Handler(qual, name, v, "def")
                try:
                    nts, _ = _decorator_info(self.repo, self.ops, ci, v)
                except NotConst as ex:
                    raise AnalysisError("cannot fold @handles of %s.%s: %s" % (qual, name, ex))
                if nts:
                    pending.append((v, nts))
            elif kind == "alias":
                f = ci.own_func(name)
                if f is not None and name.startswith("walk_"):
                    ns[name] = Handler(qual, f.name, f, "alias")
        # metaclass pass: dct.items() order == definition order (last definition of a name)
        final = {}
        for name in ci.order:
            final[name] = ci.attrs[name]
        seen = set()
        for name in ci.order:
            if name in seen:
                continue
            seen.add(name)
            kind, v = final[name]
            if kind != "func":
                continue
            for f, nts in pending:
                if f is v:
                    for o in nts:
                        if o in self.ops.op_str:
                            ns[self.ops.walk_name(o)] = Handler(qual, v.name, v, "handles")
        self._sns[qual] = ns
        return ns

    def table(self, qual):
        """op id -> Handler for class qual."""
        if qual in self._tab:
            return self._tab[qual]
        mro = self.repo.mro(qual)
        if WALKER not in mro:
            raise AnalysisError("%s is not a Walker" % qual)
        tab = {}
        for o in self.ops:
            wn = self.ops.walk_name(o)
            h = None
            for q in mro:
                ns = self.class_ns(q)
                if wn in ns:
                    h = ns[wn]
                    break
                # a non-walk attribute of that name (e.g. assigned expression) would shadow
                ci = self.repo.classes[q]
                if wn in ci.attrs and ci.attrs[wn][0] == "expr":
                    h = Handler(q, wn, None, "expr")
                    break
            if h is None:
                raise AnalysisError("%s: no attribute %s at all (walk_error default vanished?)" % (qual, wn))
            tab[o] = h
        self._tab[qual] = tab
        return tab

    def unhandled(self, qual):
        return [o for o, h in self.table(qual).items() if h.is_error]

    def handler_groups(self, qual):
        """FunctionDef -> sorted list of ops it serves, for class qual."""
        groups = {}
        for o, h in self.table(qual).items():
            groups.setdefault((h.cls, h.name), []).append(o)
        return groups


_HT = None


def get_tables():
    global _HT
    if _HT is None:
        _HT = HandlerTables()
    return _HT
