"""Independent SMT-LIB 2.6 reader and evaluator (reference side of the text rules).

Written from the standard (Core, Ints, Reals, Reals_Ints, FixedSizeBitVectors + the QF_BV extensions,
ArraysEx, the Strings theory under both its draft and final spellings), not from pySMT.  It reads a
script into reference terms over the *core* operators of refsem (derived symbols are expanded by their
definitions in the standard), checks the static well-formedness conditions the properties mention
(every sort and symbol declared before use and once per scope, well-sortedness, simultaneous let, scoping
of binders and definitions) and evaluates terms under an assignment.

Reference terms: (op, args, payload) with
  SYMBOL    payload (name, sort)                FUNCTION  payload (name, funsort)
  *_CONSTANT payload value (BV: (value, width)) BV ops    payload as refsem.apply expects
  FORALL / EXISTS payload ((name, sort), ...)   ARRAY_VALUE payload index sort, args (default,)
Sorts as in refsem.
"""
from fractions import Fraction
import itertools

from . import refsem

BOOL, INT, REAL, STRING = ("BOOL",), ("INT",), ("REAL",), ("STRING",)


class SmtError(Exception):
    """The text is not well-formed SMT-LIB (or outside what this reader covers: `unsupported`)."""

    def __init__(self, msg, unsupported=False):
        Exception.__init__(self, msg)
        self.unsupported = unsupported


# ------------------------------------------------------------------------------------------- lexing
SYMCHARS = set("abcdefghijklmnopqrstuvwxyzABCDEFGHIJKLMNOPQRSTUVWXYZ0123456789~!@$%^&*_-+=<>.?/")


class Atom(object):
    __slots__ = ("kind", "text")

    def __init__(self, kind, text):
        self.kind = kind       # sym | qsym | str | num | dec | hex | bin | kw
        self.text = text

    def __repr__(self):
        return "%s:%s" % (self.kind, self.text)

    def __eq__(self, o):
        return isinstance(o, Atom) and (self.kind, self.text) == (o.kind, o.text)

    def __hash__(self):
        return hash((self.kind, self.text))


def tokenize(text):
    i, n = 0, len(text)
    out = []
    while i < n:
        c = text[i]
        if c in " \t\r\n":
            i += 1
        elif c == ";":
            while i < n and text[i] != "\n":
                i += 1
        elif c in "()":
            out.append(c)
            i += 1
        elif c == '"':
            j = i + 1
            buf = []
            while True:
                if j >= n:
                    raise SmtError("unterminated string literal")
                if text[j] == '"':
                    if j + 1 < n and text[j + 1] == '"':
                        buf.append('"')
                        j += 2
                        continue
                    break
                buf.append(text[j])
                j += 1
            out.append(Atom("str", "".join(buf)))
            i = j + 1
        elif c == "|":
            j = text.find("|", i + 1)
            if j < 0:
                raise SmtError("unterminated quoted symbol")
            body = text[i + 1:j]
            if "\\" in body:
                raise SmtError("backslash inside a quoted symbol")
            out.append(Atom("qsym", body))
            i = j + 1
        elif c == "#":
            j = i + 2
            while j < n and text[j] in "0123456789abcdefABCDEF":
                j += 1
            if text[i + 1:i + 2] == "b" and j > i + 2 and set(text[i + 2:j]) <= set("01"):
                out.append(Atom("bin", text[i + 2:j]))
            elif text[i + 1:i + 2] == "x" and j > i + 2:
                out.append(Atom("hex", text[i + 2:j]))
            else:
                raise SmtError("bad literal %r" % text[i:j])
            i = j
        elif c == ":":
            j = i + 1
            while j < n and text[j] in SYMCHARS:
                j += 1
            out.append(Atom("kw", text[i:j]))
            i = j
        elif c in SYMCHARS:
            j = i
            while j < n and text[j] in SYMCHARS:
                j += 1
            tok = text[i:j]
            if tok[0].isdigit():
                if tok.isdigit():
                    if len(tok) > 1 and tok[0] == "0":
                        raise SmtError("numeral with leading zero %s" % tok)
                    out.append(Atom("num", tok))
                else:
                    a, dot, b = tok.partition(".")
                    if dot and a.isdigit() and b.isdigit():
                        out.append(Atom("dec", tok))
                    else:
                        raise SmtError("bad numeral %r" % tok)
            else:
                out.append(Atom("sym", tok))
            i = j
        else:
            raise SmtError("illegal character %r" % c)
    return out


def read_all(text):
    toks = tokenize(text)
    pos = 0
    out = []

    def rd():
        nonlocal pos
        if pos >= len(toks):
            raise SmtError("unexpected end of input")
        t = toks[pos]
        pos += 1
        if t == "(":
            lst = []
            while True:
                if pos >= len(toks):
                    raise SmtError("unbalanced parenthesis")
                if toks[pos] == ")":
                    pos += 1
                    return lst
                lst.append(rd())
        if t == ")":
            raise SmtError("unexpected )")
        return t
    while pos < len(toks):
        out.append(rd())
    return out


def is_sym(x, name=None):
    return isinstance(x, Atom) and x.kind in ("sym", "qsym") and (name is None or (x.kind == "sym" and x.text == name))


def symname(x):
    if isinstance(x, Atom) and x.kind in ("sym", "qsym"):
        return x.text
    raise SmtError("symbol expected, got %r" % (x,))


# ------------------------------------------------------------------------------------------- terms
def T(op, args=(), payload=None):
    return (op, tuple(args), payload)


def bvc(v, w):
    return T("BV_CONSTANT", (), (v % (1 << w), w))


# reserved words of the concrete syntax: usable as symbols only in quoted form
RESERVED = {"let", "forall", "exists", "!", "_", "as", "par", "match", "BINARY", "DECIMAL", "HEXADECIMAL", "NUMERAL",
            "STRING"}
# function symbols of the theories: may not be redeclared, quoted or not (|and| is the symbol and)
THEORY_SYMBOLS = {"true", "false", "not", "and", "or", "xor", "=>", "=", "distinct", "ite",
                  "+", "-", "*", "/", "<", "<=", ">", ">=", "to_real", "to_int", "is_int", "div", "mod", "abs",
                  "select", "store", "concat", "bvnot", "bvneg", "bvand", "bvor", "bvxor", "bvadd", "bvsub", "bvmul",
                  "bvudiv", "bvurem", "bvsdiv", "bvsrem", "bvsmod", "bvshl", "bvlshr", "bvashr", "bvult", "bvule",
                  "bvugt", "bvuge", "bvslt", "bvsle", "bvsgt", "bvsge", "bvcomp", "bvnand", "bvnor", "bvxnor",
                  "str.len", "str.++", "str.at", "str.substr", "str.prefixof", "str.suffixof", "str.contains",
                  "str.indexof", "str.replace", "str.to_int", "str.from_int"}


class Scope(object):
    """One assertion-stack level of declarations."""

    def __init__(self):
        self.sorts = {}     # name -> arity
        self.sortdefs = {}  # name -> ([parameter names], sort expression): define-sort abbreviations
        self.funs = {}      # name -> (param sorts tuple, ret sort)
        self.defs = {}      # name -> ([(pname, sort)], ret sort, body term, body sort)
        self.assertions = []
        self.named = {}


class Script(object):
    def __init__(self, logic=None):
        self.logic = logic
        self.levels = [Scope()]
        self.commands = []     # (name, info)
        self.checks = 0
        self.global_decls = False     # (set-option :global-declarations true): declarations and definitions survive pop / reset-assertions

    # -- lookups through the stack
    def sort_arity(self, name):
        for lv in reversed(self.levels):
            if name in lv.sorts:
                return lv.sorts[name]
        return None

    def sort_def(self, name):
        for lv in reversed(self.levels):
            if name in lv.sortdefs:
                return lv.sortdefs[name]
        return None

    def fun(self, name):
        for lv in reversed(self.levels):
            if name in lv.funs:
                return ("fun",) + lv.funs[name]
            if name in lv.defs:
                return ("def",) + lv.defs[name]
        return None

    def declared_anywhere(self, name):
        return self.fun(name) is not None

    def live_assertions(self):
        out = []
        for lv in self.levels:
            out.extend(lv.assertions)
        return out

    def ints_are_reals(self):
        """In logics with Reals and without Ints a numeral denotes a Real."""
        lg = self.logic
        if lg is None or lg == "ALL":
            return False
        core = lg[3:] if lg.startswith("QF_") else lg
        for pre in ("AUF", "UF", "ABV", "BV", "A", "FP", "DT", "S"):
            pass
        has_real = "RA" in core or "RDL" in core or "IRA" in core
        has_int = "IA" in core or "IDL" in core or "IRA" in core
        return has_real and not has_int


def parse_sort(sx, script, params=None):
    if isinstance(sx, Atom):
        n = symname(sx)
        if sx.kind == "sym":
            if n == "Bool":
                return BOOL
            if n == "Int":
                return INT
            if n == "Real":
                return REAL
            if n == "String":
                return STRING
        if params and n in params:
            return params[n]
        sd = script.sort_def(n)
        if sd is not None:
            _need(not sd[0], "sort %s expects %d arguments" % (n, len(sd[0])))
            return parse_sort(sd[1], script, None)
        ar = script.sort_arity(n)
        if ar is None:
            raise SmtError("sort %s is used but not declared" % n)
        if ar != 0:
            raise SmtError("sort %s expects %d arguments" % (n, ar))
        return ("CUSTOM", n)
    if isinstance(sx, list) and sx:
        if is_sym(sx[0], "_") and len(sx) == 3 and is_sym(sx[1], "BitVec") and isinstance(sx[2], Atom) and sx[2].kind == "num":
            w = int(sx[2].text)
            if w <= 0:
                raise SmtError("bit-vector sort of width 0")
            return ("BV", w)
        if is_sym(sx[0], "Array") and len(sx) == 3:
            return ("ARRAY", parse_sort(sx[1], script, params), parse_sort(sx[2], script, params))
        if isinstance(sx[0], Atom) and sx[0].kind in ("sym", "qsym"):
            n = symname(sx[0])
            sd = script.sort_def(n)
            if sd is not None:
                _need(len(sd[0]) == len(sx) - 1, "sort %s expects %d arguments" % (n, len(sd[0])))
                actual = dict(zip(sd[0], [parse_sort(x, script, params) for x in sx[1:]]))
                return parse_sort(sd[1], script, actual)
            ar = script.sort_arity(n)
            if ar is None:
                raise SmtError("sort %s is used but not declared" % n)
            _need(ar == len(sx) - 1, "sort %s expects %d arguments" % (n, ar))
            return ("CUSTOM", n, tuple(parse_sort(x, script, params) for x in sx[1:]))
        raise SmtError("unsupported sort expression %r" % (sx,), unsupported=True)
    raise SmtError("bad sort %r" % (sx,))


def _arith_join(sorts, what):
    ss = set(sorts)
    if ss == {INT}:
        return INT
    if ss == {REAL}:
        return REAL
    raise SmtError("%s applied to operands of sorts %s" % (what, sorted(ss)))


def _need(cond, msg):
    if not cond:
        raise SmtError(msg)


def _left_assoc(op, ts, mk):
    r = ts[0]
    for t in ts[1:]:
        r = mk(r, t)
    return r


class Reader(object):
    def __init__(self, script):
        self.s = script

    # ---- term with sort
    def term(self, sx, env):
        """env: dict name -> ('let', term, sort) | ('var', sort).  Returns (term, sort)."""
        if isinstance(sx, Atom):
            return self.atom(sx, env)
        _need(isinstance(sx, list) and sx, "empty term ()")
        h = sx[0]
        if is_sym(h, "let"):
            _need(len(sx) == 3 and isinstance(sx[1], list) and sx[1], "malformed let")
            new = dict(env)
            seen = set()
            for b in sx[1]:
                _need(isinstance(b, list) and len(b) == 2, "malformed let binding")
                nm = symname(b[0])
                _need(nm not in seen, "let binds %s twice" % nm)
                seen.add(nm)
                t, so = self.term(b[1], env)        # simultaneous: right-hand sides see the OUTER scope
                new[nm] = ("let", t, so)
            return self.term(sx[2], new)
        if is_sym(h, "forall") or is_sym(h, "exists"):
            _need(len(sx) == 3 and isinstance(sx[1], list) and sx[1], "malformed quantifier")
            new = dict(env)
            vs = []
            for b in sx[1]:
                _need(isinstance(b, list) and len(b) == 2, "malformed sorted variable")
                nm = symname(b[0])
                so = parse_sort(b[1], self.s)
                new[nm] = ("var", so)
                vs.append((nm, so))
            body, bs = self.term(sx[2], new)
            _need(bs == BOOL, "quantifier body of sort %s" % (bs,))
            return T("FORALL" if h.text == "forall" else "EXISTS", (body,), tuple(vs)), BOOL
        if is_sym(h, "!"):
            _need(len(sx) >= 4 and len(sx) % 2 == 0, "malformed annotation")
            t, so = self.term(sx[1], env)
            for i in range(2, len(sx), 2):
                _need(isinstance(sx[i], Atom) and sx[i].kind == "kw", "attribute keyword expected")
                if sx[i].text == ":named":
                    nm = symname(sx[i + 1])
                    _need(not self.s.declared_anywhere(nm), "name %s of a :named term is already in use" % nm)
                    self.s.levels[-1].defs[nm] = ([], so, t, so)
            return t, so
        if isinstance(h, list):
            # ((_ extract i j) t)   ((as const (Array ..)) v)
            if h and is_sym(h[0], "_"):
                return self.indexed_app(h, sx[1:], env)
            if h and is_sym(h[0], "as") and len(h) == 3 and is_sym(h[1], "const"):
                so = parse_sort(h[2], self.s)
                _need(so[0] == "ARRAY" and len(sx) == 2, "malformed constant array")
                v, vs = self.term(sx[1], env)
                _need(vs == so[2], "constant array of sort %s with default of sort %s" % (so, vs))
                return T("ARRAY_VALUE", (v,), so[1]), so
            raise SmtError("unsupported head %r" % (h,), unsupported=True)
        if is_sym(h, "_"):
            return self.indexed_const(sx)
        name = symname(h)
        args = [self.term(a, env) for a in sx[1:]]
        if h.kind == "sym" and name in env and env[name][0] in ("let", "var"):
            raise SmtError("bound variable %s applied to arguments" % name)
        return self.app(name, h.kind == "qsym", args)

    def atom(self, a, env):
        if a.kind == "num":
            v = int(a.text)
            if self.s.ints_are_reals():
                return T("REAL_CONSTANT", (), Fraction(v)), REAL
            return T("INT_CONSTANT", (), v), INT
        if a.kind == "dec":
            return T("REAL_CONSTANT", (), Fraction(a.text)), REAL
        if a.kind == "hex":
            return bvc(int(a.text, 16), 4 * len(a.text)), ("BV", 4 * len(a.text))
        if a.kind == "bin":
            return bvc(int(a.text, 2), len(a.text)), ("BV", len(a.text))
        if a.kind == "str":
            return T("STR_CONSTANT", (), a.text), STRING
        if a.kind == "kw":
            raise SmtError("keyword %s in term position" % a.text)
        n = a.text
        if n in env:
            e = env[n]
            if e[0] == "let":
                return e[1], e[2]
            return T("SYMBOL", (), (n, e[1])), e[1]
        if a.kind == "sym" and n == "true":
            return T("BOOL_CONSTANT", (), True), BOOL
        if a.kind == "sym" and n == "false":
            return T("BOOL_CONSTANT", (), False), BOOL
        return self.app(n, a.kind == "qsym", [])

    def indexed_const(self, sx):
        # (_ bv5 4)
        if len(sx) == 3 and is_sym(sx[1]) and sx[1].text.startswith("bv") and sx[1].text[2:].isdigit() \
                and isinstance(sx[2], Atom) and sx[2].kind == "num":
            w = int(sx[2].text)
            v = int(sx[1].text[2:])
            _need(w > 0, "bit-vector literal of width 0")
            _need(v < (1 << w), "(_ bv%d %d) does not fit" % (v, w))
            return bvc(v, w), ("BV", w)
        raise SmtError("unsupported indexed identifier %r" % (sx,), unsupported=True)

    def indexed_app(self, h, argsx, env):
        nm = symname(h[1])
        idx = []
        for x in h[2:]:
            _need(isinstance(x, Atom) and x.kind == "num", "numeral index expected in %r" % (h,))
            idx.append(int(x.text))
        args = [self.term(a, env) for a in argsx]
        _need(len(args) == 1, "(_ %s ..) takes one argument" % nm)
        t, so = args[0]
        _need(so[0] == "BV", "(_ %s ..) applied to sort %s" % (nm, so))
        w = so[1]
        if nm == "extract":
            _need(len(idx) == 2, "extract needs two indices")
            hi, lo = idx
            _need(w > hi >= lo >= 0, "(_ extract %d %d) on width %d" % (hi, lo, w))
            return T("BV_EXTRACT", (t,), (lo, hi)), ("BV", hi - lo + 1)
        _need(len(idx) == 1, "(_ %s ..) needs one index" % nm)
        k = idx[0]
        if nm == "zero_extend":
            return (T("BV_ZEXT", (t,), (k,)), ("BV", w + k)) if k else (t, so)
        if nm == "sign_extend":
            return (T("BV_SEXT", (t,), (w, k)), ("BV", w + k)) if k else (t, so)
        if nm == "rotate_left":
            return T("BV_ROL", (t,), (k,)), so
        if nm == "rotate_right":
            return T("BV_ROR", (t,), (k,)), so
        if nm == "repeat":
            _need(k >= 1, "(_ repeat 0)")
            r = t
            rw = w
            for _ in range(k - 1):
                r = T("BV_CONCAT", (r, t), (w,))
                rw += w
            return r, ("BV", rw)
        raise SmtError("unsupported indexed operator %s" % nm, unsupported=True)

    # ---- applications of named symbols
    def app(self, name, quoted, args):
        ts = [a[0] for a in args]
        ss = [a[1] for a in args]
        d = self.s.fun(name)
        if d is not None:
            if d[0] == "fun":
                _, ps, ret = d
                _need(tuple(ss) == tuple(ps), "%s applied to sorts %s, declared %s" % (name, ss, list(ps)))
                if not ps:
                    return T("SYMBOL", (), (name, ret)), ret
                return T("FUNCTION", tuple(ts), (name, ("FUN", ret, tuple(ps)))), ret
            _, ps, ret, body, _bs = d
            _need([s for _, s in ps] == ss, "%s applied to sorts %s, defined over %s" % (name, ss, ps))
            return subst(body, dict(((n, s), t) for (n, s), t in zip(ps, ts))), ret
        if quoted:
            raise SmtError("symbol |%s| is used but not declared" % name)
        r = self.theory_app(name, ts, ss)
        if r is None:
            raise SmtError("symbol %s is used but not declared" % name)
        return r

    def theory_app(self, f, ts, ss):
        n = len(ts)
        allb = all(s == BOOL for s in ss)
        # ----- Core
        if f == "not":
            _need(n == 1 and allb, "not: arity/sort")
            return T("NOT", ts), BOOL
        if f in ("and", "or"):
            _need(n >= 2 and allb, "%s: needs >= 2 Boolean operands" % f)
            return T(f.upper(), ts), BOOL
        if f == "xor":
            _need(n >= 2 and allb, "xor: sorts")
            return _left_assoc("xor", ts, lambda a, b: T("NOT", (T("IFF", (a, b)),))), BOOL
        if f == "=>":
            _need(n >= 2 and allb, "=>: sorts")
            r = ts[-1]
            for t in reversed(ts[:-1]):
                r = T("IMPLIES", (t, r))
            return r, BOOL
        if f == "=":
            _need(n >= 2 and len(set(ss)) == 1, "= applied to sorts %s" % ss)
            op = "IFF" if ss[0] == BOOL else "EQUALS"
            pairs = [T(op, (ts[i], ts[i + 1])) for i in range(n - 1)]
            return (pairs[0] if len(pairs) == 1 else T("AND", pairs)), BOOL
        if f == "distinct":
            _need(n >= 2 and len(set(ss)) == 1, "distinct applied to sorts %s" % ss)
            op = "IFF" if ss[0] == BOOL else "EQUALS"
            pairs = [T("NOT", (T(op, (a, b)),)) for a, b in itertools.combinations(ts, 2)]
            return (pairs[0] if len(pairs) == 1 else T("AND", pairs)), BOOL
        if f == "ite":
            _need(n == 3 and ss[0] == BOOL and ss[1] == ss[2], "ite applied to sorts %s" % ss)
            return T("ITE", ts), ss[1]
        # ----- arithmetic
        if f in ("+", "*") and n >= 2 and all(s in (INT, REAL) for s in ss):
            so = _arith_join(ss, f)
            return T("PLUS" if f == "+" else "TIMES", ts), so
        if f == "-" and n >= 1 and all(s in (INT, REAL) for s in ss):
            so = _arith_join(ss, "-")
            if n == 1:
                t = ts[0]
                if t[0] in ("INT_CONSTANT", "REAL_CONSTANT"):
                    return T(t[0], (), -t[2]), so
                m1 = T("INT_CONSTANT", (), -1) if so == INT else T("REAL_CONSTANT", (), Fraction(-1))
                return T("TIMES", (m1, t)), so
            return _left_assoc("-", ts, lambda a, b: T("MINUS", (a, b))), so
        if f == "/" and n >= 2 and all(s in (INT, REAL) for s in ss):
            # numerals are promoted in Real division (/ 1 3)
            ts2 = [(T("REAL_CONSTANT", (), Fraction(t[2])) if t[0] == "INT_CONSTANT" else
                    (T("TOREAL", (t,)) if s == INT else t)) for t, s in zip(ts, ss)]
            def mk(a, b):
                if a[0] == "REAL_CONSTANT" and b[0] == "REAL_CONSTANT" and b[2] != 0:
                    return T("REAL_CONSTANT", (), a[2] / b[2])
                return T("DIV", (a, b))
            return _left_assoc("/", ts2, mk), REAL
        if f in ("<=", "<", ">=", ">") and n >= 2 and all(s in (INT, REAL) for s in ss):
            _arith_join(ss, f)
            def rel(a, b):
                if f == "<=":
                    return T("LE", (a, b))
                if f == "<":
                    return T("LT", (a, b))
                if f == ">=":
                    return T("LE", (b, a))
                return T("LT", (b, a))
            pairs = [rel(ts[i], ts[i + 1]) for i in range(n - 1)]
            return (pairs[0] if len(pairs) == 1 else T("AND", pairs)), BOOL
        if f == "pow" and n == 2 and all(s in (INT, REAL) for s in ss):
            # pySMT extension (documented): constant exponent power
            return T("POW", ts), ss[0]
        if f == "to_real" and n == 1 and ss[0] == INT:
            return T("TOREAL", ts), REAL
        if f in ("div", "mod", "abs", "to_int", "is_int"):
            raise SmtError("integer %s has no counterpart among the core operators" % f, unsupported=True)
        # ----- bit-vectors
        if f.startswith("bv") or f == "concat":
            r = self.bv_app(f, ts, ss)
            if r is not None:
                return r
        if f == "bv2nat" and n == 1 and ss[0][0] == "BV":
            return T("BV_TONATURAL", ts), INT
        # ----- arrays
        if f == "select" and n == 2 and ss[0][0] == "ARRAY":
            _need(ss[0][1] == ss[1], "select: index sort %s on %s" % (ss[1], ss[0]))
            return T("ARRAY_SELECT", ts), ss[0][2]
        if f == "store" and n == 3 and ss[0][0] == "ARRAY":
            _need(ss[0][1] == ss[1] and ss[0][2] == ss[2], "store: sorts %s" % ss)
            return T("ARRAY_STORE", ts), ss[0]
        # ----- strings
        st = self.str_app(f, ts, ss)
        if st is not None:
            return st
        return None

    def bv_app(self, f, ts, ss):
        n = len(ts)
        if not all(s[0] == "BV" for s in ss) or n == 0:
            return None
        w = ss[0][1]
        same = all(s == ss[0] for s in ss)
        so = ss[0]
        un = {"bvnot": "BV_NOT", "bvneg": "BV_NEG"}
        if f in un and n == 1:
            return T(un[f], ts), so
        la = {"bvand": "BV_AND", "bvor": "BV_OR", "bvxor": "BV_XOR", "bvadd": "BV_ADD", "bvmul": "BV_MUL"}
        if f in la and n >= 2 and same:
            return _left_assoc(f, ts, lambda a, b: T(la[f], (a, b))), so
        bi = {"bvsub": "BV_SUB", "bvudiv": "BV_UDIV", "bvurem": "BV_UREM", "bvsdiv": "BV_SDIV", "bvsrem": "BV_SREM",
              "bvshl": "BV_LSHL", "bvlshr": "BV_LSHR", "bvashr": "BV_ASHR"}
        if f in bi and n == 2 and same:
            return T(bi[f], ts), so
        if f in ("bvnand", "bvnor", "bvxnor") and n == 2 and same:
            inner = {"bvnand": "BV_AND", "bvnor": "BV_OR", "bvxnor": "BV_XOR"}[f]
            return T("BV_NOT", (T(inner, ts),)), so
        if f == "bvsmod" and n == 2 and same:
            return T("BV_SMOD*", ts), so          # evaluated directly (defined by cases in the standard)
        if f == "bvcomp" and n == 2 and same:
            return T("BV_COMP", ts), ("BV", 1)
        if f == "concat" and n >= 2:
            r, rw = ts[0], ss[0][1]
            for t, s in zip(ts[1:], ss[1:]):
                r = T("BV_CONCAT", (r, t), (s[1],))
                rw += s[1]
            return r, ("BV", rw)
        rel = {"bvult": ("BV_ULT", False), "bvule": ("BV_ULE", False), "bvugt": ("BV_ULT", True), "bvuge": ("BV_ULE", True),
               "bvslt": ("BV_SLT", False), "bvsle": ("BV_SLE", False), "bvsgt": ("BV_SLT", True), "bvsge": ("BV_SLE", True)}
        if f in rel and n == 2 and same:
            op, sw = rel[f]
            return T(op, (ts[1], ts[0]) if sw else ts), BOOL
        return None

    def str_app(self, f, ts, ss):
        n = len(ts)
        sig = {
            "str.len": ("STR_LENGTH", [STRING], INT), "str.at": ("STR_CHARAT", [STRING, INT], STRING),
            "str.substr": ("STR_SUBSTR", [STRING, INT, INT], STRING), "str.prefixof": ("STR_PREFIXOF", [STRING, STRING], BOOL),
            "str.suffixof": ("STR_SUFFIXOF", [STRING, STRING], BOOL), "str.contains": ("STR_CONTAINS", [STRING, STRING], BOOL),
            "str.indexof": ("STR_INDEXOF", [STRING, STRING, INT], INT), "str.replace": ("STR_REPLACE", [STRING, STRING, STRING], STRING),
            "str.to_int": ("STR_TO_INT", [STRING], INT), "str.to.int": ("STR_TO_INT", [STRING], INT),
            "str.from_int": ("INT_TO_STR", [INT], STRING), "int.to.str": ("INT_TO_STR", [INT], STRING),
        }
        if f == "str.++" and n >= 2 and all(s == STRING for s in ss):
            return T("STR_CONCAT", ts), STRING
        if f in sig:
            op, ps, ret = sig[f]
            _need(list(ss) == ps, "%s applied to sorts %s" % (f, ss))
            return T(op, ts), ret
        return None


def subst(t, m):
    """capture-free on the reader's terms: keys (name, sort) of SYMBOL leaves"""
    op, args, p = t
    if op == "SYMBOL" and p in m:
        return m[p]
    if op in ("FORALL", "EXISTS"):
        m2 = dict((k, v) for k, v in m.items() if k not in p)
        return T(op, tuple(subst(a, m2) for a in args), p)
    if not args:
        return t
    return T(op, tuple(subst(a, m) for a in args), p)


# ------------------------------------------------------------------------------------------- scripts
KNOWN_COMMANDS = {"set-logic", "set-option", "set-info", "declare-sort", "define-sort", "declare-fun", "declare-const",
                  "define-fun", "push", "pop", "assert", "check-sat", "check-sat-assuming", "get-assertions", "get-proof",
                  "get-unsat-core", "get-value", "get-assignment", "get-option", "get-info", "get-model", "exit", "reset",
                  "reset-assertions", "echo", "define-fun-rec", "define-funs-rec", "get-unsat-assumptions", "declare-datatype",
                  "declare-datatypes",
                  # optimisation extension (OptiMathSAT / z3 command set, as accepted by pySMT)
                  "maximize", "minimize", "minmax", "maxmin", "assert-soft", "get-objectives", "check-allsat",
                  "load-objective-model", "set-model"}


def _attributes(items):
    """:key [value] pairs after the term of a command -> dict (flags map to True)"""
    out = {}
    i = 0
    while i < len(items):
        k = items[i]
        _need(isinstance(k, Atom) and k.kind == "kw", "attribute keyword expected, got %r" % (k,))
        if i + 1 < len(items) and not (isinstance(items[i + 1], Atom) and items[i + 1].kind == "kw"):
            out[k.text] = items[i + 1]
            i += 2
        else:
            out[k.text] = True
            i += 1
    return out


def read_script(text):
    """Reads and statically checks a whole script.  Returns Script with .levels / .commands."""
    s = Script()
    rd = Reader(s)
    for c in read_all(text):
        run_command(s, rd, c)
    return s


def run_command(s, rd, c):
    """Executes one command s-expression on the script state (static checks included)."""
    if True:
        _need(isinstance(c, list) and c and is_sym(c[0]), "command expected, got %r" % (c,))
        name = c[0].text
        _need(name in KNOWN_COMMANDS, "unknown command %s" % name)
        cur = s.levels[-1]
        dcl = s.levels[0] if s.global_decls else cur        # where declarations and definitions are recorded
        if name == "set-option" and len(c) == 3 and getattr(c[1], "text", None) == ":global-declarations":
            s.global_decls = getattr(c[2], "text", None) == "true"
            s.commands.append((name, tuple(c[1:])))
        elif name == "set-logic":
            _need(len(c) == 2, "set-logic arity")
            s.logic = symname(c[1])
            s.commands.append((name, s.logic))
        elif name == "declare-sort":
            _need(len(c) in (2, 3), "declare-sort arity")
            nm = symname(c[1])
            ar = int(c[2].text) if len(c) == 3 else 0
            _need(s.sort_arity(nm) is None and nm not in ("Bool", "Int", "Real", "String", "Array", "BitVec"),
                  "sort %s declared twice" % nm)
            dcl.sorts[nm] = ar
            s.commands.append((name, (nm, ar)))
        elif name in ("declare-fun", "declare-const"):
            nm = symname(c[1])
            if name == "declare-fun":
                _need(len(c) == 4 and isinstance(c[2], list), "declare-fun shape")
                ps = tuple(parse_sort(x, s) for x in c[2])
                ret = parse_sort(c[3], s)
            else:
                _need(len(c) == 3, "declare-const shape")
                ps, ret = (), parse_sort(c[2], s)
            _need(not s.declared_anywhere(nm), "symbol %s declared twice" % nm)
            _need(not (c[1].kind == "sym" and (nm in RESERVED or nm in KNOWN_COMMANDS)),
                  "reserved word %s used as a symbol without quotes" % nm)
            _need(nm not in THEORY_SYMBOLS, "theory symbol %s redeclared" % nm)
            dcl.funs[nm] = (ps, ret)
            s.commands.append((name, (nm, ps, ret)))
        elif name == "define-fun":
            _need(len(c) == 5 and isinstance(c[2], list), "define-fun shape")
            nm = symname(c[1])
            ps = []
            env = {}
            for b in c[2]:
                _need(isinstance(b, list) and len(b) == 2, "define-fun parameter")
                pn, pso = symname(b[0]), parse_sort(b[1], s)
                _need(pn not in env, "parameter %s twice" % pn)
                ps.append((pn, pso))
                env[pn] = ("var", pso)
            ret = parse_sort(c[3], s)
            body, bs = rd.term(c[4], env)
            _need(bs == ret, "define-fun %s: body of sort %s, declared %s" % (nm, bs, ret))
            _need(not s.declared_anywhere(nm), "symbol %s defined twice" % nm)
            dcl.defs[nm] = (ps, ret, body, bs)
            s.commands.append((name, (nm, tuple(ps), ret, body)))
        elif name == "assert":
            _need(len(c) == 2, "assert arity")
            t, so = rd.term(c[1], {})
            _need(so == BOOL, "assert of a term of sort %s" % (so,))
            cur.assertions.append(t)
            s.commands.append((name, t))
        elif name == "push":
            k = int(c[1].text) if len(c) > 1 else 1
            for _ in range(k):
                s.levels.append(Scope())
            s.commands.append((name, k))
        elif name == "pop":
            k = int(c[1].text) if len(c) > 1 else 1
            _need(k < len(s.levels), "pop %d with %d levels" % (k, len(s.levels) - 1))
            for _ in range(k):
                s.levels.pop()
            s.commands.append((name, k))
        elif name == "reset-assertions":
            if s.global_decls:
                keep = s.levels[0]
                keep.assertions, keep.named = [], {}
                s.levels = [keep]
            else:
                s.levels = [Scope()]
            s.commands.append((name, None))
        elif name == "reset":
            s.levels = [Scope()]
            s.logic = None
            s.commands.append((name, None))
        elif name == "check-sat":
            s.checks += 1
            s.commands.append((name, None))
        elif name == "get-value":
            _need(len(c) == 2 and isinstance(c[1], list) and c[1], "get-value shape")
            s.commands.append((name, tuple(rd.term(x, {})[0] for x in c[1])))
        elif name == "check-sat-assuming":
            _need(len(c) == 2 and isinstance(c[1], list), "check-sat-assuming shape")
            lits = []
            for x in c[1]:
                t, so = rd.term(x, {})
                _need(so == BOOL, "assumption of sort %s" % (so,))
                lits.append(t)
            s.checks += 1
            s.commands.append((name, tuple(lits)))
        elif name in ("maximize", "minimize"):
            _need(len(c) >= 2, "%s needs a term" % name)
            t, so = rd.term(c[1], {})
            _need(so in (INT, REAL) or so[0] == "BV", "objective of sort %s" % (so,))
            opts = _attributes(c[2:])
            s.commands.append((name, (t, opts)))
        elif name == "assert-soft":
            _need(len(c) >= 2, "assert-soft needs a formula")
            t, so = rd.term(c[1], {})
            _need(so == BOOL, "soft clause of sort %s" % (so,))
            opts = _attributes(c[2:])
            if ":weight" in opts:
                wt, wso = rd.term(opts[":weight"], {})
                _need(wso in (INT, REAL), "weight of sort %s" % (wso,))
                opts[":weight"] = wt
            s.commands.append((name, (t, opts)))
        elif name == "define-sort":
            _need(len(c) == 4 and isinstance(c[2], list), "define-sort shape")
            nm = symname(c[1])
            _need(s.sort_arity(nm) is None and s.sort_def(nm) is None and
                  nm not in ("Bool", "Int", "Real", "String", "Array", "BitVec"), "sort %s declared twice" % nm)
            ps = [symname(x) for x in c[2]]
            parse_sort(c[3], s, dict((p_, ("CUSTOM", "#" + p_)) for p_ in ps))      # well-formed with opaque parameters
            dcl.sortdefs[nm] = (ps, c[3])
            s.commands.append((name, (nm, len(ps))))
        elif name in ("define-fun-rec", "define-funs-rec", "declare-datatype", "declare-datatypes"):
            raise SmtError("command %s not covered by the reference reader" % name, unsupported=True)
        else:
            s.commands.append((name, tuple(c[1:])))


# ------------------------------------------------------------------------------------------- evaluation
def evaluate(t, asg):
    """Value of a reference term under asg ('sym:<name>' -> value, 'fun:<name>' -> table)."""
    op, args, p = t
    if op == "SYMBOL":
        return asg["sym:" + p[0]]
    if op in ("BOOL_CONSTANT", "INT_CONSTANT", "REAL_CONSTANT", "STR_CONSTANT"):
        return p
    if op == "BV_CONSTANT":
        return p[0]
    if op == "FUNCTION":
        table = asg.get("fun:" + p[0])
        if table is None:
            raise refsem.NoSemantics("uninterpreted function without interpretation")
        key = tuple(evaluate(a, asg) for a in args)
        return table[key] if key in table else table[min(table)]
    if op in ("FORALL", "EXISTS"):
        names, doms = [], []
        for nm, so in p:
            if so[0] not in ("BOOL", "BV") or (so[0] == "BV" and so[1] > 2):
                raise refsem.NoSemantics("quantifier over %s" % (so,))
            names.append("sym:" + nm)
            doms.append(refsem.domain(so))
        res = []
        for combo in itertools.product(*doms):
            a2 = dict(asg)
            a2.update(zip(names, combo))
            res.append(bool(evaluate(args[0], a2)))
        return all(res) if op == "FORALL" else any(res)
    if op in ("ARRAY_SELECT", "ARRAY_STORE", "ARRAY_VALUE"):
        raise refsem.NoSemantics("arrays")
    if op == "ITE":
        return evaluate(args[1], asg) if evaluate(args[0], asg) else evaluate(args[2], asg)
    vals = [evaluate(a, asg) for a in args]
    so = [sort_of(a) for a in args] if op.startswith("BV_") else None
    if op == "BV_SMOD*":
        return refsem.bvsmod(vals[0], vals[1], so[0][1])
    w = argw = None
    payload = p
    if op.startswith("BV_"):
        rs = sort_of(t)
        w = rs[1] if rs[0] == "BV" else None
        argw = so[0][1] if so and so[0][0] == "BV" else None
    return refsem.apply(op, vals, w=w, payload=payload, argw=argw)


def sort_of(t):
    op, args, p = t
    if op == "SYMBOL":
        return p[1]
    if op == "FUNCTION":
        return p[1][1]
    if op == "BV_CONSTANT":
        return ("BV", p[1])
    if op in refsem.BOOL_RESULT or op in ("FORALL", "EXISTS"):
        return BOOL
    if op == "INT_CONSTANT" or op in refsem.INT_RESULT:
        return INT
    if op == "REAL_CONSTANT" or op in ("TOREAL", "DIV"):
        return REAL
    if op in refsem.STR_RESULT:
        return STRING
    if op == "ITE":
        return sort_of(args[1])
    if op in ("PLUS", "MINUS", "TIMES"):
        return sort_of(args[0])
    if op == "POW":
        return sort_of(args[0])
    if op == "ARRAY_SELECT":
        return sort_of(args[0])[2]
    if op == "ARRAY_STORE":
        return sort_of(args[0])
    if op == "ARRAY_VALUE":
        return ("ARRAY", p, sort_of(args[0]))
    a = sort_of(args[0])
    if op in refsem.BV_SAMEWIDTH or op == "BV_SMOD*":
        return a
    if op == "BV_COMP":
        return ("BV", 1)
    if op == "BV_CONCAT":
        return ("BV", a[1] + sort_of(args[1])[1])
    if op == "BV_EXTRACT":
        return ("BV", p[1] - p[0] + 1)
    if op == "BV_ZEXT":
        return ("BV", a[1] + p[0])
    if op == "BV_SEXT":
        return ("BV", a[1] + p[1])
    raise refsem.NoSemantics("sort of %s" % op)


def symbols_of(t, out=None, bound=()):
    """free symbols and applied functions: name -> sort"""
    out = {} if out is None else out
    op, args, p = t
    if op == "SYMBOL":
        if p not in bound:
            out[p[0]] = p[1]
    elif op == "FUNCTION":
        out[p[0]] = p[1]
    if op in ("FORALL", "EXISTS"):
        bound = tuple(bound) + tuple(p)
        for nm, so in p:
            out.setdefault(nm, so)     # domains are needed for enumeration too
    for a in args:
        symbols_of(a, out, bound)
    return out


def term_str(t, depth=0):
    op, args, p = t
    if op == "SYMBOL":
        return p[0]
    if op.endswith("_CONSTANT"):
        return repr(p) if op != "BV_CONSTANT" else "BV(%d,%d)" % p
    if op == "FUNCTION":
        return "%s(%s)" % (p[0], ", ".join(term_str(a, depth + 1) for a in args))
    if depth > 5:
        return op + "(...)"
    extra = "" if p is None else "[%s]" % (",".join(n for n, _ in p) if op in ("FORALL", "EXISTS") else p,)
    return "%s%s(%s)" % (op, extra, ", ".join(term_str(a, depth + 1) for a in args))
