"""Findings, known-findings matching, evidence files, exit codes."""
import json
import os
import sys
import time

VERIF = os.path.dirname(os.path.dirname(os.path.abspath(__file__)))
KNOWN = os.path.join(VERIF, "known_findings.json")


class Finding(object):
    def __init__(self, prop, rule, key, msg, loc):
        self.prop = prop
        self.rule = rule
        self.key = key        # position-free: rule|module|qualname|normalised construct
        self.msg = msg
        self.loc = loc        # file:line (diagnostic only, not part of the key)

    def as_dict(self):
        return {"property": self.prop, "rule": self.rule, "key": self.key,
                "message": self.msg, "location": self.loc}


class RuleStats(object):
    def __init__(self, rule, title):
        self.rule = rule
        self.title = title
        self.instances = 0       # rule instances examined
        self.holds = 0
        self.unrecognised = []   # instances outside the idiom set: no verdict
        self.violations = 0
        self.samples = []
        self.exhaustive = None
        self.floor = None
        self.notes = []
        self.control = None      # positive control outcome

    def ok(self, sample=None):
        self.instances += 1
        self.holds += 1
        if sample is not None and len(self.samples) < 6:
            self.samples.append(sample)

    def unrec(self, what):
        self.instances += 1
        self.unrecognised.append(what)

    def as_dict(self):
        d = {"rule": self.rule, "title": self.title, "instances": self.instances,
             "holds": self.holds, "violations": self.violations,
             "unrecognised": self.unrecognised[:20],
             "unrecognised_count": len(self.unrecognised), "samples": self.samples}
        if self.exhaustive is not None:
            d["exhaustive"] = self.exhaustive
        if self.floor is not None:
            d["floor"] = self.floor
        if self.control is not None:
            d["positive_control"] = self.control
        if self.notes:
            d["notes"] = self.notes
        return d


class Ctx(object):
    """One run of one property check."""

    def __init__(self, prop, tier="quick", only_rule=None):
        self.prop = prop
        self.tier = tier
        self.only_rule = only_rule
        self.findings = []
        self.rules = []
        self.errors = []
        self.t0 = time.time()
        self.assumptions = []
        self.analysed = {}

    def rule(self, rid, title):
        rs = RuleStats(rid, title)
        self.rules.append(rs)
        return rs

    def want(self, rid):
        return self.only_rule is None or self.only_rule == rid

    def finding(self, rs, key, msg, loc):
        rs.instances += 1
        rs.violations += 1
        full = "%s|%s" % (rs.rule, key)
        for g in self.findings:
            if g.key == full:        # same construct reached through another instance: one report
                g.more = getattr(g, "more", 0) + 1
                return g
        f = Finding(self.prop, rs.rule, full, msg, loc)
        self.findings.append(f)
        return f

    def error(self, rid, msg):
        self.errors.append("%s: %s" % (rid, msg))

    def floor(self, rs, n):
        """Vacuity guard: a rule that recognises fewer instances than confirmed by hand has gone
        blind -> analysis error, not a pass."""
        rs.floor = n
        recognised = rs.holds + rs.violations
        if recognised < n:
            self.error(rs.rule, "recognised %d instances, floor is %d (rule went blind)"
                       % (recognised, n))


def load_known():
    if not os.path.exists(KNOWN):
        return {"findings": [], "fixed": []}
    with open(KNOWN) as f:
        return json.load(f)


def finish(ctx, explanation, not_decided):
    try:
        from . import handlers as _h
        if _h._HT is not None and _h._HT.source:
            src = _h._HT.source
            n_i = sum(1 for v in src.values() if v == "interpreted")
            ctx.analysed["walker_dispatch_tables"] = "%d classes: %d from the interpreted metaclass, %d from the static model%s" % (
                len(src), n_i, len(src) - n_i, ("; " + "; ".join(sorted(set(v for v in src.values() if v != "interpreted")))[:300]) if n_i < len(src) else "")
    except Exception:        # noqa - bookkeeping only
        pass
    known = load_known()
    known_keys = {}
    for k in known.get("findings", []):
        if k.get("property") == ctx.prop:
            for kk in ([k["key"]] if "key" in k else []) + list(k.get("keys", [])):
                known_keys[kk] = k
    out_dir = os.path.join(VERIF, "out", ctx.prop)
    os.makedirs(out_dir, exist_ok=True)
    new = []
    seen_known = []
    for f in ctx.findings:
        if f.key in known_keys:
            seen_known.append(f)
        else:
            new.append(f)
    lines = []
    for rs in ctx.rules:
        lines.append("  %-4s %-58s inst=%-4d holds=%-4d viol=%-3d unrec=%d"
                     % (rs.rule, rs.title[:58], rs.instances, rs.holds, rs.violations,
                        len(rs.unrecognised)))
    print("== %s (%s tier) ==" % (ctx.prop, ctx.tier))
    print("\n".join(lines))
    for rs in ctx.rules:
        for u in rs.unrecognised[:8]:
            print("  UNRECOGNISED %s %s" % (rs.rule, u))
    for f in seen_known:
        print("KNOWN-FINDING: property=%s %s [%s] at %s -- %s"
              % (ctx.prop, known_keys[f.key].get("id", ""), f.key, f.loc, f.msg))
    for i, f in enumerate(new):
        path = os.path.join(out_dir, "%s-%d.json" % (f.rule, i))
        with open(path, "w") as fh:
            json.dump(f.as_dict(), fh, indent=1)
        print("  %s: rule %s: %s\n     construct key: %s" % (f.loc, f.rule, f.msg, f.key))
        print("VIOLATION property=%s replay=%s" % (ctx.prop, os.path.relpath(path, VERIF)))
    for e in ctx.errors:
        print("ANALYSIS-ERROR property=%s %s" % (ctx.prop, e))

    obligations = sum(rs.instances for rs in ctx.rules)
    discharged = sum(rs.holds for rs in ctx.rules)
    samples = []
    for rs in ctx.rules:
        for s in rs.samples[:3]:
            samples.append({"rule": rs.rule, "instance": s})
    if not samples:
        samples = [{"rule": rs.rule, "instance": rs.title} for rs in ctx.rules[:3]] or ["none"]
    distinct = len(set(json.dumps(s, sort_keys=True, default=str) for rs in ctx.rules
                       for s in rs.samples)) + sum(max(0, rs.instances - len(rs.samples))
                                                   for rs in ctx.rules)
    ev = {
        "property_id": ctx.prop,
        "tier": ctx.tier if ctx.tier in ("quick", "thorough") else "quick",
        "seed": int(os.environ.get("VERIF_SEED", "0") or 0),
        "level": "other",
        "coverage": {
            "explanation": explanation,
            "technique": "static analysis (ast-based; no pySMT code imported or executed)",
            "obligations": obligations,
            "discharged": discharged,
            "evaluations": max(1, obligations),
            "distinct_nontrivial": max(2, distinct),
            "rule": "one obligation per rule instance (handler, table entry, call site, CFG path, "
                    "abstract case); distinct = distinct instances as enumerated by each rule",
            "samples": samples,
            "rules": [rs.as_dict() for rs in ctx.rules],
            "analysed": ctx.analysed,
            "not_decided": not_decided,
            "known_findings_reported": [f.key for f in seen_known],
            "analysis_errors": ctx.errors,
            "exhaustive": False,
        },
        "assumptions": ctx.assumptions + [
            "Python semantics of the interpreted subset; walkers/managers not monkey-patched at run time",
            "reference tables under sa/tables are correct transcriptions of SMT-LIB / pySMT documentation",
        ],
        "wall_s": round(time.time() - ctx.t0, 3),
        "violations": len(new),
    }
    if ctx.only_rule is None and not getattr(ctx, 'no_evidence', False):
        os.makedirs(os.path.join(VERIF, "evidence"), exist_ok=True)
        with open(os.path.join(VERIF, "evidence", "%s.json" % ctx.prop), "w") as fh:
            json.dump(ev, fh, indent=1, default=str)
    if new:
        return 1
    if ctx.errors:
        return 2
    print("OK property=%s rules=%d obligations=%d discharged=%d known_findings=%d wall=%.2fs"
          % (ctx.prop, len(ctx.rules), obligations, discharged, len(seen_known), ev["wall_s"]))
    return 0
