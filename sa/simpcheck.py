"""Extraction and validation of the rewrite rules / constant folds of a rewriting walker.

For an operator and a configuration of operand classes (opaque symbol, symbolic constant, the same
operand twice, a negated symbol, a nested application ...) the handler is interpreted from source on
abstract operands; every path yields (path condition over the symbolic constants, result term).  The
extracted rule `condition => op(operands) = result` is then decided against the independent
reference semantics (refsem) by exhaustive evaluation over small domains: all bit-vector values at
widths 1..4, small Int / Real domains, all Boolean valuations.  What is evaluated is the *extracted
rule*, never pySMT code.
"""
import itertools
from fractions import Fraction

from .absint import (Interp, Explorer, AObj, Func, SymInt, SymBool, Unsupported, AbsRaise, Abs,
                     eval_term, term_of, term_vars, term_str)
from .world import World, FNODE
from .loader import get_repo
from .opsets import get_ops
from .handlers import get_tables
from . import refsem, ctors


class Malformed(Exception):
    """The result term is not a well-formed value (e.g. BV constant out of range)."""


# ------------------------------------------------------------------------------------ evaluation
def ev(x, asg):
    if isinstance(x, (SymInt, SymBool)):
        return eval_term(x.t, asg)
    return x


def nodeval(w, n, asg):
    op = w.opname(n)
    args = w.nargs(n)
    p = w.npayload(n)
    if op == "SYMBOL":
        return asg["sym:" + p[0]]
    if op == "BOOL_CONSTANT":
        return bool(ev(p, asg))
    if op == "INT_CONSTANT":
        v = ev(p, asg)
        if isinstance(v, Fraction) and v.denominator == 1:
            v = int(v)
        if not isinstance(v, int) or isinstance(v, bool):
            raise Malformed("Int constant with value %r" % (v,))
        return v
    if op == "REAL_CONSTANT":
        v = ev(p, asg)
        if isinstance(v, float):
            raise Malformed("Real constant with float payload")
        return Fraction(v)
    if op == "STR_CONSTANT":
        if not isinstance(p, str):
            raise refsem.NoSemantics("symbolic string")
        return p
    if op == "BV_CONSTANT":
        v, wd = ev(p[0], asg), ev(p[1], asg)
        if not (isinstance(v, int) and 0 <= v < (1 << wd)):
            raise Malformed("BV constant %r does not fit %r bits" % (v, wd))
        return v
    if op == "ARRAY_VALUE":
        vals_ = [nodeval(w, a, asg) for a in args]
        idx_sort = sort_conc(w.sort_of_tyobj(p), asg)
        return refsem.ArrVal(vals_[0], dict(zip(vals_[1::2], vals_[2::2])), idx_sort)
    if op in ("FORALL", "EXISTS"):
        names = []
        doms = []
        for v in p:
            vs = sort_conc(w.sort_of_tyobj(w.npayload(v)[1]), asg)
            if vs[0] not in ("BOOL", "BV") or (vs[0] == "BV" and vs[1] > 2):
                raise refsem.NoSemantics("quantifier over %s" % (vs,))
            names.append("sym:" + w.npayload(v)[0])
            doms.append(refsem.domain(vs))
        results = []
        for combo in itertools.product(*doms):
            a2 = dict(asg)
            a2.update(zip(names, combo))
            results.append(bool(nodeval(w, args[0], a2)))
        return all(results) if op == "FORALL" else any(results)
    if op == "FUNCTION":
        table = asg.get("fun:" + w.npayload(p)[0])
        if table is None:
            raise refsem.NoSemantics("uninterpreted function without interpretation")
        key = tuple(nodeval(w, a, asg) for a in args)
        if key in table:
            return table[key]
        # arguments outside the enumerated domain: the interpretation is extended by a constant (still one
        # total function, the same on both sides of any comparison)
        return table[min(table)]
    vals = [nodeval(w, a, asg) for a in args]
    width = None
    payload = None
    argw = None
    if op.startswith("BV_") and op not in ("BV_ULT", "BV_ULE", "BV_SLT", "BV_SLE", "BV_TONATURAL"):
        width = ev(p[0], asg)
    if op in ("BV_SLT", "BV_SLE", "BV_ULT", "BV_ULE"):
        argw = ev(w.nsort(args[0])[1], asg)
    if op == "BV_EXTRACT":
        payload = (ev(p[1], asg), ev(p[2], asg))
    elif op in ("BV_ROL", "BV_ROR"):
        payload = (ev(p[1], asg),)
    elif op == "BV_ZEXT":
        payload = (ev(p[1], asg),)
    elif op == "BV_SEXT":
        payload = (ev(w.nsort(args[0])[1], asg),)
    elif op == "BV_CONCAT":
        payload = (ev(w.nsort(args[1])[1], asg),)
    return refsem.apply(op, vals, w=width, payload=payload, argw=argw)


def sort_conc(sort, asg):
    if sort[0] == "BV":
        return ("BV", ev(sort[1], asg))
    if sort[0] == "ARRAY":
        return ("ARRAY", sort_conc(sort[1], asg), sort_conc(sort[2], asg))
    return sort


def collect_symbols(w, nodes):
    """name -> sort of every symbol occurring (free or bound) and of every applied function"""
    out = {}
    stack = list(nodes)
    seen = set()
    while stack:
        n = stack.pop()
        if id(n) in seen:
            continue
        seen.add(id(n))
        op = w.opname(n)
        if op == "SYMBOL":
            out[w.npayload(n)[0]] = w.sort_of_tyobj(w.npayload(n)[1])
        elif op == "FUNCTION":
            f = w.npayload(n)
            out[w.npayload(f)[0]] = w.sort_of_tyobj(w.npayload(f)[1])
        elif op in ("FORALL", "EXISTS"):
            stack.extend(w.npayload(n))
        stack.extend(w.nargs(n))
    return out


def collect_vars(w, nodes, facts):
    vs = set()
    for f in facts:
        term_vars(f, vs)
    stack = list(nodes)
    seen = set()

    def pv(p):
        if isinstance(p, (SymInt, SymBool)):
            term_vars(p.t, vs)
        elif isinstance(p, (tuple, list)):
            for x in p:
                pv(x)
        elif isinstance(p, AObj) and p.cls.endswith("_BVType"):
            pv(p.attrs.get("_width"))
    while stack:
        n = stack.pop()
        if id(n) in seen:
            continue
        seen.add(id(n))
        pv(w.npayload(n))
        stack.extend(w.nargs(n))
    return vs


def assignments(w, nodes, facts, max_w=4, budget=60000):
    """All assignments of the symbolic variables and symbols occurring in nodes/facts over the small
    domains; yields dicts.  Width variables range over 1..max_w."""
    vset = collect_vars(w, nodes, facts)
    for v in list(vset):
        wd = w.varwidth.get(v)
        if isinstance(wd, SymInt):
            term_vars(wd.t, vset)
    vs = sorted(vset)
    syms = collect_symbols(w, nodes)
    widths = [v for v in vs if w.kinds.get(v) == "width"]
    others = [v for v in vs if w.kinds.get(v) != "width"]
    nvars = len(others) + len(syms)
    wmax = max_w if nvars <= 2 else (3 if nvars <= 3 else 2)
    count = 0
    for wvals in itertools.product(range(1, wmax + 1), repeat=len(widths)):
        base = dict(zip(widths, wvals))
        doms = []
        names = []
        for v in others:
            kind = w.kinds.get(v, "int")
            if kind == "bv":
                wd = w.varwidth.get(v)
                wd = ev(wd, base) if wd is not None else (base[widths[0]] if widths else 2)
                dom = list(range(1 << wd))
            elif kind == "real":
                dom = [Fraction(-2), Fraction(-1, 2), Fraction(0), Fraction(1), Fraction(3, 2)]
            elif kind == "idx":
                wd = base[widths[0]] if widths else 2
                dom = list(range(0, wd + 2))
            else:
                dom = [-3, -1, 0, 1, 2, 7]
            names.append(v)
            doms.append(dom)
        for s, sort in sorted(syms.items()):
            sc_ = sort_conc(sort, base)
            if sc_[0] == "FUN":
                try:
                    pd = [refsem.domain(sort_conc(x, base), small=True) for x in sc_[2]]
                    rd = refsem.domain(sort_conc(sc_[1], base), small=True)
                except refsem.NoSemantics:
                    return
                keys = list(itertools.product(*pd))
                if len(rd) ** len(keys) > 300:
                    rd = rd[:2]
                    if len(rd) ** len(keys) > 300:
                        return
                names.append("fun:" + s)
                doms.append([dict(zip(keys, vals)) for vals in itertools.product(rd, repeat=len(keys))])
                continue
            names.append("sym:" + s)
            try:
                doms.append(refsem.domain(sc_, small=nvars > 3))
            except refsem.NoSemantics:
                return
        for combo in itertools.product(*doms):
            count += 1
            if count > budget:
                return
            asg = dict(base)
            asg.update(zip(names, combo))
            yield asg


def facts_hold(facts, asg):
    for f in facts:
        try:
            if not eval_term(f, asg):
                return False
        except (ZeroDivisionError, ValueError, OverflowError, TypeError):
            return False
    return True


# ------------------------------------------------------------------------------------ operand specs
def build(w, spec, built):
    """spec: ('sym', name, sort) | ('const', var, sort) | ('same', i) | ('lit', value, sort) |
    ('app', ctor, [specs...]) ; sort may contain 'W' as symbolic width."""
    k = spec[0]
    if k == "same":
        return built[spec[1]]
    if k == "sym":
        return w.symbol(spec[1], _sort(w, spec[2]))
    if k == "const":
        s = _sort(w, spec[2])
        if s[0] == "BV":
            return w.bv_const(w.var(spec[1], "bv"), s[1])
        if s[0] == "INT":
            return w.int_const(w.var(spec[1], "int"))
        if s[0] == "REAL":
            return w.real_const(w.var(spec[1], "real"))
        raise Unsupported("const of %s" % (s,))
    if k == "lit":
        s = _sort(w, spec[2])
        if s[0] == "BOOL":
            return w.bool_const(spec[1])
        if s[0] == "INT":
            return w.int_const(spec[1])
        if s[0] == "REAL":
            return w.real_const(Fraction(spec[1]))
        if s[0] == "BV":
            return w.bv_const(spec[1], s[1])
        if s[0] == "STRING":
            return w.str_const(spec[1])
    if k == "app":
        return w.app(spec[1], *[build(w, s, built) for s in spec[2]])
    raise Unsupported("operand spec %r" % (spec,))


def _sort(w, s):
    if s[0] == "BV" and s[1] == "W":
        return ("BV", w.var("W", "width"))
    if s[0] == "BV" and isinstance(s[1], str):
        return ("BV", w.var(s[1], "width"))
    return s


def spec_str(spec):
    k = spec[0]
    if k == "same":
        return "<same as #%d>" % spec[1]
    if k == "sym":
        return spec[1]
    if k == "const":
        return "const:" + spec[1]
    if k == "lit":
        return repr(spec[1])
    if k == "app":
        return "%s(%s)" % (spec[1], ", ".join(spec_str(s) for s in spec[2]))
    return str(spec)


_CTOR_OF = {}


def ctor_of(opname):
    """FormulaManager constructor that builds operator `opname` from its parameters in order."""
    repo = get_repo()
    ci = repo.cls(ctors.FM)
    if _CTOR_OF:
        if opname in _CTOR_OF:
            return _CTOR_OF[opname]
        return _ctor_guess(ci, opname)
    cands = {}
    for nm in ci.order:
        if nm.startswith("_") or ci.own_func(nm) is None:
            continue
        for opn, order in ctors.builds(nm):
            if order is not None and list(order) == list(range(len(order))) or (order is None and ctors.summary(nm).nodes
                                                                                and len(ctors.summary(nm).ops()) == 1):
                cands.setdefault(opn, []).append(nm)
    for opn, names in cands.items():
        key = opn.replace("_", "").lower()
        exact = [n for n in names if n.lower() == key]
        pref = exact or [n for n in names if key.endswith(n.lower()) or n.lower().endswith(key)] or names
        _CTOR_OF[opn] = sorted(pref, key=len)[0]
    _CTOR_OF.update({"ARRAY_SELECT": "Select", "ARRAY_STORE": "Store", "STR_LENGTH": "StrLength",
                     "BV_TONATURAL": "BVToNatural", "INT_TO_STR": "IntToStr", "STR_TO_INT": "StrToInt"})
    return _CTOR_OF.get(opname) or _ctor_guess(ci, opname)


def _ctor_guess(ci, opname):
    if True:
        # naming convention of the FormulaManager API (BV_AND -> BVAnd); analyse() verifies that the
        # interpreted constructor really builds `opname`, so a wrong guess is reported as unsupported
        special = {"BV_ULT": "BVULT", "BV_ULE": "BVULE", "BV_SLT": "BVSLT", "BV_SLE": "BVSLE", "BV_UDIV": "BVUDiv",
                   "BV_UREM": "BVURem", "BV_SDIV": "BVSDiv", "BV_SREM": "BVSRem", "BV_LSHL": "BVLShl",
                   "BV_LSHR": "BVLShr", "BV_ASHR": "BVAShr", "BV_ROL": "BVRol", "BV_ROR": "BVRor", "BV_ZEXT": "BVZExt",
                   "BV_SEXT": "BVSExt", "LE": "LE", "LT": "LT", "ITE": "Ite", "IFF": "Iff", "TOREAL": "ToReal",
                   "STR_CONCAT": "StrConcat", "STR_CONTAINS": "StrContains", "STR_INDEXOF": "StrIndexOf",
                   "STR_REPLACE": "StrReplace", "STR_SUBSTR": "StrSubstr", "STR_PREFIXOF": "StrPrefixOf",
                   "STR_SUFFIXOF": "StrSuffixOf", "STR_CHARAT": "StrCharAt", "EQUALS": "Equals", "DIV": "Div"}
        guess = special.get(opname) or "".join("BV" if p == "BV" else p.title() for p in opname.split("_"))
        if ci.own_func(guess) is not None:
            _CTOR_OF[opname] = guess
    return _CTOR_OF.get(opname)


class RuleVerdict(object):
    def __init__(self, kind, config, facts, detail, result=None):
        self.kind = kind          # 'valid' | 'invalid' | 'vacuous' | 'raises' | 'unsupported' | 'nosem' | 'sort'
        self.config = config
        self.facts = facts
        self.detail = detail
        self.result = result

    def cond_str(self):
        return " and ".join(term_str(f) for f in self.facts) or "true"


def node_str(w, n, depth=0):
    op = w.opname(n)
    p = w.npayload(n)
    if op == "SYMBOL":
        return p[0]
    if op == "BOOL_CONSTANT":
        return "TRUE" if p is True else ("FALSE" if p is False else "Bool(%s)" % (term_str(p.t) if isinstance(p, Abs) else p))
    if op in ("INT_CONSTANT", "REAL_CONSTANT"):
        return "%s(%s)" % (op[:-9].title(), term_str(p.t) if isinstance(p, (SymInt, SymBool)) else p)
    if op == "BV_CONSTANT":
        return "BV(%s, %s)" % tuple(term_str(x.t) if isinstance(x, SymInt) else x for x in p)
    if op == "STR_CONSTANT":
        return repr(p)
    if depth > 4:
        return op + "(...)"
    return "%s(%s)" % (op, ", ".join(node_str(w, a, depth + 1) for a in w.nargs(n)))


def analyse(walker_qual, opname, specs, handler=None, ctor=None, max_paths=300, extra_self=None,
            payload_kwargs=None):
    """Interpret the handler of `opname` in walker `walker_qual` on operands built from `specs`.
    Returns list of RuleVerdict."""
    repo, ops, ht = get_repo(), get_ops(), get_tables()
    h = handler or ht.table(walker_qual)[ops.id(opname)]
    ctor = ctor or ctor_of(opname)
    config = "%s(%s%s)" % (opname, ", ".join(spec_str(s) for s in specs),
                           "".join(", %s=%s" % kv for kv in sorted((payload_kwargs or {}).items())))
    if ctor is None:
        return [RuleVerdict("unsupported", config, [], "no constructor for %s" % opname)]

    def one(ex):
        it = Interp(ex)
        w = World().attach(it)
        self_obj = AObj(walker_qual, {"env": w.env, "manager": w.mgr, "mgr": w.mgr, "memoization": {}})
        if extra_self:
            self_obj.attrs.update(extra_self(w))
        built = []
        for s in specs:
            built.append(build(w, s, built))
        formula = w.app(ctor, *built, **(payload_kwargs or {}))
        if not w.is_node(formula) or w.opname(formula) != opname:
            raise Unsupported("constructor %s did not build %s for this configuration" % (ctor, opname))
        fn = Func(h.func, repo.classes[h.cls].module, h.cls, bound=self_obj)
        res = it.call_func(fn, [formula, list(w.nargs(formula))], {})
        return (w, formula, res)
    ex = Explorer(max_paths=max_paths)
    try:
        paths = ex.run(one)
    except Unsupported as e:
        return [RuleVerdict("unsupported", config, [], str(e))]
    out = []
    for p in paths:
        facts = p.facts()
        if p.kind == "unsupported":
            out.append(RuleVerdict("unsupported", config, facts, p.value))
            continue
        if p.kind == "raise":
            out.append(RuleVerdict("raises", config, facts, p.value))
            continue
        w, formula, res = p.value
        if not w.is_node(res):
            out.append(RuleVerdict("unsupported", config, facts, "handler returned %r" % (res,)))
            continue
        out.append(validate(w, formula, res, facts, config))
    # raising paths: feasible?
    final = []
    for v in out:
        if v.kind == "raises":
            final.append(_raise_feasibility(v, paths, specs))
        else:
            final.append(v)
    return final


def _raise_feasibility(v, paths, specs):
    # feasibility of a raising path needs the variable kinds of that run; facts over the standard
    # variable names are evaluated with a throw-away world carrying the kinds
    w = World()
    for f in v.facts:
        for name in term_vars(f):
            w.kinds.setdefault(name, "width" if name.startswith("W") else ("bv" if name.startswith("c") else "int"))
    k2, vw = _kinds_of_specs(specs)
    w.kinds.update(k2)
    w.varwidth.update(vw)
    n = 0
    for asg in _fact_assignments(w, v.facts):
        n += 1
        if facts_hold(v.facts, asg):
            return RuleVerdict("raises", v.config, v.facts, "%s for e.g. %s" % (v.detail.cls_name, _show(asg)))
    return RuleVerdict("vacuous", v.config, v.facts, "infeasible raising path")


def _kinds_of_specs(specs):
    out = {}
    vw = {}

    def rec(s):
        if s[0] == "const":
            out[s[1]] = {"BV": "bv", "INT": "int", "REAL": "real"}[s[2][0]]
            if s[2][0] == "BV":
                vw[s[1]] = SymInt(("var", s[2][1])) if isinstance(s[2][1], str) else s[2][1]
        if s[0] == "app":
            for x in s[2]:
                rec(x)
        if s[0] in ("sym", "const", "lit") and s[2][0] == "BV" and isinstance(s[2][1], str):
            out[s[2][1]] = "width"
    for s in specs:
        rec(s)
    return out, vw


def _fact_assignments(w, facts):
    vs = set()
    for f in facts:
        term_vars(f, vs)
    for v in list(vs):
        wd = w.varwidth.get(v)
        if isinstance(wd, SymInt):
            term_vars(wd.t, vs)
    for v in vs:
        if v not in w.kinds and any(isinstance(x, SymInt) and v in term_vars(x.t) for x in w.varwidth.values()):
            w.kinds[v] = "width"
    vs = sorted(vs)
    widths = [v for v in vs if w.kinds.get(v) == "width"]
    others = [v for v in vs if v not in widths]
    for wv in itertools.product(range(1, 5), repeat=len(widths)):
        base = dict(zip(widths, wv))
        doms = []
        for v in others:
            k = w.kinds.get(v, "int")
            if k == "bv":
                wd = w.varwidth.get(v)
                wd = ev(wd, base) if wd is not None else (base[widths[0]] if widths else 2)
                doms.append(list(range(1 << wd)))
            elif k == "real":
                doms.append([Fraction(-2), Fraction(-1, 2), Fraction(0), Fraction(1), Fraction(3, 2)])
            else:
                doms.append([-3, -1, 0, 1, 2, 7])
        for combo in itertools.product(*doms):
            asg = dict(base)
            asg.update(zip(others, combo))
            yield asg


def _show(asg):
    return ", ".join("%s=%s" % (k.replace("sym:", ""), v) for k, v in sorted(asg.items()))


def validate(w, formula, res, facts, config):
    """Decide `facts => formula == res` over the small domains."""
    try:
        so, sr = w.nsort(formula), w.nsort(res)
    except Unsupported as e:
        return RuleVerdict("unsupported", config, facts, str(e))
    n_ok = 0
    rs = node_str(w, res)
    for asg in assignments(w, [formula, res], facts):
        if not facts_hold(facts, asg):
            continue
        try:
            a = nodeval(w, formula, asg)
        except refsem.Undefined:
            continue
        except refsem.NoSemantics as e:
            return RuleVerdict("nosem", config, facts, "no reference semantics: %s" % e, rs)
        except Malformed:
            continue      # the (hypothetical) operand is not a value: not an obligation
        try:
            b = nodeval(w, res, asg)
        except refsem.Undefined:
            continue
        except refsem.NoSemantics as e:
            return RuleVerdict("nosem", config, facts, "no reference semantics: %s" % e, rs)
        except Malformed as e:
            return RuleVerdict("invalid", config, facts, "result is not a well-formed value (%s) for %s" % (e, _show(asg)), rs)
        except (ZeroDivisionError, ValueError, OverflowError) as e:
            return RuleVerdict("invalid", config, facts, "result cannot be evaluated (%s) for %s" % (e, _show(asg)), rs)
        if sort_conc(so, asg) != sort_conc(sr, asg):
            return RuleVerdict("sort", config, facts, "result has sort %s, the formula has sort %s (for %s)"
                               % (sort_conc(sr, asg), sort_conc(so, asg), _show(asg)), rs)
        if a != b or type(a) is bool and type(b) is not bool:
            return RuleVerdict("invalid", config, facts,
                               "for %s the formula denotes %r but the simplified term %s denotes %r"
                               % (_show(asg), a, rs, b), rs)
        n_ok += 1
    if n_ok == 0:
        return RuleVerdict("vacuous", config, facts, "no assignment satisfies the path condition", rs)
    return RuleVerdict("valid", config, facts, "%d assignments" % n_ok, rs)
