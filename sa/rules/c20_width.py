"""C20 rule R5: the cost of the services grows linearly with the width of a node and does not depend on how many
unrelated symbols the environment holds.

Cost = interpreted steps + sizes of the containers handed to linear-time primitives (membership in a list / tuple,
copies, concatenations, slices, sorting; see Interp.cost).  Each service is interpreted
  (a) on one n-ary node over k distinct operands, k = 16, 32, 128, 256 (and on a node of nodes: 4 x k/4): the marginal
      cost per operand, m1 = (cost(32) - cost(16)) / 16 and m2 = (cost(256) - cost(128)) / 128, is the same when cost(k)
      is linear; a quadratic term a k^2 adds 48 a to m1 and 384 a to m2.  The rule demands m2 <= 1.3 m1 + 2 (on the
      pinned tree m2 / m1 lies between 0.98 and 1.01);
  (b) on a fixed small formula in an environment that holds 0, 40 and 80 symbols the formula does not mention: the
      cost is the same (a per-call cost proportional to the size of the environment is what makes a script of n
      assertions quadratic)."""
from ..absint import AbsRaise, Unsupported, ExtRef
from ..common import get_repo, parallel_map
from .. import proc
from ..proc import Shape, S, BOOL, INT

WIDTHS = (16, 32, 128, 256)
ENVS = (0, 40, 80)


def _wide(kind, k):
    if kind == "and-literals":
        return ("And",) + tuple(S("p%d" % i) if i % 2 else ("Not", S("p%d" % i)) for i in range(k))
    if kind == "or-atoms":
        return ("Or",) + tuple(("LT", S("x%d" % i, INT), S("x%d" % (i + 1), INT)) for i in range(k))
    if kind == "and-of-ands":
        q = max(k // 4, 1)
        return ("And",) + tuple(("And",) + tuple(S("p%d_%d" % (j, i)) for i in range(q)) for j in range(4))
    if kind == "plus-symbols":
        return ("LE", ("Plus",) + tuple(S("x%d" % i, INT) for i in range(k)), ("lit", 0, INT))
    if kind == "times-sum":
        return ("LE", ("Times", ("lit", 2, INT), ("Plus",) + tuple(S("x%d" % i, INT) for i in range(k))), ("lit", 0, INT))
    raise KeyError(kind)


KINDS = ["and-literals", "or-atoms", "and-of-ands", "plus-symbols", "times-sum"]


def services():
    def meth(name, *extra):
        return lambda w, it, f: it.call(it.getattr(f, name), list(extra))

    def modfn(mod, name, **kw):
        return lambda w, it, f: it.call(it.module_global(w.repo.modules[mod], name), [f], dict(kw))

    def script(dag):
        def run(w, it, f):
            mk = it.module_global(w.repo.modules["pysmt.smtlib.script"], "smtlibscript_from_formula")
            sio = it.call(ExtRef("io.StringIO"), [])
            it.call(it.getattr(it.call(mk, [f]), "serialize"), [sio], {"daggify": dag})
            return it.call(it.getattr(sio, "getvalue"), [])
        return run
    sub = lambda w, it, f: it.call(it.getattr(f, "substitute"), [{w.symbol("p1", BOOL): w.symbol("p2", BOOL),
                                                                  w.symbol("x1", INT): w.symbol("x2", INT)}])
    return {
        "simplify": meth("simplify"), "substitute": sub, "get_type": meth("get_type"), "free variables": meth("get_free_variables"),
        "atoms": meth("get_atoms"), "size": meth("size"), "serialize": meth("serialize"),
        "to_smtlib (let-DAG)": modfn("pysmt.smtlib.printers", "to_smtlib", daggify=True),
        "to_smtlib (tree)": modfn("pysmt.smtlib.printers", "to_smtlib", daggify=False),
        "smt-lib script (let-DAG)": script(True), "get_logic": modfn("pysmt.oracles", "get_logic"),
        "nnf": modfn("pysmt.rewritings", "nnf"), "cnf": modfn("pysmt.rewritings", "cnf"), "aig": modfn("pysmt.rewritings", "aig"),
    }


BOOL_ONLY = {"nnf", "cnf", "aig", "atoms"}


def _rename(t):
    if isinstance(t, tuple) and t and t[0] == "sym":
        return ("sym", "w_" + t[1]) + t[2:]
    if isinstance(t, tuple):
        return tuple(_rename(x) for x in t)
    if isinstance(t, list):
        return [(("w_" + n), s_) for n, s_ in t]
    return t


def _measure(shape_t, svc, n_env, warm_t):
    fn = services()[svc]

    def call(w, it, f_):
        for i in range(n_env):
            w.symbol("state_%d" % i, BOOL if i % 2 else INT)
        # one-time work (lazy module initialisation, creation of the environment's services) is paid on a warm-up formula
        warm = proc.build_shape(w, _rename(warm_t))
        try:
            fn(w, it, warm)
        except AbsRaise:
            pass
        f = proc.build_shape(w, shape_t)
        c0 = it.cost()
        fn(w, it, f)
        return it.cost() - c0
    r = proc.run_proc(Shape(("lit", True, BOOL)), call, post=lambda w, f, v, facts: proc.ProcResult(None, "valid", v),
                      services="full", max_paths=4, interp_kwargs={"max_steps": 20000000, "max_loop": 200000})
    ok = [x for x in r if x.kind == "valid"]
    if len(r) != 1 or not ok:
        return None, "%s %s" % (r[0].kind, str(r[0].detail)[:160])
    return ok[0].detail, None


def _width_job(job):
    kind, svc = job[:2]
    widths = job[2] if len(job) > 2 else WIDTHS
    costs = []
    for k in widths:
        c, why = _measure(_wide(kind, k), svc, 0, _wide(kind, 4))
        if c is None:
            return ("width", kind, svc, "unsupported", why)
        costs.append(c)
    # marginal cost per operand between 16 and 32, and between 128 and 256 operands
    m1, m2 = (costs[1] - costs[0]) / float(widths[1] - widths[0]), (costs[3] - costs[2]) / float(widths[3] - widths[2])
    if m2 > 1.3 * m1 + 2:
        return ("width", kind, svc, "bad", costs)
    return ("width", kind, svc, "ok", costs)


def _env_job(svc, envs=None):
    if isinstance(svc, tuple):
        svc, envs = svc
    envs = envs or ENVS
    t = ("And", ("Or", S("a"), ("LT", S("x", INT), S("y", INT))), ("forall", [("b", BOOL)], ("Or", S("b"), S("a"))))
    if svc == "cnf":
        t = ("And", ("Or", S("a"), ("LT", S("x", INT), S("y", INT))), ("Iff", S("b"), ("Or", S("b"), S("a"))))
    costs = []
    for n in envs:
        c, why = _measure(t, svc, n, t)
        if c is None:
            return ("env", "", svc, "unsupported", why)
        costs.append(c)
    if costs[2] > costs[0] + 20 or costs[1] > costs[0] + 20:
        return ("env", "", svc, "bad", costs)
    return ("env", "", svc, "ok", costs)


def _chain(n):
    """a quantifier below n Boolean connectives: t_0 = forall y. 0 < y, t_k = t_(k-1) | b_k  /  t_(k-1) & a_k"""
    t = ("forall", [("y", INT)], ("LT", ("lit", 0, INT), S("y", INT)))
    for k in range(1, n + 1):
        t = ("Or", t, S("b%d" % k)) if k % 2 else ("And", t, S("a%d" % k))
    return t


def _shared_and(n):
    """c_k = (c_(k-1) & a_k) & (c_(k-1) & b_k): 5k+1 nodes, 2^k paths"""
    t = ("Equals", S("x", INT), ("lit", 5, INT))
    for k in range(1, n + 1):
        t = ("And", ("And", t, S("a%d" % k)), ("And", t, S("b%d" % k)))
    return t


# (services that hand back a set per node - free variables, atoms - copy a set that grows with the depth at every level: their cost
# on a chain over n distinct symbols is quadratic by construction, on the pinned tree too; they are judged on wide nodes only, R5)
CHAIN_SERVICES = ["prenex", "nnf", "simplify", "substitute", "size", "get_logic", "to_smtlib (let-DAG)"]
CHAIN_DEPTHS = (8, 16, 32, 64)


def _chain_services():
    sv = dict(services())

    def modfn(mod, name, **kw):
        return lambda w, it, f: it.call(it.module_global(w.repo.modules[mod], name), [f], dict(kw))
    sv["prenex"] = modfn("pysmt.rewritings", "prenex_normal_form")
    sv["conjunctive_partition"] = lambda w, it, f: list(it.iterate(it.call(it.module_global(w.repo.modules["pysmt.rewritings"], "conjunctive_partition"), [f])))
    sv["propagate_toplevel"] = modfn("pysmt.rewritings", "propagate_toplevel")
    return sv


def _measure2(shape_t, svc, warm_t):
    fn = _chain_services()[svc]

    def call(w, it, f_):
        warm = proc.build_shape(w, _rename(warm_t))
        try:
            fn(w, it, warm)
        except AbsRaise:
            pass
        f = proc.build_shape(w, shape_t)
        c0 = it.cost()
        fn(w, it, f)
        return it.cost() - c0
    r = proc.run_proc(Shape(("lit", True, BOOL)), call, post=lambda w, f, v, facts: proc.ProcResult(None, "valid", v),
                      services="full", max_paths=4, interp_kwargs={"max_steps": 30000000, "max_loop": 400000})
    ok = [x for x in r if x.kind == "valid"]
    if len(r) != 1 or not ok:
        return None, "%s %s" % (r[0].kind, str(r[0].detail)[:160])
    return ok[0].detail, None


def _chain_job(svc):
    costs = []
    for n in CHAIN_DEPTHS:
        c, why = _measure2(_chain(n), svc, _chain(3))
        if c is None:
            return ("chain", svc, "unsupported", why)
        costs.append(c)
    m1 = (costs[1] - costs[0]) / float(CHAIN_DEPTHS[1] - CHAIN_DEPTHS[0])
    m2 = (costs[3] - costs[2]) / float(CHAIN_DEPTHS[3] - CHAIN_DEPTHS[2])
    return ("chain", svc, "bad" if m2 > 1.3 * m1 + 2 else "ok", costs)


def _shared_job(svc):
    costs = []
    for n in (4, 8, 12):
        c, why = _measure2(_shared_and(n), svc, _shared_and(2))
        if c is None:
            return ("shared", svc, "unsupported", why)
        costs.append(c)
    # 5 more nodes per level: the cost at depth 12 stays below twice the cost at depth 8; path by path it is 16 times as large
    return ("shared", svc, "bad" if costs[2] > 2 * costs[1] + 300 else "ok", costs)


def run_chains(ctx):
    rs = ctx.rule("R8", "cost on a quantifier below a chain of n connectives (linear in n) and on conjunctions that share their operands "
                        "(follows the nodes, not the paths)")
    res = parallel_map(_chain_job, CHAIN_SERVICES) + parallel_map(_shared_job, ["conjunctive_partition", "propagate_toplevel", "simplify", "nnf"])
    for what, svc, verdict, data in res:
        if verdict == "unsupported":
            rs.unrec("%s %s: %s" % (what, svc, data))
        elif verdict == "ok":
            rs.ok({"service": svc, "family": what, "depths": list(CHAIN_DEPTHS) if what == "chain" else [4, 8, 12], "cost": data})
        elif what == "chain":
            ctx.finding(rs, "chain|%s" % svc, "%s on a quantifier below %s connectives costs %s: the cost per further connective grows "
                        "(%.0f between depth 8 and 16, %.0f between 32 and 64) - every level walks what lies below it again"
                        % (svc, list(CHAIN_DEPTHS), data, (data[1] - data[0]) / 8.0, (data[3] - data[2]) / 32.0), "pysmt/rewritings.py")
        else:
            ctx.finding(rs, "shared|%s" % svc, "%s on conjunctions sharing their operands (depth 4 / 8 / 12: 21 / 41 / 61 nodes) costs %s: "
                        "shared nodes are expanded once per path" % (svc, data), "pysmt/rewritings.py")
    ctx.floor(rs, 8)


def run(ctx):
    if ctx.want("R8"):
        run_chains(ctx)
    if not ctx.want("R5"):
        return
    rs = ctx.rule("R5", "cost of the services: linear in the width of a node, independent of unrelated symbols of the environment")
    sv = sorted(services())
    widths, envs = WIDTHS, ENVS
    if ctx.tier == "thorough":
        widths, envs = (16, 32, 512, 1024), (0, 100, 400)
    jobs = [(k, s, widths) for k in KINDS for s in sv]
    res = parallel_map(_width_job, jobs) + parallel_map(_env_job, [(s, envs) for s in sv])
    rs.notes.append("widths %s, environments with %s unrelated symbols" % (list(widths), list(envs)))
    for what, kind, svc, verdict, data in res:
        if verdict == "unsupported":
            rs.unrec("%s %s %s: %s" % (what, kind, svc, data))
        elif what == "width":
            if verdict == "ok":
                rs.ok({"service": svc, "node": kind, "widths": list(widths), "cost": data})
            else:
                ctx.finding(rs, "width|%s|%s" % (svc, kind), "%s on one %s node of %s operands costs %s: the cost per further operand grows "
                            "with the width (%.0f between 16 and 32 operands, %.0f between 128 and 256) - the operands of one node are handled "
                            "an unbounded number of times" % (svc, kind, list(WIDTHS), data, (data[1] - data[0]) / 16.0, (data[3] - data[2]) / 128.0), "pysmt/")
        else:
            if verdict == "ok":
                rs.ok({"service": svc, "unrelated_symbols": list(envs), "cost": data})
            else:
                ctx.finding(rs, "environment|%s" % svc, "%s on a 9-node formula costs %s in environments holding %s unrelated symbols: "
                            "every call pays for the whole environment" % (svc, data, list(envs)), "pysmt/")
    ctx.floor(rs, 40)
