"""C19 -- portfolio answer independent of the race; never blocks forever."""
import ast

from ..common import (get_repo, short, norm, CFG, normal_only, method_loc, calls_in, attr_tail,
                      is_self_attr, parents, names_in)

PF = "pysmt.solvers.portfolio.Portfolio"

EXPLANATION = (
    "Static analysis of pysmt/solvers/portfolio.py: the receive loop of Portfolio._solve has an "
    "exit that does not depend on a member answering (R1, structural: every cycle of the loop's "
    "CFG that skips an exception answer must pass a test on the number of members still able to "
    "answer / a timeout, leading to a raise); the verdict returned is the payload of the first "
    "non-exception message and losers are terminated (R3); members report an exception or a "
    "verdict, exactly one message per member (R4).  Everything quantified over schedules "
    "(near-ties, a loser finishing while the winner is selected) is outside static analysis.")
NOT_DECIDED = ["independence from completion order and gaps (schedules)",
               "agreement of member verdicts; model obtained afterwards satisfies the assertions",
               "single reader of the control connection under races (observation only)"]

LIVENESS_WORDS = ("is_alive", "timeout", "Empty", "exitcode", "len(processes)", "len(self.solvers)",
                  "pending", "remaining", "alive", "failed")


def run(ctx):
    repo = get_repo()
    ctx.analysed["modules"] = ["pysmt/solvers/portfolio.py"]
    cls, f = repo.method(PF, "_solve")

    if ctx.want("R1"):
        rs = ctx.rule("R1", "bounded wait: the receive loop can end when no member can still answer")
        loops = [n for n in ast.walk(f) if isinstance(n, ast.While)]
        recv_loops = [l for l in loops if any(attr_tail(c) in ("get", "recv", "get_nowait") for c in calls_in(l))]
        if not recv_loops:
            rs.unrec("no receive loop found in Portfolio._solve")
        for lp in recv_loops:
            infinite = isinstance(lp.test, ast.Constant) and bool(lp.test.value)
            gets = [c for c in calls_in(lp) if attr_tail(c) in ("get", "recv", "get_nowait")]
            blocking = any(not any(k.arg == "timeout" for k in c.keywords) and attr_tail(c) != "get_nowait" for c in gets)
            # exits that do not need a verdict message and do not depend on exit_on_exception
            par = parents(lp)
            exits = []
            for n in ast.walk(lp):
                if isinstance(n, (ast.Raise, ast.Break, ast.Return)):
                    guards = []
                    p = n
                    while p in par and p is not lp:
                        q = par[p]
                        if isinstance(q, ast.If):
                            guards.append(norm(q.test) if p in q.body else "not (%s)" % norm(q.test))
                        if isinstance(q, ast.ExceptHandler):
                            guards.append("except " + (norm(q.type) if q.type else ""))
                        p = q
                    exits.append((n, guards))
            independent = [e for e in exits if any(any(w in g for w in LIVENESS_WORDS) for g in e[1])]
            bounded_test = (not infinite) and any(w in norm(lp.test) for w in LIVENESS_WORDS)
            if independent or bounded_test:
                rs.ok({"loop": short(lp.test), "exit_without_answer": [short(e[0]) for e in independent] or norm(lp.test)})
            elif blocking or infinite:
                ctx.finding(rs, "%s._solve|unbounded-wait" % PF,
                            "the receive loop `while %s` blocks on %s and its only exits need a verdict message (or "
                            "exit_on_exception): if every member fails or dies without a verdict the call blocks "
                            "forever instead of reporting an error" % (norm(lp.test), short(gets[0])),
                            method_loc(repo, cls, lp))
            else:
                rs.unrec("receive loop shape not understood")
        ctx.floor(rs, 1)

    if ctx.want("R3"):
        rs = ctx.rule("R3", "verdict = payload of the first non-exception message; losers terminated")
        rets = [n for n in ast.walk(f) if isinstance(n, ast.Return) and n.value is not None]
        recv = [n for n in ast.walk(f) if isinstance(n, ast.Assign) and isinstance(n.value, ast.Call)
                and attr_tail(n.value) in ("get", "recv") and isinstance(n.targets[0], ast.Tuple)]
        if len(rets) == 1 and recv:
            who, payload = [norm(e) for e in recv[0].targets[0].elts]
            if norm(rets[0].value) == payload:
                rs.ok({"returns": payload, "received_as": norm(recv[0].targets[0])})
            else:
                ctx.finding(rs, "%s._solve|returns-other" % PF,
                            "_solve returns %s, the message payload is %s" % (norm(rets[0].value), payload),
                            method_loc(repo, cls, rets[0]))
            # the exception test is on the payload and skips it
            tests = [n for n in ast.walk(f) if isinstance(n, ast.If) and "isinstance(%s, BaseException)" % payload in norm(n.test)]
            if tests:
                t = tests[0]
                brk = [n for n in ast.walk(t) if isinstance(n, ast.Break)]
                in_else = brk and any(b in ast.walk(ast.Module(body=t.orelse, type_ignores=[])) for b in brk)
                if in_else:
                    rs.ok({"exception_answers": "skipped", "break": "only for non-exception payload"})
                else:
                    ctx.finding(rs, "%s._solve|exception-wins" % PF,
                                "an exception message can end the wait as if it were a verdict", method_loc(repo, cls, t))
            else:
                rs.unrec("exception test on payload not found")
            # losers terminated, winner kept
            loops = [n for n in ast.walk(f) if isinstance(n, ast.For) and norm(n.iter) == "processes"]
            fin = [l for l in loops if any(attr_tail(c) == "terminate" for c in calls_in(l)) and "_ext_solver" in norm(l)]
            if fin:
                t = [n for n in ast.walk(fin[0]) if isinstance(n, ast.If)]
                if t and norm(t[0].test) == "p.name == %s" % who and any("_ext_solver" in norm(s) for s in t[0].body) \
                        and any("terminate" in norm(s) for s in t[0].orelse):
                    rs.ok({"winner": "kept as _ext_solver", "losers": "terminated"})
                else:
                    ctx.finding(rs, "%s._solve|loser-handling" % PF,
                                "winner/loser handling does not keep exactly the sender of the verdict",
                                method_loc(repo, cls, fin[0]))
            else:
                rs.unrec("termination loop not found")
        else:
            rs.unrec("_solve return/receive not recognised")
        ctx.floor(rs, 3)

    if ctx.want("R4"):
        rs = ctx.rule("R4", "each member sends exactly one message: its verdict or its exception")
        m, g = repo.function("pysmt.solvers.portfolio._run_solver")
        puts = [c for c in calls_in(g) if attr_tail(c) == "put" and "signaling_queue" in norm(c.func)]
        cfg = CFG(g)
        pn = [n for n in cfg.nodes if n.ast is not None and n.kind == "stmt" and any(c in puts for c in calls_in(n.ast))]
        if len(pn) == 2:
            exc = [n for n in pn if isinstance(n.ast.value.args[0], ast.Tuple) and "ex" in names_in(n.ast.value.args[0])]
            ver = [n for n in pn if n not in exc]
            # after the exception message the member returns without a second message
            if exc and ver and ver[0].id not in cfg.reachable(exc[0].id, follow=normal_only):
                rs.ok({"on_exception": short(exc[0].ast), "then": "returns"})
            else:
                ctx.finding(rs, "pysmt.solvers.portfolio._run_solver|two-messages",
                            "a member that failed can also send a verdict message", repo.loc(m, g))
            if ver:
                tup = ver[0].ast.value.args[0]
                if isinstance(tup, ast.Tuple) and norm(tup.elts[1]) == "local_res" and norm(tup.elts[0]) == "idx":
                    rs.ok({"verdict_message": norm(tup)})
                else:
                    ctx.finding(rs, "pysmt.solvers.portfolio._run_solver|verdict-message",
                                "verdict message is %s; the parent identifies the winner by the process name idx"
                                % norm(tup), repo.loc(m, ver[0].ast))
        else:
            rs.unrec("expected two queue.put sites in _run_solver, found %d" % len(pn))
        ctx.floor(rs, 2)

    if ctx.want("R2"):
        rs = ctx.rule("R2", "the signalling channel read by the receive loop is created for this very solve")
        recv = [c for c in calls_in(f) if attr_tail(c) in ("get", "get_nowait") and isinstance(c.func, ast.Attribute)
                and "queue" in norm(c.func.value).lower()]
        if not recv:
            rs.unrec("no queue read found in _solve")
        for c in recv[:1]:
            r = c.func.value
            fresh = False
            if isinstance(r, ast.Name):
                for n in ast.walk(f):
                    tgt = n.targets[0] if isinstance(n, ast.Assign) else (n.target if isinstance(n, ast.AnnAssign) else None)
                    if tgt is not None and isinstance(tgt, ast.Name) and tgt.id == r.id and isinstance(n.value, ast.Call) \
                            and attr_tail(n.value) in ("Queue", "SimpleQueue", "JoinableQueue"):
                        fresh = True
            elif isinstance(r, ast.Attribute) and norm(r.value) == "self":
                for n in ast.walk(f):
                    if isinstance(n, ast.Assign) and norm(n.targets[0]) == norm(r) and isinstance(n.value, ast.Call) \
                            and attr_tail(n.value) in ("Queue", "SimpleQueue", "JoinableQueue"):
                        fresh = True
            if fresh:
                rs.ok({"channel": norm(r), "created_in": "_solve"})
            else:
                ctx.finding(rs, "%s._solve|channel-reused|%s" % (PF, norm(r)),
                            "the receive loop reads %s, which is not created inside _solve: a verdict posted late by a "
                            "loser of the previous solve is still queued and is taken as the answer of the next solve"
                            % norm(r), method_loc(repo, cls, c))
        ctx.floor(rs, 1)

    if ctx.want("R5"):
        rs = ctx.rule("R5", "reply reads of a text-interface member terminate when the solver process ends")
        ts = "pysmt.smtlib.solver.SmtLibSolver"
        ci = repo.cls(ts)
        n_reads = 0
        for nm in ci.order:
            g = ci.own_func(nm)
            if g is None:
                continue
            for lp in [n for n in ast.walk(g) if isinstance(n, ast.While)]:
                reads = [c for c in calls_in(lp) if attr_tail(c) in ("readline", "read")]
                if not reads:
                    continue
                n_reads += 1
                exits = [n for n in ast.walk(lp) if isinstance(n, (ast.Break, ast.Raise, ast.Return))]
                # the loop variable is a stripped line: '' both for a blank line and for end-of-file
                tv = names_in(lp.test)
                reassigned = [n for n in ast.walk(lp) if isinstance(n, ast.Assign) and isinstance(n.targets[0], ast.Name)
                              and n.targets[0].id in tv and any(attr_tail(c) in ("readline", "read") for c in calls_in(n))]
                if reassigned and not exits:
                    ctx.finding(rs, "%s.%s|read-loop-without-eof-exit" % (ts, nm),
                                "%s loops `while %s` re-reading a line from the solver: at end-of-file readline() keeps "
                                "returning '' so the loop never ends when the solver process has exited - the member "
                                "(and a portfolio waiting for it) blocks forever" % (nm, norm(lp.test)),
                                method_loc(repo, ts, lp))
                else:
                    rs.ok({"method": nm, "loop": norm(lp.test), "eof_exit": True})
        g = ci.own_func("_get_answer")
        if g is not None and not any(isinstance(n, ast.While) for n in ast.walk(g)):
            rs.ok({"_get_answer": "single readline per reply (EOF yields '' -> UnknownSolverAnswerError upstream)"})
        ctx.floor(rs, 1)

