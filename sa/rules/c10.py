"""C10 -- normal-form rewriters and Boolean quantifier elimination preserve equivalence."""
import ast

from ..common import (get_repo, get_ops, get_tables, short, norm, method_loc, calls_in, attr_tail,
                      parents, names_in, handler_funcs, dispatch_rule)

NNF = "pysmt.rewritings.NNFizer"
AIG = "pysmt.rewritings.AIGer"
PRENEX = "pysmt.rewritings.PrenexNormalizer"
SHANNON = "pysmt.solvers.qelim.ShannonQuantifierEliminator"
SELFSUB = "pysmt.solvers.qelim.SelfSubstitutionQuantifierEliminator"

EXPLANATION = (
    "Static analysis of pysmt/rewritings.py and pysmt/solvers/qelim.py: the Boolean constructs "
    "NNFizer expands in positive position, those it expands under a negation and the cases of "
    "walk_not are the same set (R1, contradiction rule); for each connective and polarity the "
    "rewriter interpreted on ~150 operator skeletons over opaque leaves returns a term that is "
    "equivalent by complete truth table (bound Boolean variables enumerated) and of the advertised "
    "shape - nnf, aig, prenex, both quantifier eliminations, both partitions, propagate_toplevel (R2); AIG handlers build "
    "only And/Not (R3); prenex building blocks (R4); partitioning descends only through And/Or (R5); "
    "Shannon expansion maps forall to And and exists to Or over all assignments of exactly the bound "
    "variables, self-substitution uses FALSE for forall and TRUE for exists (R6).")
NOT_DECIDED = ["TimesDistributor; propagate_toplevel beyond the skeletons of R2 (Int values in a small domain)",
               "alpha-renaming correctness of prenex beyond the reserved-set discipline"]

BOOL_CONSTRUCTS = ["and", "or", "implies", "iff", "ite", "quantifier", "forall", "exists", "not"]


def _preds(test, recv):
    """is_X predicates called on receiver name `recv` inside a test expression"""
    out = []
    for c in calls_in(test):
        if isinstance(c.func, ast.Attribute) and c.func.attr.startswith("is_") and norm(c.func.value) == recv:
            out.append(c.func.attr[3:])
    return out


def _chain(iff):
    """flatten if/elif chain: list of (test, body) and final else body"""
    out = []
    cur = iff
    while True:
        out.append((cur.test, cur.body))
        if len(cur.orelse) == 1 and isinstance(cur.orelse[0], ast.If):
            cur = cur.orelse[0]
        else:
            return out, cur.orelse


def run(ctx):
    repo = get_repo()
    ctx.analysed["modules"] = ["pysmt/rewritings.py", "pysmt/solvers/qelim.py"]

    if ctx.want("R1"):
        rs = ctx.rule("R1", "NNF: constructs expanded positively, under negation, and in walk_not agree")
        cls, gc = repo.method(NNF, "_get_children")
        cls2, wn = repo.method(NNF, "walk_not")
        top = [s for s in gc.body if isinstance(s, ast.If)]
        if not top:
            ctx.error("R1", "NNFizer._get_children has no top-level case analysis")
        else:
            chain, _ = _chain(top[0])
            pos, neg = set(), set()
            neg_var = None
            for test, body in chain:
                p = _preds(test, "formula")
                if p == ["not"]:
                    # inner chain on the negated sub-formula
                    for s in body:
                        if isinstance(s, ast.Assign) and norm(s.value) == "formula.arg(0)":
                            neg_var = s.targets[0].id
                    inner = [s for s in body if isinstance(s, ast.If)]
                    if inner and neg_var:
                        ch2, _ = _chain(inner[0])
                        for t2, _b in ch2:
                            neg |= set(_preds(t2, neg_var))
                else:
                    pos |= set(p)
            wnv = None
            for s in wn.body:
                if isinstance(s, ast.Assign) and norm(s.value) == "formula.arg(0)":
                    wnv = s.targets[0].id
            wcases = set()
            for n in ast.walk(wn):
                if isinstance(n, ast.If) and wnv:
                    wcases |= set(_preds(n.test, wnv))

            def canon(s):
                s = set(s)
                if "forall" in s or "exists" in s:
                    s -= {"forall", "exists"}
                    s.add("quantifier")
                return s & set(BOOL_CONSTRUCTS)
            P, N, W = canon(pos), canon(neg), canon(wcases)
            ctx.analysed["nnf_positive"] = sorted(P)
            ctx.analysed["nnf_negated"] = sorted(N)
            ctx.analysed["nnf_walk_not"] = sorted(W)
            if not P or not N:
                rs.unrec("case analysis of _get_children not recognised (pos=%s neg=%s)" % (sorted(P), sorted(N)))
            else:
                for c in sorted(P | (N - {"not"})):
                    inP, inN, inW = c in P, c in N, c in W
                    if inP and inN and inW:
                        rs.ok({"construct": c, "positive": True, "negated": True, "walk_not": True})
                    elif inP and not inN:
                        ctx.finding(rs, "%s._get_children|not-expanded-under-negation|%s" % (NNF, c),
                                    "Boolean %s is expanded in positive position but not under a negation: "
                                    "Not(%s(...)) keeps the negation on a non-atom, the result is not in NNF"
                                    % (c, c.capitalize()), method_loc(repo, cls, gc))
                    elif inN and not inW:
                        ctx.finding(rs, "%s.walk_not|case-missing|%s" % (NNF, c),
                                    "_get_children pre-negates the children of a negated %s but walk_not has no case "
                                    "rebuilding it" % c, method_loc(repo, cls2, wn))
                    elif inN and not inP:
                        ctx.finding(rs, "%s._get_children|not-expanded-positively|%s" % (NNF, c),
                                    "%s is expanded under negation but not in positive position" % c,
                                    method_loc(repo, cls, gc))
        ctx.floor(rs, 5)

    if ctx.want("R3"):
        rs = ctx.rule("R3", "AIG handlers construct only And / Not (+ quantifiers, atoms)")
        allowed = {"And", "Not", "Exists", "ForAll"}
        for h, ops_ in handler_funcs(AIG):
            if h.cls != AIG:
                continue
            used = set(attr_tail(c) for c in calls_in(h.func) if isinstance(c.func, ast.Attribute) and
                       norm(c.func.value) in ("self.mgr", "mgr"))
            extra = used - allowed
            if extra:
                ctx.finding(rs, "%s.%s|non-aig-connective|%s" % (AIG, h.name, ",".join(sorted(extra))),
                            "AIG handler %s builds %s: the result is not an and-inverter graph" % (h.name, sorted(extra)),
                            method_loc(repo, AIG, h.func))
            else:
                rs.ok({"handler": h.name, "constructs": sorted(used)})
        ctx.floor(rs, 6)

    if ctx.want("R4"):
        rs = ctx.rule("R4", "prenex building blocks")
        cls, f = repo.method(PRENEX, "_invert_quantifier")
        txt = norm(f)
        if "if Q == self.mgr.Exists:\n        return self.mgr.ForAll\n    return self.mgr.Exists" in txt:
            rs.ok({"_invert_quantifier": "Exists <-> ForAll"})
        else:
            iffs = [n for n in ast.walk(f) if isinstance(n, ast.If)]
            good = False
            if len(iffs) == 1 and isinstance(iffs[0].test, ast.Compare):
                a = attr_tail(iffs[0].test.comparators[0])
                r1 = [attr_tail(s.value) for s in iffs[0].body if isinstance(s, ast.Return)]
                r2 = [attr_tail(s.value) for s in f.body if isinstance(s, ast.Return)] + \
                     [attr_tail(s.value) for s in iffs[0].orelse if isinstance(s, ast.Return)]
                if {a} | set(r2) == {a} and False:
                    pass
                if r1 and r2 and {a, r1[0]} == {"Exists", "ForAll"} and r2[0] == a:
                    good = True
                elif r1 and r2 and r1[0] == a:
                    ctx.finding(rs, "%s._invert_quantifier|identity" % PRENEX,
                                "_invert_quantifier maps %s to itself: negation no longer dualises the prefix" % a,
                                method_loc(repo, cls, f))
                    good = None
            if good:
                rs.ok({"_invert_quantifier": "Exists <-> ForAll"})
            elif good is False:
                rs.unrec("_invert_quantifier shape")
        cls, f = repo.method(PRENEX, "walk_not")
        if "self._invert_quantifier(Q)" in norm(f) and "self.mgr.Not(matrix)" in norm(f):
            rs.ok({"walk_not": "inverts every quantifier of the prefix and negates the matrix"})
        else:
            rs.unrec("PrenexNormalizer.walk_not shape")
        cls, f = repo.method(PRENEX, "walk_conj_disj")
        txt = norm(f)
        conds = ["reserved = formula.get_free_variables()" in txt, "needs_rename = q_vars & reserved" in txt,
                 "reserved |= new_q_vars" in txt]
        if all(conds):
            rs.ok({"walk_conj_disj": "renames q_vars & reserved; reserved grows with every emitted quantifier"})
        else:
            rs.unrec("walk_conj_disj reserved-set discipline %s" % conds)
        cls, f = repo.method(PRENEX, "walk_quantifier")
        if "formula.is_exists()" in norm(f) and "self.mgr.Exists, nq" in norm(f) and "self.mgr.ForAll, nq" in norm(f):
            par = parents(f)
            okq = True
            for n in ast.walk(f):
                if isinstance(n, ast.Return) and "self.mgr.Exists, nq" in norm(n):
                    q = par.get(n)
                    okq = okq and isinstance(q, ast.If) and n in q.body and norm(q.test) == "formula.is_exists()"
            if okq:
                rs.ok({"walk_quantifier": "appends its own quantifier kind"})
            else:
                ctx.finding(rs, "%s.walk_quantifier|kind" % PRENEX, "an existential is emitted for a universal node or vice versa",
                            method_loc(repo, cls, f))
        else:
            rs.unrec("walk_quantifier shape")
        cls, f = repo.method(PRENEX, "normalize")
        if "for (Q, qvars) in quantifiers:\n        res = Q(qvars, res)" in norm(f):
            rs.ok({"normalize": "wraps the matrix with the prefix, innermost first"})
        else:
            rs.unrec("normalize shape")
        ctx.floor(rs, 3)

    if ctx.want("R5"):
        rs = ctx.rule("R5", "partitioning descends only through And (resp. Or) and never yields one")
        for fn, pred in (("conjunctive_partition", "is_and"), ("disjunctive_partition", "is_or")):
            m, f = repo.function("pysmt.rewritings." + fn)
            iffs = [n for n in ast.walk(f) if isinstance(n, ast.If) and isinstance(n.test, ast.Call)
                    and n.test.func.attr.startswith("is_") and norm(n.test.func.value) == "cur"]
            if len(iffs) != 1:
                rs.unrec("%s: case split not recognised" % fn)
                continue
            i = iffs[0]
            desc_body = any("cur.args()" in norm(s) for s in i.body)
            yields_else = any(isinstance(x, ast.Yield) for s in i.orelse for x in ast.walk(s))
            yields_body = any(isinstance(x, ast.Yield) for s in i.body for x in ast.walk(s))
            if i.test.func.attr == pred and desc_body and yields_else and not yields_body:
                rs.ok({"function": fn, "descends_through": pred, "yields": "everything else"})
            elif i.test.func.attr != pred:
                ctx.finding(rs, "pysmt.rewritings.%s|descends-through|%s" % (fn, i.test.func.attr),
                            "%s descends through %s instead of %s: the parts no longer recombine to the input"
                            % (fn, i.test.func.attr, pred), repo.loc(m, i))
            else:
                ctx.finding(rs, "pysmt.rewritings.%s|shape" % fn,
                            "%s yields a node it also descends through, or drops nodes" % fn, repo.loc(m, i))
        ctx.floor(rs, 2)

    if ctx.want("R6"):
        rs = ctx.rule("R6", "Boolean QE: forall->And / exists->Or over all assignments; self-substitution tokens")
        for w, ctor in (("walk_forall", "And"), ("walk_exists", "Or")):
            cls, f = repo.method(SHANNON, w)
            rets = [n for n in ast.walk(f) if isinstance(n, ast.Return)]
            if len(rets) == 1 and isinstance(rets[0].value, ast.Call) and attr_tail(rets[0].value) in ("And", "Or") \
                    and len(rets[0].value.args) == 1 and "_expand(formula, args)" in norm(rets[0].value.args[0]):
                if attr_tail(rets[0].value) == ctor:
                    rs.ok({"shannon": w, "combines_with": ctor})
                else:
                    ctx.finding(rs, "%s.%s|connective" % (SHANNON, w),
                                "%s combines the expansion with %s instead of %s" % (w, attr_tail(rets[0].value), ctor),
                                method_loc(repo, cls, rets[0]))
            else:
                rs.unrec("Shannon %s shape" % w)
        cls, f = repo.method(SHANNON, "_expand")
        txt = norm(f)
        if "qvars = formula.quantifier_vars()" in txt and "all_assignments(qvars, self.env)" in txt and \
                "res.append(f.substitute(subs))" in txt and "f = args[0]" in txt:
            rs.ok({"_expand": "one instance of the rewritten body per assignment of exactly the bound variables"})
        else:
            rs.unrec("_expand shape")
        m, f = repo.function("pysmt.utils.all_assignments")
        if "powerset(bool_variables)" in norm(f) and "mgr.Bool(v in set_)" in norm(f) and "for v in bool_variables" in norm(f):
            rs.ok({"all_assignments": "every subset of the variables, each variable assigned"})
        else:
            rs.unrec("all_assignments shape")
        for w, tok in (("walk_forall", "FALSE"), ("walk_exists", "TRUE")):
            cls, f = repo.method(SELFSUB, w)
            toks = [attr_tail(n.value) for n in ast.walk(f) if isinstance(n, ast.Assign) and norm(n.targets[0]) == "token"]
            if toks == [tok]:
                rs.ok({"self-substitution": w, "token": tok})
            elif toks and toks[0] in ("TRUE", "FALSE"):
                ctx.finding(rs, "%s.%s|token" % (SELFSUB, w),
                            "%s substitutes %s; f[v := f[v := %s]] is equivalent to the quantified formula only with %s"
                            % (w, toks[0], tok, tok), method_loc(repo, cls, f))
            else:
                rs.unrec("self-substitution %s token" % w)
        cls, f = repo.method(SELFSUB, "self_substitute")
        txt = norm(f)
        if "inner_sub = formula.substitute({v: token})" in txt and "formula = formula.substitute({v: inner_sub})" in txt:
            rs.ok({"self_substitute": "f[v := f[v := token]] per bound variable"})
        else:
            rs.unrec("self_substitute shape")
        ctx.floor(rs, 6)

    from . import c10_deep
    c10_deep.run(ctx)
