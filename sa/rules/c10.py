"""C10 -- normal-form rewriters and Boolean quantifier elimination preserve equivalence."""
import ast

from ..common import (get_repo, get_ops, get_tables, short, norm, method_loc, calls_in, attr_tail,
                      parents, names_in, handler_funcs, dispatch_rule)

NNF = "pysmt.rewritings.NNFizer"
AIG = "pysmt.rewritings.AIGer"
PRENEX = "pysmt.rewritings.PrenexNormalizer"
SHANNON = "pysmt.solvers.qelim.ShannonQuantifierEliminator"
SELFSUB = "pysmt.solvers.qelim.SelfSubstitutionQuantifierEliminator"

EXPLANATION = (
    "Abstract interpretation of pysmt/rewritings.py and pysmt/solvers/qelim.py: each rewriter - nnf, aig, "
    "prenex, both Boolean quantifier eliminations, both partitions, propagate_toplevel, TimesDistributor (on ~100 "
    "arithmetic terms over Int and Real: sums, differences, n-ary products with constant factors at every position) - is interpreted "
    "from source on ~150 operator skeletons over opaque leaves (every connective, every connective under "
    "a negation and nested once, quantifiers in every position, shadowing binders); the returned term is "
    "equivalent to the input by complete truth table (bound Boolean variables enumerated) and has the "
    "advertised shape (R2).  propagate_toplevel also under both substituter classes an environment can be configured with, with and "
    "without the final simplification, on formulas whose propagated variable is bound again by a quantifier and next to quantifier alternations.")
NOT_DECIDED = ["TimesDistributor beyond its term menu (values in a small domain); propagate_toplevel beyond the skeletons of R2 (Int values in a small domain)",
               "alpha-renaming correctness of prenex beyond the reserved-set discipline"]

BOOL_CONSTRUCTS = ["and", "or", "implies", "iff", "ite", "quantifier", "forall", "exists", "not"]


def _preds(test, recv):
    """is_X predicates called on receiver name `recv` inside a test expression"""
    out = []
    for c in calls_in(test):
        if isinstance(c.func, ast.Attribute) and c.func.attr.startswith("is_") and norm(c.func.value) == recv:
            out.append(c.func.attr[3:])
    return out


def _chain(iff):
    """flatten if/elif chain: list of (test, body) and final else body"""
    out = []
    cur = iff
    while True:
        out.append((cur.test, cur.body))
        if len(cur.orelse) == 1 and isinstance(cur.orelse[0], ast.If):
            cur = cur.orelse[0]
        else:
            return out, cur.orelse


def run(ctx):
    repo = get_repo()
    ctx.analysed["modules"] = ["pysmt/rewritings.py", "pysmt/solvers/qelim.py"]

    from . import c10_deep
    c10_deep.run(ctx)
