"""Solver-side protocols decided by interpretation.

The real Solver / IncrementalTrackingSolver code (is_sat, is_valid, is_unsat, push, pop, add_assertion,
reset_assertions, solve, the `assertions` property) and the real clear_pending_pop decorator are interpreted
from source.  The native back-end is a probe class written on the analysis side (a virtual module that is
parsed and interpreted like the package, never executed): its _push/_pop/_add_assertion/_solve keep a
model of the native assertion stack and log what every solve() call sees.

For every sequence of API calls up to a bounded length over
   assert a | assert b | push | push 2 | pop | pop 2 | reset | solve | solve [c] | is_sat c | is_valid c | is_unsat c
the run is compared with an executable reference model of the SMT-LIB assertion stack:
   * what each solve sees == the live assertions of the reference (+ the one-shot formula of is_sat & co.);
   * `solver.assertions` at the end of the sequence (and, in a second pass, after every step) == the live
     assertions of the reference: one-shot queries leave the list as they found it;
   * is_sat / is_valid / is_unsat return the truth the back-end's answer implies.
"""
import itertools
import os

from ..absint import AbsRaise, AObj, ClassRef, Unsupported, ExtRef
from ..common import get_repo, parallel_map
from .. import proc
from ..proc import Shape, S, BOOL
from .. import simpcheck as sc

PROBE_MOD = "sa_probe.solvers"
PROBE_SRC = '''
from pysmt.solvers.solver import IncrementalTrackingSolver, Solver
from pysmt.solvers.options import SolverOptions
from pysmt.decorators import clear_pending_pop
from pysmt.exceptions import SolverReturnedUnknownResultError
from pysmt.solvers.smtlib import SmtLibBasicSolver


class ProbeOptions(SolverOptions):
    def __call__(self, solver):
        pass


class ProbeSolver(IncrementalTrackingSolver):
    LOGICS = []
    OptionsClass = ProbeOptions

    def __init__(self, environment, logic, log, answers, **options):
        IncrementalTrackingSolver.__init__(self, environment=environment, logic=logic, **options)
        self.log = log
        self.answers = answers
        self.native = [[]]

    @clear_pending_pop
    def _reset_assertions(self):
        self.native = [[]]
        self.log.append(("reset",))

    @clear_pending_pop
    def _add_assertion(self, formula, named=None):
        self.native[-1].append(formula)
        return formula

    @clear_pending_pop
    def _solve(self, assumptions=None):
        live = [f for frame in self.native for f in frame]
        self.log.append(("solve", tuple(live), tuple(assumptions) if assumptions else ()))
        return self.answers.pop(0)

    @clear_pending_pop
    def _push(self, levels=1):
        for _ in range(levels):
            self.native.append([])

    @clear_pending_pop
    def _pop(self, levels=1):
        for _ in range(levels):
            if len(self.native) <= 1:
                raise RuntimeError("native solver: pop on an empty stack")
            self.native.pop()

    def _exit(self):
        pass


class RefusingProbeSolver(ProbeSolver):
    """Back-end that refuses what it is told to refuse: an assertion it cannot take, a push beyond its depth."""

    def __init__(self, environment, logic, log, answers, refuse, max_depth, hard=(), **options):
        ProbeSolver.__init__(self, environment, logic, log, answers, **options)
        self.refuse = refuse
        self.max_depth = max_depth
        self.hard = hard

    @clear_pending_pop
    def _solve(self, assumptions=None):
        live = [f for frame in self.native for f in frame]
        for f in live + list(assumptions or []):
            for h in self.hard:
                if h is f:
                    raise SolverReturnedUnknownResultError()
        self.log.append(("solve", tuple(live), tuple(assumptions) if assumptions else ()))
        return self.answers.pop(0)

    @clear_pending_pop
    def _add_assertion(self, formula, named=None):
        for r in self.refuse:
            if r is formula:
                raise TypeError("the back-end cannot take this assertion")
        self.native[-1].append(formula)
        return formula

    @clear_pending_pop
    def _push(self, levels=1):
        if len(self.native) - 1 + levels > self.max_depth:
            raise RuntimeError("the back-end refuses to open more levels")
        for _ in range(levels):
            self.native.append([])


class ScriptProbeSolver(ProbeSolver, SmtLibBasicSolver):
    """A tracking solver with the SMT-LIB command interface, as the wrappers of the native solvers have it: the
    target of SmtLibScript.evaluate."""
    pass
'''

ALPHABET = ["A", "B", "P", "P2", "P0", "O", "O2", "O0", "R", "S", "SA", "Q", "V", "U"]
NAMES = {"P2K": "push(levels=2)", "O2K": "pop(levels=2)", "O1K": "pop(levels=1)", "A": "assert a", "B": "assert b", "P": "push", "P2": "push 2", "P0": "push 0", "O": "pop", "O2": "pop 2", "O0": "pop 0",
         "R": "reset",
         "S": "solve", "SA": "solve [c]", "Q": "is_sat c", "V": "is_valid c", "U": "is_unsat c"}


def legal(seq):
    depth = 0
    for x in seq:
        if x == "P":
            depth += 1
        elif x == "P2":
            depth += 2
        elif x == "O":
            if depth < 1:
                return False
            depth -= 1
        elif x == "O2":
            if depth < 2:
                return False
            depth -= 2
        elif x == "R":
            depth = 0
    return True


def sequences(max_len):
    out = []
    for n in range(1, max_len + 1):
        for seq in itertools.product(ALPHABET, repeat=n):
            if legal(seq) and any(x in ("S", "SA", "Q", "V", "U") for x in seq):
                out.append(seq)
    # directed longer sequences: open levels, assert inside, close some, assert / query again, solve
    if max_len < 5:
        seen = set(out)
        for a_ in ("P", "P2", "P0"):
            for b_ in ("A", "Q", "U"):
                for c_ in ("O", "O2", "O0", "R"):
                    for d_ in ("B", "Q", "V"):
                        seq = (a_, b_, c_, d_, "S")
                        if legal(seq) and seq not in seen:
                            out.append(seq)
                        seq = ("A", a_, b_, c_, d_)
                        if legal(seq) and seq not in seen and any(x in ("S", "SA", "Q", "V", "U") for x in seq):
                            out.append(seq)
    # the level count given by keyword, right after a one-shot query (whose pop is still pending)
    for seq in (("P2K", "A", "Q", "O2K", "S"), ("A", "P", "B", "P", "A", "Q", "O2K", "S"), ("P2K", "Q", "O2K", "B", "S"), ("P", "A", "Q", "O1K", "S"),
                ("P2K", "A", "O2K", "S"), ("P", "P", "B", "U", "O2K", "Q"), ("P2K", "V", "O1K", "A", "O1K", "S")):
        if seq not in out:
            out.append(seq)
    return out


def _optstr(options):
    return ", ".join("%s=%r" % kv for kv in sorted(options.items()))


# the options every solver accepts; what the stack holds must not depend on them
OPTION_SETS = [(("generate_models", False),), (("generate_models", False), ("random_seed", 7)), (("unsat_cores_mode", "all"),),
               (("solver_options", {}), ("generate_models", True))]


def _run_chunk(job):
    seqs, every_step = job[:2]
    options = dict(job[2]) if len(job) > 2 else {}
    repo = get_repo()
    repo.add_virtual(PROBE_MOD, PROBE_SRC)
    shape = Shape(("And", S("a"), S("b"), S("c")))
    results = []

    def call(w, it, f):
        it.apply_decorators = {"pysmt.decorators.clear_pending_pop"}
        a, b, c = w.nargs(f)
        logic = it.module_global(w.repo.modules["pysmt.logics"], "QF_BOOL")
        out = []
        for seq in seqs:
            log = []
            answers = [True, False] * (len(seq) + 1)
            ref = [[]]
            problems = []
            try:
                solver = it.instantiate(ClassRef(PROBE_MOD + ".ProbeSolver"), [w.env, logic, log, answers], dict(options))
                for i, x in enumerate(seq):
                    n_log = len(log)
                    nxt = answers[0]
                    ret = None
                    if x in ("A", "B"):
                        fm = a if x == "A" else b
                        it.call(it.getattr(solver, "add_assertion"), [fm])
                        ref[-1].append(fm)
                    elif x in ("P", "P2", "P0", "P2K"):
                        k = {"P": 1, "P2": 2, "P0": 0, "P2K": 2}[x]
                        if x == "P2K":
                            it.call(it.getattr(solver, "push"), [], {"levels": 2})
                        else:
                            it.call(it.getattr(solver, "push"), [k] if k != 1 else [])
                        for _ in range(k):
                            ref.append([])
                    elif x in ("O", "O2", "O0", "O2K", "O1K"):
                        k = {"O": 1, "O2": 2, "O0": 0, "O2K": 2, "O1K": 1}[x]
                        if x in ("O2K", "O1K"):
                            it.call(it.getattr(solver, "pop"), [], {"levels": k})
                        else:
                            it.call(it.getattr(solver, "pop"), [k] if k != 1 else [])
                        for _ in range(k):
                            ref.pop()
                    elif x == "R":
                        it.call(it.getattr(solver, "reset_assertions"), [])
                        ref = [[]]
                    elif x == "S":
                        ret = it.call(it.getattr(solver, "solve"), [])
                    elif x == "SA":
                        ret = it.call(it.getattr(solver, "solve"), [[c]])
                    elif x == "Q":
                        ret = it.call(it.getattr(solver, "is_sat"), [c])
                    elif x == "V":
                        ret = it.call(it.getattr(solver, "is_valid"), [c])
                    elif x == "U":
                        ret = it.call(it.getattr(solver, "is_unsat"), [c])
                    live = [g for fr in ref for g in fr]
                    if x in ("S", "SA", "Q", "V", "U"):
                        solves = [e for e in log[n_log:] if e[0] == "solve"]
                        if len(solves) != 1:
                            problems.append("step %d (%s): %d solve calls reach the back-end" % (i, NAMES[x], len(solves)))
                        else:
                            _, seen, assum = solves[0]
                            extra = {"S": [], "SA": [], "Q": [c], "U": [c], "V": None}[x]
                            seen_l = list(seen)
                            if x == "V":
                                # the negation of c is asserted for the query
                                base, last = seen_l[:-1], seen_l[-1:]
                                okv = len(last) == 1 and w.is_node(last[0]) and w.opname(last[0]) == "NOT" and w.nargs(last[0])[0] is c
                                if [id(g) for g in base] != [id(g) for g in live] or not okv:
                                    problems.append("step %d (is_valid c): the back-end solves %s, the live assertions are %s (+ not c)"
                                                    % (i, _names(w, seen_l), _names(w, live)))
                            elif x == "SA":
                                if [id(g) for g in seen_l] != [id(g) for g in live] or [id(g) for g in assum] != [id(c)]:
                                    problems.append("step %d (solve [c]): the back-end solves %s under %s, the live assertions are %s under [c]"
                                                    % (i, _names(w, seen_l), _names(w, list(assum)), _names(w, live)))
                            else:
                                want = live + extra
                                if [id(g) for g in seen_l] != [id(g) for g in want]:
                                    problems.append("step %d (%s): the back-end solves %s, the live assertions are %s"
                                                    % (i, NAMES[x], _names(w, seen_l), _names(w, want)))
                            expect = {"S": nxt, "SA": nxt, "Q": nxt, "V": (not nxt), "U": (not nxt)}[x]
                            if ret is not expect:
                                problems.append("step %d (%s): returns %r, the back-end answered %r" % (i, NAMES[x], ret, nxt))
                    if every_step or i == len(seq) - 1:
                        got = it.iterate(it.getattr(solver, "assertions"))
                        if [id(g) for g in got] != [id(g) for g in live]:
                            problems.append("after step %d (%s): solver.assertions is %s, the live assertions are %s"
                                            % (i, NAMES[x], _names(w, got), _names(w, live)))
                            break
                if not problems:
                    # used as a context manager, the solver lets an exception of the with-block through
                    exc_ = AObj("builtins.ValueError", {"args": ("raised inside the with-block",)}, tag="exc")
                    if it.truth(it.call(it.getattr(solver, "__exit__"), [ExtRef("ValueError"), exc_, None]), "__exit__"):
                        problems.append("as a context manager the solver swallows an exception raised in the with-block (__exit__ returns a true value)")
                out.append((seq, "ok" if not problems else "bad", problems) + ((_optstr(options),) if options else ()))
            except AbsRaise as ex:
                out.append((seq, "raise", ["%s%s after %s" % (ex.cls_name, proc._args(ex), [NAMES[y] for y in seq])]) + ((_optstr(options),) if options else ()))
            except Unsupported as ex:
                out.append((seq, "unsupported", [str(ex)]) + ((_optstr(options),) if options else ()))
        return out

    def post(w, f, val, facts):
        return proc.ProcResult(shape, "valid", val)
    res = proc.run_proc(shape, call, post=post, services="full", max_paths=4,
                        interp_kwargs={"max_steps": 6000000, "max_loop": 100000})
    if len(res) != 1 or res[0].kind != "valid":
        r = res[0]
        return [(seq, "unsupported", ["%s %s" % (r.kind, str(r.detail)[:200])]) for seq in seqs]
    return res[0].detail


def _names(w, nodes):
    return "[%s]" % ", ".join(sc.node_str(w, n) if w.is_node(n) else repr(n) for n in nodes)


# ---------------------------------------------------------------------------------- tracking solver after a failing call
ITS_F_HEADS = [("S", "XA"), ("A", "S", "XA"), ("XA",), ("P", "XA", "O"), ("P", "XA"), ("A", "P", "P", "XP"), ("P", "S", "XP", "O"), ("Q", "XA"), ("A", "XA", "XA"),
               ("P", "A", "S", "XP", "O"),
               # a one-shot query that fails: its assertion is refused (XQ), its solve answers unknown (XU)
               ("XQ",), ("A", "XQ"), ("P", "A", "XQ", "O"), ("P", "XQ"), ("XU",), ("P", "A", "XU", "O"), ("A", "S", "XU"), ("Q", "XQ", "XU")]
ITS_F_TAILS = [("LC",), ("S", "LC"), ("B", "S"), ("P", "B", "O", "S"), ("Q", "S"), ("LR", "B", "LC")]
ITS_F_NAMES = dict(NAMES, XA="assert d (refused by the back-end)", XP="push 2 (refused by the back-end: too deep)", LC="read last_command",
                   XQ="is_sat d (the back-end refuses the assertion)", XU="is_sat e (the back-end answers unknown)",
                   LR="read last_result")


def _its_fail_chunk(cases):
    repo = get_repo()
    repo.add_virtual(PROBE_MOD, PROBE_SRC)
    shape = Shape(("And", S("a"), S("b"), S("c"), S("d"), S("e")))

    def call(w, it, f):
        it.apply_decorators = {"pysmt.decorators.clear_pending_pop"}
        a, b, c, d, e = w.nargs(f)
        logic = it.module_global(w.repo.modules["pysmt.logics"], "QF_BOOL")

        def run(seq, skip, options=()):
            log = []
            answers = [False, True] * (len(seq) + 2)
            options = dict(options)
            # reading `assertions` performs a pending pop: in this mode the list is read after the last call only
            end_only = options.pop("read the assertions at the end only", False)
            solver = it.instantiate(ClassRef(PROBE_MOD + ".RefusingProbeSolver"), [w.env, logic, log, answers, [d], 2, [e]], options)
            n_eff = len([x for x in seq if not (x in ("XA", "XP", "XQ", "XU") and skip)])
            k_eff = 0
            outs = []
            for x in seq:
                if x in ("XA", "XP", "XQ", "XU") and skip:
                    continue
                try:
                    if x in ("A", "B", "XA"):
                        it.call(it.getattr(solver, "add_assertion"), [{"A": a, "B": b, "XA": d}[x]])
                        r = "ok"
                    elif x in ("P", "XP"):
                        it.call(it.getattr(solver, "push"), [2] if x == "XP" else [])
                        r = "ok"
                    elif x == "O":
                        it.call(it.getattr(solver, "pop"), [])
                        r = "ok"
                    elif x == "S":
                        r = it.call(it.getattr(solver, "solve"), [])
                    elif x == "Q":
                        r = it.call(it.getattr(solver, "is_sat"), [c])
                    elif x == "V":
                        r = it.call(it.getattr(solver, "is_valid"), [c])
                    elif x == "U":
                        r = it.call(it.getattr(solver, "is_unsat"), [c])
                    elif x in ("XQ", "XU"):
                        r = it.call(it.getattr(solver, "is_sat"), [d if x == "XQ" else e])
                    elif x == "LC":
                        r = it.getattr(solver, "last_command")
                    elif x == "LR":
                        r = it.getattr(solver, "last_result")
                    out = ("returns", r)
                except AbsRaise as ex:
                    out = ("raises", ex.cls_name)
                k_eff += 1
                if x in ("XA", "XP", "XQ", "XU"):
                    if out[0] != "raises":
                        outs.append((x, ("the refused call", out)))
                    continue
                if end_only and k_eff < n_eff:
                    outs.append((x, out))
                    continue
                try:
                    live = [id(g) for g in it.iterate(it.getattr(solver, "assertions"))]
                except AbsRaise as ex:
                    live = "raises " + ex.cls_name
                outs.append((x, out, live, len(solver.attrs.get("_backtrack_points", [])), [len(fr) for fr in solver.attrs.get("native", [])]))
            return outs
        res = []
        for case in cases:
            head, tail = case[:2]
            options = case[2] if len(case) > 2 else ()
            seq = head + tail
            try:
                res.append((seq, "ok", run(seq, False, options), run(seq, True, options)) + ((_optstr(dict(options)),) if options else ()))
            except Unsupported as ex:
                res.append((seq, "unsupported", str(ex), None))
        return res

    def post(w, f, val, facts):
        return proc.ProcResult(shape, "valid", val)
    res = proc.run_proc(shape, call, post=post, services="full", max_paths=4,
                        interp_kwargs={"max_steps": 6000000, "max_loop": 100000})
    if len(res) != 1 or res[0].kind != "valid":
        r = res[0]
        return [(h + t, "unsupported", "%s %s" % (r.kind, str(r.detail)[:200]), None) for h, t in cases]
    return res[0].detail


def _its_depth_ok(seq):
    """the caller's own pushes stay within the back-end's depth (only XP is refused) and pops match pushes"""
    d = 0
    for x in seq:
        if x == "P":
            d += 1
            if d > 2:
                return False
        elif x == "O":
            if d == 0:
                return False
            d -= 1
        elif x == "XP" and d + 2 <= 2:
            return False
    return True


_IFCACHE = {}


def its_failure_results(repo, tier="quick"):
    key = (repo.root, tier)
    if key not in _IFCACHE:
        # right after a failed one-shot query `last_command` names the steps the query really performed (its push) and
        # `last_result` is "unknown" after an unknown verdict - as documented; they are compared from the next command on
        cases = [(h, t) for h in ITS_F_HEADS for t in ITS_F_TAILS
                 if not ((h[-1] in ("XQ", "XU") and t[0] == "LC") or ("XU" in h and "LR" in t))]
        # a solver created without the incremental interface: one query only, but a query that was refused is none
        ni = (("incremental", False),)
        cases += [(("XQ",), ("Q",), ni), (("XQ",), ("V",), ni), (("XQ", "XQ"), ("Q", "LR"), ni), (("A", "XQ"), ("Q",), ni), (("XQ",), ("S",), ni),
                  (("XA",), ("Q",), ni), (("A", "XA"), ("B", "Q"), ni), (("XQ",), ("Q",), (("generate_models", False),)),
                  (("P", "A", "XQ", "O"), ("Q", "S"), (("generate_models", False),))]
        eo = (("read the assertions at the end only", True),)
        cases += [(h, t, eo) for h in [("Q", "XA"), ("P", "A", "Q", "XA"), ("A", "P", "B", "U_", "XA"), ("P", "A", "Q", "XP"), ("Q", "XQ"), ("P", "A", "Q", "XU")]
                  for t in [("S",), ("B", "S"), ("O_",), ("P", "B", "O", "S")]]
        cases = [c for c in cases if not (c[1] == ("O_",) and "P" not in c[0])]
        cases = [(tuple("U" if x == "U_" else x for x in c[0]), tuple("O" if x == "O_" else x for x in c[1])) + tuple(c[2:]) for c in cases]
        if tier == "thorough":
            cases += [(h1 + h2, t) for h1 in ITS_F_HEADS[:5] for h2 in ITS_F_HEADS[:5] for t in ITS_F_TAILS]
            cases += [(h, t1 + t2) for h in ITS_F_HEADS for t1 in ITS_F_TAILS for t2 in ITS_F_TAILS[1:4]]
            cases = [c for c in cases if len(c) > 2 or _its_depth_ok(c[0] + c[1])]
            # (same scope as in the quick tier: last_command / last_result right after a failed one-shot query are not compared)
            cases = [c for c in cases if len(c) > 2 or not ((c[0][-1] in ("XQ", "XU") and c[1][0] == "LC") or ("XU" in c[0] and "LR" in c[1]))]
        chunks = [cases[i:i + 4] for i in range(0, len(cases), 4)]
        out = []
        for r in parallel_map(_its_fail_chunk, chunks):
            out.extend(r)
        _IFCACHE[key] = out
    return _IFCACHE[key]


PAIR_ALPHABET = ["1A", "1P", "1O", "1S", "2B", "2P", "2O", "2S", "2Q"]


def pair_sequences(max_len):
    out = []
    for n in range(2, max_len + 1):
        for seq in itertools.product(PAIR_ALPHABET, repeat=n):
            if len(set(x[0] for x in seq)) < 2:
                continue
            ok = True
            for who in "12":
                if not legal(tuple(x[1] for x in seq if x[0] == who)):
                    ok = False
            if ok:
                out.append(seq)
    return out


def _pair_chunk(seqs):
    """Two solver objects of one class used alternately: each tracks its own assertions (nothing of the tracking is shared
    between the objects)."""
    repo = get_repo()
    repo.add_virtual(PROBE_MOD, PROBE_SRC)
    shape = Shape(("And", S("a"), S("b"), S("c")))

    def call(w, it, f):
        it.apply_decorators = {"pysmt.decorators.clear_pending_pop"}
        a, b, c = w.nargs(f)
        logic = it.module_global(w.repo.modules["pysmt.logics"], "QF_BOOL")
        out = []
        for seq in seqs:
            problems = []
            try:
                logs = {"1": [], "2": []}
                solvers = dict((k_, it.instantiate(ClassRef(PROBE_MOD + ".ProbeSolver"), [w.env, logic, logs[k_], [True, False] * (len(seq) + 1)], {}))
                               for k_ in "12")
                refs = {"1": [[]], "2": [[]]}
                for i, tok in enumerate(seq):
                    who, x = tok[0], tok[1]
                    sv, ref = solvers[who], refs[who]
                    n_log = len(logs[who])
                    if x in ("A", "B"):
                        fm = a if x == "A" else b
                        it.call(it.getattr(sv, "add_assertion"), [fm])
                        ref[-1].append(fm)
                    elif x == "P":
                        it.call(it.getattr(sv, "push"), [])
                        ref.append([])
                    elif x == "O":
                        it.call(it.getattr(sv, "pop"), [])
                        ref.pop()
                    elif x == "S":
                        it.call(it.getattr(sv, "solve"), [])
                    elif x == "Q":
                        it.call(it.getattr(sv, "is_sat"), [c])
                    for k_ in "12":
                        live = [g for fr in refs[k_] for g in fr]
                        if k_ == who and x in ("S", "Q"):
                            solves = [e for e in logs[k_][n_log:] if e[0] == "solve"]
                            want = live + ([c] if x == "Q" else [])
                            if len(solves) != 1 or [id(g) for g in solves[0][1]] != [id(g) for g in want]:
                                problems.append("step %d: solver %s solves %s, its live assertions are %s"
                                                % (i, k_, _names(w, list(solves[0][1])) if solves else "nothing", _names(w, want)))
                        got = it.iterate(it.getattr(solvers[k_], "assertions")) if not (k_ != who and solvers[k_].attrs.get("pending_pop")) else None
                        if got is not None and [id(g) for g in got] != [id(g) for g in live]:
                            problems.append("after step %d (solver %s: %s): solver %s reports the assertions %s, it holds %s"
                                            % (i, who, NAMES.get(x, x), k_, _names(w, got), _names(w, live)))
                    if problems:
                        break
                out.append((seq, "ok" if not problems else "bad", problems))
            except AbsRaise as ex:
                out.append((seq, "raise", ["%s%s after %s" % (ex.cls_name, proc._args(ex), list(seq))]))
            except Unsupported as ex:
                out.append((seq, "unsupported", [str(ex)]))
        return out

    def post(w, f, val, facts):
        return proc.ProcResult(shape, "valid", val)
    res = proc.run_proc(shape, call, post=post, services="full", max_paths=4,
                        interp_kwargs={"max_steps": 6000000, "max_loop": 100000})
    if len(res) != 1 or res[0].kind != "valid":
        r = res[0]
        return [(seq, "unsupported", ["%s %s" % (r.kind, str(r.detail)[:200])]) for seq in seqs]
    return res[0].detail


_PCACHE = {}


def pair_results(repo, tier="quick"):
    key = (repo.root, tier)
    if key not in _PCACHE:
        seqs = pair_sequences(4 if tier == "quick" else 5)
        chunks = [seqs[i:i + 60] for i in range(0, len(seqs), 60)]
        out = []
        for r in parallel_map(_pair_chunk, chunks):
            out.extend(r)
        _PCACHE[key] = out
    return _PCACHE[key]


_CACHE = {}


def its_results(repo, tier="quick"):
    key = (repo.root, tier)
    if key not in _CACHE:
        seqs = sequences(3 if tier == "quick" else 4)
        chunks = [seqs[i:i + 60] for i in range(0, len(seqs), 60)]
        jobs = [(ch, False) for ch in chunks] + [(ch, True) for ch in chunks]
        # the same under other option sets, for the sequences with a one-shot query (its level is what options could touch)
        oneshot = [sq for sq in seqs if any(x in ("Q", "V", "U") for x in sq) and (len(sq) <= 2 or len(sq) >= 4)]
        ochunks = [oneshot[i:i + 60] for i in range(0, len(oneshot), 60)]
        jobs += [(ch, True, opts) for ch in ochunks for opts in OPTION_SETS]
        first = _run_chunk((seqs[:3], False))
        out = []
        for r in parallel_map(_run_chunk, jobs):
            out.extend(r)
        _CACHE[key] = out
    return _CACHE[key]


# ================================================================================================ text-interface solver
from fractions import Fraction
from .. import refsmt, textsem, refsem
from ..extmodel import ExtModel
from ..absint import ExtRef, Prim
from ..world import World

SMTLIB_SOLVER = "pysmt.smtlib.solver.SmtLibSolver"


def _unparse(sx):
    if isinstance(sx, list):
        return "(" + " ".join(_unparse(x) for x in sx) + ")"
    a = sx
    if a.kind == "qsym":
        return "|%s|" % a.text
    if a.kind == "str":
        return '"%s"' % a.text.replace('"', '""')
    if a.kind == "hex":
        return "#x" + a.text
    if a.kind == "bin":
        return "#b" + a.text
    return a.text


def _lit(v, sort, dialect=None):
    """A value in the notation of the reply of get-value.  The standard leaves the spelling to the solver; `dialect` picks
    the ones of the solvers pySMT's text interface is used with: z3 (hexadecimal when the width allows, (/ 1.0 3.0)),
    cvc5 (binary, (/ 1 3), (/ (- 1) 3)), indexed literals (_ bvN w)."""
    if sort == ("BOOL",):
        return "true" if v else "false"
    if sort == ("INT",):
        return str(v) if v >= 0 else "(- %d)" % -v
    if sort == ("REAL",):
        v = Fraction(v)
        if dialect == "z3":
            body = "%d.0" % abs(v.numerator) if v.denominator == 1 else "(/ %d.0 %d.0)" % (abs(v.numerator), v.denominator)
            return body if v >= 0 else "(- %s)" % body
        if dialect == "cvc5":
            if v.denominator == 1:
                return "%d.0" % v.numerator if v >= 0 else "(- %d.0)" % -v.numerator
            return "(/ %s %d)" % (str(v.numerator) if v >= 0 else "(- %d)" % -v.numerator, v.denominator)
        body = "%d.0" % abs(v.numerator) if v.denominator == 1 else "(/ %d %d)" % (abs(v.numerator), v.denominator)
        return body if v >= 0 else "(- %s)" % body
    if sort[0] == "BV":
        if dialect == "z3" and sort[1] % 4 == 0:
            return "#x" + format(v, "0%dx" % (sort[1] // 4))
        if dialect == "indexed":
            return "(_ bv%d %d)" % (v, sort[1])
        return "#b" + format(v, "0%db" % sort[1])
    raise refsmt.SmtError("no literal for sort %s" % (sort,), unsupported=True)


class SimSolver(object):
    """Reference SMT-LIB solver process (analysis side): reads the command stream with the independent
    reader, checks every command for legality against the assertion-stack state, and answers."""

    def __init__(self, answers, model, verdict=None):
        self.verdict = verdict            # optional: live assertions (reference terms) -> "sat" | "unsat" | ...
        self.script = refsmt.Script()
        self.rd = refsmt.Reader(self.script)
        self.inbuf = ""
        self.out = ""
        self.answers = list(answers)
        self.model = dict(model)          # symbol name -> value
        self.illegal = []
        self.commands = []
        self.eof_reads = 0
        self.print_success = False
        self.refuse = set()               # symbols whose declaration the solver refuses (e.g. sort outside its logic)
        self.refused = []

    def feed(self, text):
        self.inbuf += text
        try:
            cmds = refsmt.read_all(self.inbuf)
        except refsmt.SmtError as e:
            if "unbalanced" in str(e) or "unexpected end" in str(e) or "unterminated" in str(e):
                return                      # incomplete command: wait for more text
            self.illegal.append("unreadable text %r: %s" % (self.inbuf[:80], e))
            self.inbuf = ""
            self.out += '(error "parse error")\n'
            return
        self.inbuf = ""
        for c in cmds:
            self.execute(c)

    def execute(self, c):
        name = c[0].text if isinstance(c, list) and c and isinstance(c[0], refsmt.Atom) else "?"
        self.commands.append(_unparse(c))
        if name in ("declare-fun", "declare-const") and len(c) > 1 and _unparse(c[1]).strip("|") in self.refuse:
            self.refused.append(_unparse(c))
            self.out += '(error "this logic does not support the sort of %s")\n' % _unparse(c[1]).strip("|")
            return
        try:
            refsmt.run_command(self.script, self.rd, c)
        except refsmt.SmtError as e:
            self.illegal.append("%s: %s" % (_unparse(c)[:120], e))
            self.out += '(error "%s")\n' % str(e).replace('"', "'")
            return
        if name == "set-option" and len(c) == 3 and _unparse(c[1]) == ":print-success":
            self.print_success = _unparse(c[2]) == "true"
        if name == "check-sat":
            a = self.answers.pop(0) if self.answers else "unknown"
            if self.verdict is not None and a is not None:
                a = self.verdict(self.script.live_assertions())
            if a is None:
                return                     # the process died: end-of-file on the pipe from now on
            self.out += a + "\n"
        elif name == "get-value":
            parts = []
            for sx in c[1]:
                t, so = self.rd.term(sx, {})
                asg = dict(("sym:" + k, v) for k, v in self.model.items())
                try:
                    v = refsmt.evaluate(t, asg)
                    parts.append("(%s %s)" % (_unparse(sx), _lit(v, so, getattr(self, "dialect", None))))
                except Exception as e:          # noqa - the simulator answers with an error like a solver would
                    self.out += '(error "cannot evaluate %s")\n' % _unparse(sx)
                    return
            self.out += "(" + " ".join(parts) + ")\n"
        elif name == "exit":
            pass
        elif self.print_success:
            self.out += "success\n"


class PipeIn(ExtModel):
    METHODS = ("write", "flush", "close")

    def __init__(self, sim):
        self.sim = sim
        self.buf = ""
        self.closed = False

    def m_write(self, it, a, k):
        s = a[0]
        if not isinstance(s, str):
            conv = getattr(it.domain, "to_text", None)
            s2 = conv(it, s) if conv else None
            if not isinstance(s2, str):
                raise Unsupported("abstract text sent to the solver: %r" % (s,))
            s = s2
        self.buf += s
        return len(s)

    def m_flush(self, it, a, k):
        txt, self.buf = self.buf, ""
        if txt:
            self.sim.feed(txt)

    def m_close(self, it, a, k):
        self.m_flush(it, a, k)
        self.closed = True


class PipeOut(ExtModel):
    METHODS = ("readline", "read", "close")

    def __init__(self, sim):
        self.sim = sim
        self.closed = False

    def m_readline(self, it, a, k):
        out = self.sim.out
        if not out:
            self.sim.eof_reads += 1
            return ""
        i = out.find("\n")
        line, self.sim.out = (out[:i + 1], out[i + 1:]) if i >= 0 else (out, "")
        return line

    def m_read(self, it, a, k):
        n = a[0] if a else -1
        out = self.sim.out
        if not out:
            self.sim.eof_reads += 1
            return ""
        if n is None or n < 0:
            self.sim.out = ""
            return out
        r, self.sim.out = out[:n], out[n:]
        return r

    def m_close(self, it, a, k):
        self.closed = True


class ProcModel(ExtModel):
    METHODS = ("terminate", "wait", "poll", "kill")

    def __init__(self, sim):
        self.stdin = PipeIn(sim)
        self.stdout = PipeOut(sim)
        self.stderr = PipeOut(sim)

    def m_terminate(self, it, a, k):
        return None

    m_wait = m_poll = m_kill = m_terminate


class SolverWorld(World):
    """World whose process / pipe primitives are the reference solver simulator."""

    def __init__(self, *a, **k):
        World.__init__(self, *a, **k)
        self.sim = None

    def call(self, it, f, args, kwargs):
        if isinstance(f, ExtRef):
            n = f.name
            if n.endswith("Popen"):
                return True, ProcModel(self.sim)
            if n.endswith("TextIOWrapper"):
                return True, args[0]
            if n in ("time.sleep",) or n.endswith(".sleep"):
                return True, None
        return World.call(self, it, f, args, kwargs)

    def getattr(self, it, obj, name):
        if isinstance(obj, ProcModel) and name in ("stdin", "stdout", "stderr"):
            return True, getattr(obj, name)
        return World.getattr(self, it, obj, name)


T_ALPHABET = ["AX", "AY", "AU", "P", "P2", "P0", "O", "O2", "O0", "R", "S", "Q", "M", "GV"]
T_NAMES = {"O2K": "pop(levels=2)", "AV": "assert arrs = [0][1 := xv] (xv occurs only as a stored value)", "AP": "assert pal[x] != pal[y] (sort W2 occurs only inside the sort of pal)", "AQO": "assert forall x'. exists idx[0], let. x' < idx[0] < let (bound names that need quoting)", "AQ": "assert forall q1 q2: V. q1=q2 (sort V occurs in the binder only)", "AX": "assert x<3", "AY": "assert a|x<y", "AU": "assert e1=e2 (sort U)", "P": "push", "P2": "push 2", "P0": "push 0",
           "O": "pop", "O0": "pop 0", "O2": "pop 2", "R": "reset_assertions", "S": "solve", "Q": "is_sat(b&x<z)", "M": "get_model", "GV": "get_value(x)"}


def t_legal(seq):
    """Sequences a careful user may issue: pops match pushes; a model is requested only right after a sat
    answer; get_value(x) only while x is declared in the solver (declarations made inside a level - the
    one-shot level of is_sat included - disappear with it); no model query when a symbol of the uninterpreted
    sort is live (the simulator has no literal for it)."""
    depth = 0
    solved = False
    xlevel = None           # level at which x is declared, None if not declared
    pending = False         # the one-shot level of is_sat is still open
    u_live = []             # levels holding the assertion over sort U
    for x in seq:
        if x in ("M", "GV"):
            if not solved or u_live or (x == "GV" and xlevel is None):
                return False
            continue
        solved = False
        if pending:         # any stack-touching call first closes the one-shot level
            pending = False
            if xlevel is not None and xlevel > depth:
                xlevel = None
        if x == "P":
            depth += 1
        elif x == "P2":
            depth += 2
        elif x in ("O", "O2", "O0", "O2K"):
            k = {"O": 1, "O2": 2, "O0": 0, "O2K": 2}[x]
            if depth < k:
                return False
            depth -= k
            if xlevel is not None and xlevel > depth:
                xlevel = None
            u_live = [l for l in u_live if l <= depth]
        elif x == "R":
            depth = 0
            xlevel = None
            u_live = []
        elif x == "S":
            solved = True
        elif x == "Q":
            solved = True
            pending = True
            if xlevel is None:
                xlevel = depth + 1
        elif x in ("AX", "AY"):
            if xlevel is None:
                xlevel = depth
        elif x == "AU":
            u_live.append(depth)
    return True


def t_sequences(max_len):
    out = []
    for n in range(1, max_len + 1):
        for seq in itertools.product(T_ALPHABET, repeat=n):
            if t_legal(seq) and any(x in ("S", "Q") for x in seq):
                out.append(seq)
    if max_len < 5:
        seen = set(out)
        # directed: the verdict changes between two checks without an assertion in between (reset / pop)
        for seq in (("AU", "S", "R", "S"), ("AU", "S", "R", "AX", "S"), ("P", "AU", "S", "O", "S"), ("P", "AU", "Q", "O", "S"),
                    ("AX", "S", "AU", "S"), ("AU", "S", "R", "Q"), ("P2", "AU", "S", "O2", "S"), ("AU", "Q", "R", "S", "M"),
                    ("AX", "P", "AU", "S", "O", "S", "M"),
                    # a closed formula whose sort occurs in its binder only (declared although no symbol is new)
                    ("AQ", "S"), ("AX", "AQ", "S", "M"), ("P", "AQ", "O", "AQ", "S"), ("AQ", "R", "AQ", "S"), ("AX", "S", "AQ", "Q"),
                    ("P", "AQ", "S", "O", "AX", "S"),
                    ("AQO", "S"), ("AX", "AQO", "S", "M"), ("P", "AQO", "O", "AQO", "S"), ("AQO", "Q"),
                    ("P2", "AX", "Q", "O2K", "S"), ("AY", "P", "AX", "P", "AU", "Q", "O2K", "AX", "S"), ("P2", "AX", "O2K", "AX", "S", "M"),
                    ("AX", "S", "M", "S", "M"), ("AY", "S", "M", "GV", "S", "GV", "M"), ("AX", "Q", "M", "AY", "S", "M"),
                    ("AV", "S"), ("P", "AV", "O", "AV", "S"), ("AX", "AV", "Q"), ("AP", "S"), ("P", "AP", "S", "O", "AP", "S"), ("AY", "AP", "Q"),
                    ("P", "AV", "AP", "O", "AP", "AV", "S")):
            if t_legal(seq) and seq not in seen:
                out.append(seq)
                seen.add(seq)
        # directed longer sequences: declarations made inside levels that are partly closed, then used again
        for a_ in ("P", "P2", "P0"):
            for b_ in ("AX", "AY", "AU", "Q"):
                for c_ in ("O", "O2", "O0", "R"):
                    for d_ in ("AX", "AY", "AU", "Q"):
                        for tail in (("S",), ("S", "M")):
                            seq = (a_, b_, c_, d_) + tail
                            if t_legal(seq) and seq not in seen:
                                out.append(seq)
                                seen.add(seq)
    return out


def _text_chunk(seqs):
    shape = Shape(("lit", True, BOOL))
    INT = ("INT",)
    US = ("CUSTOM", "U")

    def call(w, it, f0):
        it.apply_decorators = {"pysmt.decorators.clear_pending_pop"}
        x, y, z = w.symbol("x", INT), w.symbol("y", INT), w.symbol("z", INT)
        a, b = w.symbol("a", ("BOOL",)), w.symbol("b", ("BOOL",))
        e1, e2 = w.symbol("e1", US), w.symbol("e2", US)
        FX = w.app("LT", x, w.int_const(3))
        FY = w.app("Or", a, w.app("LT", x, y))
        FU = w.app("Equals", e1, e2)
        FQ = w.app("And", b, w.app("LT", x, z))
        VS = ("CUSTOM", "V")
        q1, q2 = w.symbol("q1", VS), w.symbol("q2", VS)
        FQV = w.app("ForAll", [q1, q2], w.app("Equals", q1, q2))
        # bound variables whose names need quoting (and a reserved word): the binder and the body must spell them alike
        xp, ix, lt_ = w.symbol("x'", INT), w.symbol("idx[0]", INT), w.symbol("let", INT)
        FQO = w.app("ForAll", [xp], w.app("Exists", [ix, lt_], w.app("And", w.app("LT", xp, ix), w.app("LT", ix, lt_))))
        # a symbol that occurs only as a value stored in an array value; a sort that occurs only inside an array sort
        xv = w.symbol("xv", INT)
        arrs = w.symbol("arrs", ("ARRAY", INT, INT))
        FAV = w.app("Equals", arrs, w.app("Array", w.tyobj(INT), w.int_const(0), {w.int_const(1): xv}))
        W2 = ("CUSTOM", "W2")
        pal = w.symbol("pal", ("ARRAY", INT, W2))
        FAP = w.app("Not", w.app("Equals", w.app("Select", pal, x), w.app("Select", pal, y)))
        forms = {"AX": FX, "AY": FY, "AU": FU, "AQ": FQV, "AQO": FQO, "AV": FAV, "AP": FAP}
        model0 = {"x": 1, "y": 2, "z": 5, "a": True, "b": True}
        logic = it.module_global(w.repo.modules["pysmt.logics"], "QF_UFLIA")
        out = []
        for seq in seqs:
            model = dict(model0)
            problems = []
            try:
                n_checks = sum(1 for s_ in seq if s_ in ("S", "Q"))
                answers = ["sat"] * (n_checks + 1)

                def verdict(live):
                    # the solver answers unsat exactly when an assertion over the uninterpreted sort is live
                    for t_ in live:
                        if "e1" in refsmt.symbols_of(t_):
                            return "unsat"
                    return "sat"
                sim = SimSolver(answers, model, verdict)
                w.sim = sim
                solver = it.instantiate(ClassRef(SMTLIB_SOLVER), [["sim"], w.env, logic], {})
                ref = [[]]
                for i, st in enumerate(seq):
                    ret = None
                    if st in forms:
                        it.call(it.getattr(solver, "add_assertion"), [forms[st]])
                        ref[-1].append(forms[st])
                    elif st in ("P", "P2", "P0"):
                        k = {"P": 1, "P2": 2, "P0": 0}[st]
                        it.call(it.getattr(solver, "push"), [k] if k != 1 else [])
                        for _ in range(k):
                            ref.append([])
                    elif st in ("O", "O2", "O0", "O2K"):
                        k = {"O": 1, "O2": 2, "O0": 0, "O2K": 2}[st]
                        if st == "O2K":
                            it.call(it.getattr(solver, "pop"), [], {"levels": 2})
                        else:
                            it.call(it.getattr(solver, "pop"), [k] if k != 1 else [])
                        for _ in range(k):
                            ref.pop()
                    elif st == "R":
                        it.call(it.getattr(solver, "reset_assertions"), [])
                        ref = [[]]
                    elif st == "S":
                        ret = it.call(it.getattr(solver, "solve"), [])
                        want_v = not any(g is FU for fr in ref for g in fr)
                        if ret is not want_v:
                            problems.append("step %d: solve returns %r, the solver's answer for the live assertions is %s"
                                            % (i, ret, "sat" if want_v else "unsat"))
                    elif st == "Q":
                        ret = it.call(it.getattr(solver, "is_sat"), [FQ])
                        want_v = not any(g is FU for fr in ref for g in fr)
                        if ret is not want_v:
                            problems.append("step %d: is_sat returns %r, the solver's answer for the live assertions is %s"
                                            % (i, ret, "sat" if want_v else "unsat"))
                    elif st == "M":
                        m = it.call(it.getattr(solver, "get_model"), [])
                        asg = m.attrs.get("assignment") if isinstance(m, AObj) else None
                        live = [g for fr in ref for g in fr]
                        if seq[i - 1] == "Q" or (i >= 1 and seq[i - 1] in ("M", "GV") and "Q" in seq[:i] and
                                                 all(s_ in ("M", "GV") for s_ in seq[max(j for j, s_ in enumerate(seq[:i]) if s_ == "Q") + 1:i])):
                            live = live + [FQ]
                        need = set()
                        for g in live:
                            need |= set(w.free_symbols(g))
                        if not isinstance(asg, dict):
                            problems.append("step %d: get_model returned %r" % (i, m))
                        else:
                            for sym in need:
                                nm = w.npayload(sym)[0]
                                if w.nsort(sym)[0] == "CUSTOM":
                                    continue
                                if sym not in asg:
                                    problems.append("step %d: the model has no value for %s, which occurs in the live assertions" % (i, nm))
                                else:
                                    # asked through the model's own interface
                                    val = it.call(it.getattr(m, "get_value"), [sym])
                                    got = w.npayload(val) if w.is_node(val) else val
                                    if got != model[nm]:
                                        problems.append("step %d: the model gives %s = %r, the solver reported %r" % (i, nm, got, model[nm]))
                        # the solver may report other values the next time it is asked
                        for nm_ in ("x", "y", "z"):
                            model[nm_] = model[nm_] + 1 if model[nm_] < 2 else model[nm_] - 1
                            sim.model[nm_] = model[nm_]
                    elif st == "GV":
                        v = it.call(it.getattr(solver, "get_value"), [x])
                        got = w.npayload(v) if w.is_node(v) else v
                        if got != model["x"]:
                            problems.append("step %d: get_value(x) returns %r, the solver reported %r" % (i, got, model["x"]))
                    # replies in sync: nothing unread, nothing read past the end
                    if sim.out.strip():
                        problems.append("after step %d (%s): the reply %r was never read" % (i, T_NAMES[st], sim.out[:60]))
                        break
                    if sim.eof_reads:
                        problems.append("step %d (%s): a reply was awaited that no command causes" % (i, T_NAMES[st]))
                        break
                    if sim.illegal:
                        problems.append("step %d (%s): illegal command stream: %s" % (i, T_NAMES[st], sim.illegal[0]))
                        break
                    # mirror of the assertion stack (pending one-shot level allowed after is_sat)
                    depth = len(sim.script.levels) - 1
                    want = len(ref) - 1
                    if not (depth == want or (depth == want + 1 and bool(solver.attrs.get("pending_pop")))):
                        problems.append("after step %d (%s): the solver is at level %d, the caller at level %d"
                                        % (i, T_NAMES[st], depth, want))
                        break
                out.append((seq, "ok" if not problems else "bad", problems, len(sim.commands)))
            except AbsRaise as ex:
                why = "%s%s" % (ex.cls_name, proc._args(ex))
                extra = (" [stream: %s]" % sim.illegal[0]) if sim.illegal else ""
                out.append((seq, "raise", ["%s after %s%s" % (why, [T_NAMES[y] for y in seq], extra)], len(sim.commands)))
            except Unsupported as ex:
                out.append((seq, "unsupported", [str(ex)], 0))
        return out

    def post(w, f, val, facts):
        return proc.ProcResult(shape, "valid", val)
    res = proc.run_proc(shape, call, post=post, services="full", max_paths=4, world_cls=SolverWorld,
                        interp_kwargs={"max_steps": 20000000, "max_loop": 200000})
    if len(res) != 1 or res[0].kind != "valid":
        r = res[0]
        return [(seq, "unsupported", ["%s %s" % (r.kind, str(r.detail)[:200])], 0) for seq in seqs]
    return res[0].detail


# ---------------------------------------------------------------------------------------------- failing calls
F_HEADS = [("AB",), ("AX", "AB"), ("P", "AB", "O"), ("P", "AB"), ("AB", "AB"), ("AYB", "AB"), ("Q", "AB")]
F_TAILS = [("AYB", "S", "M"), ("AX", "AYB", "S"), ("P", "AYB", "S", "O", "S"), ("AYB", "Q"), ("Q", "AYB", "S"), ("S", "AYB", "GVY")]
F_NAMES = dict(T_NAMES, AB="assert x<yb & 1.0<rr (the solver refuses to declare rr)", AYB="assert yb<x", GVY="get_value(yb)")


def _fail_chunk(cases):
    """SmtLibSolver after a call that failed half-way (a declaration refused by the solver): every later call has the
    outcome it has when the failing call is never made."""
    shape = Shape(("lit", True, BOOL))
    INT, REAL = ("INT",), ("REAL",)

    def call(w, it, f0):
        it.apply_decorators = {"pysmt.decorators.clear_pending_pop"}
        # creation order fixes the order in which the free symbols of a formula are visited: x, rr, yb
        x = w.symbol("x", INT)
        rr = w.symbol("rr", REAL)
        yb = w.symbol("yb", INT)
        z = w.symbol("z", INT)
        b = w.symbol("b", ("BOOL",))
        forms = {"AX": w.app("LT", x, w.int_const(3)), "AYB": w.app("LT", yb, x),
                 "AB": w.app("And", w.app("LT", x, yb), w.app("LT", w.app("Real", 1), rr))}
        FQ = w.app("And", b, w.app("LT", x, z))
        model = {"x": 1, "yb": 0, "z": 5, "b": True, "rr": 2}
        logic = it.module_global(w.repo.modules["pysmt.logics"], "QF_LIA")

        def run(seq, skip_failing):
            sim = SimSolver(["sat"] * 8, model)
            sim.refuse = {"rr"}
            w.sim = sim
            solver = it.instantiate(ClassRef(SMTLIB_SOLVER), [["sim"], w.env, logic], {})
            outs = []
            for st in seq:
                if st == "AB" and skip_failing:
                    continue
                try:
                    if st in forms:
                        it.call(it.getattr(solver, "add_assertion"), [forms[st]])
                        r = "ok"
                    elif st == "P":
                        it.call(it.getattr(solver, "push"), [])
                        r = "ok"
                    elif st == "O":
                        it.call(it.getattr(solver, "pop"), [])
                        r = "ok"
                    elif st == "S":
                        r = it.call(it.getattr(solver, "solve"), [])
                    elif st == "Q":
                        r = it.call(it.getattr(solver, "is_sat"), [FQ])
                    elif st == "GVY":
                        v = it.call(it.getattr(solver, "get_value"), [yb])
                        r = w.npayload(v) if w.is_node(v) else v
                    elif st == "M":
                        m = it.call(it.getattr(solver, "get_model"), [])
                        asg = m.attrs.get("assignment") if isinstance(m, AObj) else {}
                        # the values of the symbols of the live assertions (the failed call may have left further
                        # symbols declared in the solver: their presence in the model is not compared)
                        r = tuple(sorted((w.npayload(k_)[0], w.npayload(v_) if w.is_node(v_) else v_) for k_, v_ in asg.items()
                                         if w.npayload(k_)[0] in ("x", "yb")))
                    out = ("returns", r)
                except AbsRaise as ex:
                    out = ("raises", ex.cls_name)
                if st != "AB":
                    outs.append((st, out))
                elif out[0] != "raises":
                    outs.append((st, ("the refused call", out)))
                if sim.out.strip():
                    # a reply left unread by a failing call: read by nobody; later calls see it
                    pass
            return outs, list(sim.illegal)
        res = []
        for head, tail in cases:
            seq = head + tail
            try:
                got, illegal = run(seq, False)
                want, _ = run(seq, True)
                res.append((seq, "ok", got, want, illegal))
            except Unsupported as ex:
                res.append((seq, "unsupported", str(ex), None, None))
        return res

    def post(w, f, val, facts):
        return proc.ProcResult(shape, "valid", val)
    res = proc.run_proc(shape, call, post=post, services="full", max_paths=4, world_cls=SolverWorld,
                        interp_kwargs={"max_steps": 20000000, "max_loop": 200000})
    if len(res) != 1 or res[0].kind != "valid":
        r = res[0]
        return [(h + t, "unsupported", "%s %s" % (r.kind, str(r.detail)[:200]), None, None) for h, t in cases]
    return res[0].detail


_FCACHE = {}


def text_failure_results(repo, tier="quick"):
    key = (repo.root, tier)
    if key not in _FCACHE:
        cases = [(h, t) for h in F_HEADS for t in F_TAILS]
        if tier == "thorough":
            # two failing episodes, and longer continuations
            cases += [(h1 + h2, t) for h1 in F_HEADS[:4] for h2 in F_HEADS[:5] for t in F_TAILS]
            cases += [(h, t1 + t2) for h in F_HEADS for t1 in F_TAILS[:3] for t2 in F_TAILS[3:]]
        chunks = [cases[i:i + 3] for i in range(0, len(cases), 3)]
        out = []
        for r in parallel_map(_fail_chunk, chunks):
            out.extend(r)
        _FCACHE[key] = out
    return _FCACHE[key]


def _text_cost_job(_):
    """Cost of SmtLibSolver.add_assertion / is_sat on a maximally shared Boolean tower (x' = x & x over a | b<c): the
    interpreted steps follow the number of nodes (depth + 5), not the number of paths (2^depth)."""
    shape = Shape(("lit", True, BOOL))
    INT = ("INT",)
    depths = (4, 8, 12)

    def call(w, it, f0):
        it.apply_decorators = {"pysmt.decorators.clear_pending_pop"}
        logic = it.module_global(w.repo.modules["pysmt.logics"], "QF_UFLIA")
        a = w.symbol("a", ("BOOL",))
        b, c = w.symbol("b", INT), w.symbol("c", INT)
        out = {}
        for api in ("add_assertion", "is_sat"):
            costs = []
            for d in depths:
                sim = SimSolver(["sat"] * 4, {"a": True, "b": 1, "c": 2})
                w.sim = sim
                solver = it.instantiate(ClassRef(SMTLIB_SOLVER), [["sim"], w.env, logic], {})
                t = w.app("Or", a, w.app("LT", b, c))
                p_, q_ = w.symbol("p", ("BOOL",)), w.symbol("q", ("BOOL",))
                for _ in range(d):
                    t = w.app("And", w.app("Or", t, p_), w.app("Or", t, q_))      # shared, and left alone by simplify()
                it.call(it.getattr(solver, "add_assertion"), [w.app("Or", p_, q_)])     # warm-up: one-time work of the services
                s0 = it.cost()
                it.call(it.getattr(solver, api), [t])
                costs.append(it.cost() - s0)
            out[api] = costs
        return out

    def post(w, f, val, facts):
        return proc.ProcResult(shape, "valid", val)
    res = proc.run_proc(shape, call, post=post, services="full", max_paths=4, world_cls=SolverWorld,
                        interp_kwargs={"max_steps": 20000000, "max_loop": 200000})
    if len(res) != 1 or res[0].kind != "valid":
        return ("unsupported", "%s %s" % (res[0].kind, str(res[0].detail)[:200]))
    return ("ok", res[0].detail)


VALUE_MODEL = {"h8": 0xb5, "i8": 0xbb, "j8": 0x0b, "k8": 0xab, "l8": 0x5b, "m8": 0xff, "n8": 0, "h4": 0xb, "i4": 1, "h3": 5, "h16": 0xbeef, "j16": 0x0bb0,
               "r1": Fraction(1, 3), "r2": Fraction(-1, 3), "r3": Fraction(5, 2), "r4": Fraction(2), "r5": Fraction(-2), "r6": Fraction(0),
               "z1": -7, "z2": 0, "z3": 12}


def _values_job(dialect):
    """Model values in the notations solvers use for them: what get_value / get_model hand back is the reported value."""
    shape = Shape(("lit", True, BOOL))
    INT, REAL = ("INT",), ("REAL",)

    def sort_of(nm):
        return REAL if nm[0] == "r" else (INT if nm[0] == "z" else ("BV", int(nm[1:])))

    def call(w, it, f0):
        it.apply_decorators = {"pysmt.decorators.clear_pending_pop"}
        logic = it.module_global(w.repo.modules["pysmt.logics"], "QF_AUFBVLIRA")
        sim = SimSolver(["sat"] * 4, dict(VALUE_MODEL, gate=True))
        sim.dialect = dialect
        w.sim = sim
        solver = it.instantiate(ClassRef(SMTLIB_SOLVER), [["sim"], w.env, logic], {})
        syms = dict((nm, w.symbol(nm, sort_of(nm))) for nm in sorted(VALUE_MODEL))
        for nm in sorted(syms):
            so = sort_of(nm)
            lit = w.app("BV", VALUE_MODEL[nm], so[1]) if so[0] == "BV" else (w.app("Real", VALUE_MODEL[nm]) if so == REAL else w.int_const(VALUE_MODEL[nm]))
            it.call(it.getattr(solver, "add_assertion"), [w.app("Or", w.symbol("gate", ("BOOL",)), w.app("Equals", syms[nm], lit))])
        out = []
        r = it.call(it.getattr(solver, "solve"), [])
        if r is not True:
            out.append(("solve", "returns %r for the answer sat" % (r,)))
        for nm in sorted(syms):
            try:
                v = it.call(it.getattr(solver, "get_value"), [syms[nm]])
                got = w.npayload(v) if w.is_node(v) and w.opname(v).endswith("CONSTANT") else ("non-constant", sc.node_str(w, v) if w.is_node(v) else v)
                if sort_of(nm)[0] == "BV" and isinstance(got, tuple) and len(got) == 2 and not isinstance(got[0], str):
                    got = got[0] if got[1] == sort_of(nm)[1] else ("width", got)
            except AbsRaise as ex:
                got = ("raises", ex.cls_name)
            if got != VALUE_MODEL[nm]:
                out.append((nm, "get_value(%s) gives %r; the solver reported %s, i.e. %r" % (nm, got, _lit(VALUE_MODEL[nm], sort_of(nm), dialect), VALUE_MODEL[nm])))
        try:
            m = it.call(it.getattr(solver, "get_model"), [])
            for nm in sorted(syms):
                v = it.call(it.getattr(m, "get_value"), [syms[nm]])
                got = w.npayload(v) if w.is_node(v) and w.opname(v).endswith("CONSTANT") else ("non-constant", sc.node_str(w, v) if w.is_node(v) else v)
                if sort_of(nm)[0] == "BV" and isinstance(got, tuple) and len(got) == 2 and not isinstance(got[0], str):
                    got = got[0] if got[1] == sort_of(nm)[1] else ("width", got)
                if got != VALUE_MODEL[nm]:
                    out.append((nm + "|model", "get_model()[%s] is %r; the solver reported %s, i.e. %r"
                                % (nm, got, _lit(VALUE_MODEL[nm], sort_of(nm), dialect), VALUE_MODEL[nm])))
        except AbsRaise as ex:
            out.append(("model", "get_model raises %s%s" % (ex.cls_name, proc._args(ex))))
        if sim.illegal:
            out.append(("stream", "illegal command stream: %s" % sim.illegal[0]))
        return out

    def post(w, f, val, facts):
        return proc.ProcResult(shape, "valid", val)
    res = proc.run_proc(shape, call, post=post, services="full", max_paths=4, world_cls=SolverWorld,
                        interp_kwargs={"max_steps": 20000000, "max_loop": 200000})
    if len(res) != 1 or res[0].kind != "valid":
        return (dialect, "unsupported", "%s %s" % (res[0].kind, str(res[0].detail)[:200]))
    return (dialect, "ok", res[0].detail)


TEXT_OPTION_SETS = [(), (("random_seed", 7),), (("generate_models", False),), (("random_seed", 0), ("generate_models", False)),
                    (("solver_options", {":timeout": 1000}),), (("solver_options", {":seed": 3, "smt.arith.solver": 2}), ("random_seed", 11)),
                    (("incremental", False),)]


def _text_options_job(options):
    """SmtLibSolver created with each option the base class accepts, against a solver process that - like z3 - says nothing
    until :print-success is switched on: the constructor returns, every option reaches the process, and the solver works."""
    shape = Shape(("lit", True, BOOL))
    INT = ("INT",)
    opts = dict(options)

    def call(w, it, f0):
        it.apply_decorators = {"pysmt.decorators.clear_pending_pop"}
        logic = it.module_global(w.repo.modules["pysmt.logics"], "QF_LIA")
        sim = SimSolver(["sat"] * 4, {"x": 1})
        w.sim = sim
        problems = []
        try:
            solver = it.instantiate(ClassRef(SMTLIB_SOLVER), [["sim"], w.env, logic], dict(opts))
        except AbsRaise as ex:
            return ["the constructor raises %s%s%s" % (ex.cls_name, proc._args(ex), " (a reply was awaited that no command causes: the solver "
                    "process is silent until :print-success is set)" if sim.eof_reads else "")]
        if sim.eof_reads:
            problems.append("a reply was awaited that no command causes (the solver process is silent until :print-success is set)")
        sent = [c_ for c_ in sim.commands if c_.startswith("(set-option")]
        want = ["(set-option :produce-models %s)" % ("true" if opts.get("generate_models", True) else "false")]
        if opts.get("random_seed") is not None:
            want.append("(set-option :random-seed %d)" % opts["random_seed"])
        for k_, v_ in sorted(opts.get("solver_options", {}).items()):
            want.append("(set-option %s %s)" % (k_, v_))
        for c_ in want:
            if c_ not in sent:
                problems.append("the option command %s never reaches the solver process (sent: %s)" % (c_, "; ".join(sent)))
        x = w.symbol("x", INT)
        try:
            it.call(it.getattr(solver, "add_assertion"), [w.app("LT", x, w.int_const(3))])
            r = it.call(it.getattr(solver, "solve"), [])
            if r is not True:
                problems.append("solve returns %r for the answer sat" % (r,))
            if opts.get("generate_models", True):
                v = it.call(it.getattr(solver, "get_value"), [x])
                if not (w.is_node(v) and w.npayload(v) == 1):
                    problems.append("get_value(x) gives %r, the solver reported 1" % (w.npayload(v) if w.is_node(v) else v,))
        except AbsRaise as ex:
            problems.append("after construction: %s%s" % (ex.cls_name, proc._args(ex)))
        if sim.out.strip():
            problems.append("the reply %r was never read" % sim.out[:60])
        if sim.illegal:
            problems.append("illegal command stream: %s" % sim.illegal[0])
        return problems

    def post(w, f, val, facts):
        return proc.ProcResult(shape, "valid", val)
    res = proc.run_proc(shape, call, post=post, services="full", max_paths=4, world_cls=SolverWorld,
                        interp_kwargs={"max_steps": 20000000, "max_loop": 200000})
    if len(res) != 1 or res[0].kind != "valid":
        return (_optstr(opts) or "defaults", "unsupported", "%s %s" % (res[0].kind, str(res[0].detail)[:200]))
    return (_optstr(opts) or "defaults", "ok", res[0].detail)


def text_options_results(repo):
    return [_text_options_job(o) for o in TEXT_OPTION_SETS]


def text_value_results(repo):
    return [_values_job(d) for d in ("z3", "cvc5", "indexed", None)]


def text_solver_cost(repo):
    return _text_cost_job(None)


_TCACHE = {}


def text_solver_results(repo, tier="quick"):
    key = (repo.root, tier)
    if key not in _TCACHE:
        seqs = t_sequences(3 if tier == "quick" else 4)
        chunks = [seqs[i:i + 6] for i in range(0, len(seqs), 6)]
        _text_chunk(seqs[:2])
        out = []
        for r in parallel_map(_text_chunk, chunks):
            out.extend(r)
        _TCACHE[key] = out
    return _TCACHE[key]


def _verdict_job(_):
    """Verdict table: what solve() / is_sat() return or raise for each answer of the solver process."""
    shape = Shape(("lit", True, BOOL))
    INT = ("INT",)
    cases = [("sat", "True"), ("unsat", "False"), ("unknown", "SolverReturnedUnknownResultError"),
             ("timeout", "UnknownSolverAnswerError"), ('(error "x")', "UnknownSolverAnswerError"), ("", "UnknownSolverAnswerError"),
             (None, "UnknownSolverAnswerError")]      # None: the solver process exits without answering (end-of-file)

    def call(w, it, f0):
        it.apply_decorators = {"pysmt.decorators.clear_pending_pop"}
        x = w.symbol("x", INT)
        FX = w.app("LT", x, w.int_const(3))
        logic = it.module_global(w.repo.modules["pysmt.logics"], "QF_LIA")
        out = []
        for ans, want in cases:
            for api in ("solve", "is_sat"):
                sim = SimSolver([ans], {"x": 1})
                w.sim = sim
                try:
                    solver = it.instantiate(ClassRef(SMTLIB_SOLVER), [["sim"], w.env, logic], {})
                    if api == "solve":
                        it.call(it.getattr(solver, "add_assertion"), [FX])
                        r = it.call(it.getattr(solver, "solve"), [])
                    else:
                        r = it.call(it.getattr(solver, "is_sat"), [FX])
                    got = repr(r)
                except AbsRaise as ex:
                    got = ex.cls_name
                except Unsupported as ex:
                    got = "does-not-terminate" if "loop exceeds" in str(ex) or "step budget" in str(ex) else "unsupported: %s" % ex
                out.append((ans, api, want, got))
        return out

    def post(w, f, val, facts):
        return proc.ProcResult(shape, "valid", val)
    res = proc.run_proc(shape, call, post=post, services="full", max_paths=4, world_cls=SolverWorld,
                        interp_kwargs={"max_steps": 20000000, "max_loop": 200000})
    if len(res) != 1 or res[0].kind != "valid":
        return [("?", "?", "?", "unsupported: %s %s" % (res[0].kind, str(res[0].detail)[:160]))]
    return res[0].detail


# ================================================================================================ script replay
SCRIPT = "pysmt.smtlib.script.SmtLibScript"
CMD = "pysmt.smtlib.script.SmtLibCommand"
S_ALPHABET = ["A", "B", "P", "P2", "P0", "O", "O2", "O0", "R", "MX", "MN", "SF", "SG", "SH"]
S_NAMES = {"A": "assert a", "B": "assert b", "P": "push 1", "P2": "push 2", "P0": "push 0", "O": "pop 1", "O2": "pop 2",
           "O0": "pop 0", "R": "reset-assertions", "MX": "maximize x", "MN": "minimize y", "SF": "assert-soft a :id g1",
           "SG": "assert-soft b :id g1", "SH": "assert-soft c :id g2 :weight 2"}


def s_legal(seq):
    depth = 0
    for x in seq:
        if x in ("P", "P2"):
            depth += 1 if x == "P" else 2
        elif x in ("O", "O2"):
            k = 1 if x == "O" else 2
            if depth < k:
                return False
            depth -= k
        elif x == "R":
            depth = 0
    return True


def s_sequences(max_len):
    out = []
    for n in range(1, max_len + 1):
        for seq in itertools.product(S_ALPHABET, repeat=n):
            if s_legal(seq):
                out.append(seq)
    return out


def _ref_replay(seq, forms):
    """Reference: SMT-LIB assertion stack with objectives living on it.  Returns (live assertions, goals)
    where goals are ('max', t) | ('min', t) | ('soft', [(clause, weight)...]) in declaration order."""
    depth = 0
    asserts = []          # (level, formula)
    goals = []            # dict(kind, level, term | id, clauses [(level, f, w)])
    for x in seq:
        if x in ("A", "B"):
            asserts.append((depth, forms[x]))
        elif x in ("P", "P2"):
            depth += 1 if x == "P" else 2
        elif x in ("O", "O2"):
            depth -= 1 if x == "O" else 2
            asserts = [(l, f) for l, f in asserts if l <= depth]
            goals = [g for g in goals if g["level"] <= depth]
            for g in goals:
                if g["kind"] == "soft":
                    g["clauses"] = [c for c in g["clauses"] if c[0] <= depth]
        elif x == "R":
            depth, asserts, goals = 0, [], []
        elif x in ("MX", "MN"):
            goals.append({"kind": "max" if x == "MX" else "min", "level": depth, "term": forms[x]})
        elif x in ("SF", "SG", "SH"):
            gid, f, wt = forms[x]
            grp = [g for g in goals if g["kind"] == "soft" and g["id"] == gid]
            if not grp:
                grp = [{"kind": "soft", "level": depth, "id": gid, "clauses": []}]
                goals.append(grp[0])
            grp[0]["clauses"].append((depth, f, wt))
    return [f for _, f in asserts], goals


def _script_chunk(seqs):
    shape = Shape(("lit", True, BOOL))
    INT = ("INT",)

    def call(w, it, f0):
        a, b, c = w.symbol("a", ("BOOL",)), w.symbol("b", ("BOOL",)), w.symbol("c", ("BOOL",))
        x, y = w.symbol("x", INT), w.symbol("y", INT)
        two = w.int_const(2)
        forms = {"A": a, "B": b, "MX": x, "MN": y, "SF": ("g1", a, None), "SG": ("g1", b, None), "SH": ("g2", c, two)}
        out = []
        for seq in seqs:
            try:
                script = it.instantiate(ClassRef(SCRIPT), [], {})

                def add(name, args):
                    it.call(it.getattr(script, "add"), [name, args])
                for st in seq:
                    if st in ("A", "B"):
                        add("assert", [forms[st]])
                    elif st in ("P", "P2", "P0"):
                        add("push", [{"P": 1, "P2": 2, "P0": 0}[st]])
                    elif st in ("O", "O2", "O0"):
                        add("pop", [{"O": 1, "O2": 2, "O0": 0}[st]])
                    elif st == "R":
                        add("reset-assertions", [])
                    elif st == "MX":
                        add("maximize", [x, []])
                    elif st == "MN":
                        add("minimize", [y, []])
                    else:
                        gid, fm, wt = forms[st]
                        ann = [(":id", gid)] + ([(":weight", wt)] if wt is not None else [])
                        add("assert-soft", [fm, ann])
                res = it.call(it.getattr(script, "get_last_formula"), [], {"return_optimizations": True})
                fml, goals = res
                plain = it.call(it.getattr(script, "get_last_formula"), [])
                live, rgoals = _ref_replay(seq, forms)
                problems = []
                want = w.app("And", live)
                if fml is not want:
                    problems.append("the script reports %s as finally asserted, the live assertions are %s"
                                    % (sc.node_str(w, fml), _names(w, live)))
                if plain is not fml:
                    problems.append("get_last_formula() and get_last_formula(return_optimizations=True) disagree")
                got = []
                for g in it.iterate(goals):
                    cn = g.cls.split(".")[-1] if isinstance(g, AObj) else repr(g)
                    if cn in ("MaximizationGoal", "MinimizationGoal"):
                        got.append(("max" if cn.startswith("Max") else "min", id(g.attrs.get("formula"))))
                    elif cn == "MaxSMTGoal":
                        soft = [(id(f_), proc.sc.node_str(w, wt_)) for f_, wt_ in it.iterate(g.attrs.get("soft"))]
                        got.append(("soft", tuple(soft)))
                    else:
                        got.append((cn,))
                exp = []
                for g in rgoals:
                    if g["kind"] in ("max", "min"):
                        exp.append((g["kind"], id(g["term"])))
                    else:
                        exp.append(("soft", tuple((id(f_), "Real(%s)" % (2 if wt_ is not None else 1)) for _, f_, wt_ in g["clauses"])))
                gotn = [(k[0],) + ((k[1],) if k[0] != "soft" else (tuple(x_[0] for x_ in k[1]),)) for k in got]
                expn = [(k[0],) + ((k[1],) if k[0] != "soft" else (tuple(x_[0] for x_ in k[1]),)) for k in exp]
                if gotn != expn:
                    def show(lst):
                        return [(k[0], len(k[1]) if k[0] == "soft" else "") for k in lst]
                    problems.append("the script reports the goals %s, the live goals are %s" % (show(got), show(exp)))
                out.append((seq, "ok" if not problems else "bad", problems))
            except AbsRaise as ex:
                out.append((seq, "raise", ["%s%s" % (ex.cls_name, proc._args(ex))]))
            except Unsupported as ex:
                out.append((seq, "unsupported", [str(ex)]))
        return out

    def post(w, f, val, facts):
        return proc.ProcResult(shape, "valid", val)
    res = proc.run_proc(shape, call, post=post, services="full", max_paths=4,
                        interp_kwargs={"max_steps": 20000000, "max_loop": 200000})
    if len(res) != 1 or res[0].kind != "valid":
        r = res[0]
        return [(seq, "unsupported", ["%s %s" % (r.kind, str(r.detail)[:200])]) for seq in seqs]
    return res[0].detail


E_ALPHABET = ["A", "B", "P", "P2", "P0", "O", "O2", "O0", "R", "C"]


def e_sequences(max_len):
    out = []
    for n in range(1, max_len + 1):
        for seq in itertools.product(E_ALPHABET, repeat=n):
            if s_legal(tuple(x for x in seq if x != "C")) and (seq[-1] == "C" or "R" in seq or "O0" in seq or "P0" in seq):
                out.append(seq)
    out += [("A", "P", "B", "C", "R", "C"), ("P", "A", "R", "B", "C"), ("A", "C", "P2", "B", "O", "C", "R", "A", "C"), ("A", "R", "R", "C"),
            ("P2", "A", "O", "B", "O", "C"), ("A", "P", "R", "P", "B", "O", "C")]
    return out


def _eval_chunk(seqs):
    """SmtLibScript.evaluate on an incremental solver: the script's commands reach the solver, so that every check-sat sees
    the live assertions of the script and the solver ends with them."""
    repo = get_repo()
    repo.add_virtual(PROBE_MOD, PROBE_SRC)
    shape = Shape(("lit", True, BOOL))

    def call(w, it, f0):
        it.apply_decorators = {"pysmt.decorators.clear_pending_pop"}
        a, b = w.symbol("a", ("BOOL",)), w.symbol("b", ("BOOL",))
        forms = {"A": a, "B": b}
        logic = it.module_global(w.repo.modules["pysmt.logics"], "QF_BOOL")
        out = []
        for seq in seqs:
            problems = []
            try:
                script = it.instantiate(ClassRef(SCRIPT), [], {})
                for st in seq:
                    if st in ("A", "B"):
                        it.call(it.getattr(script, "add"), ["assert", [forms[st]]])
                    elif st in ("P", "P2", "P0"):
                        it.call(it.getattr(script, "add"), ["push", [{"P": 1, "P2": 2, "P0": 0}[st]]])
                    elif st in ("O", "O2", "O0"):
                        it.call(it.getattr(script, "add"), ["pop", [{"O": 1, "O2": 2, "O0": 0}[st]]])
                    elif st == "R":
                        it.call(it.getattr(script, "add"), ["reset-assertions", []])
                    else:
                        it.call(it.getattr(script, "add"), ["check-sat", []])
                log = []
                answers = [True, False] * (len(seq) + 1)
                solver = it.instantiate(ClassRef(PROBE_MOD + ".ScriptProbeSolver"), [w.env, logic, log, list(answers)], {})
                rlog = it.iterate(it.call(it.getattr(script, "evaluate"), [solver]))
                # reference: the live assertions at each check-sat and at the end
                want_solves = []
                for i, st in enumerate(seq):
                    if st == "C":
                        live, _ = _ref_replay(tuple(x for x in seq[:i] if x != "C"), forms)
                        want_solves.append(live)
                live_end, _ = _ref_replay(tuple(x for x in seq if x != "C"), forms)
                solves = [e for e in log if e[0] == "solve"]
                if len(solves) != len(want_solves):
                    problems.append("%d check-sat commands, %d solve calls reach the solver" % (len(want_solves), len(solves)))
                else:
                    for k_, (e, wl) in enumerate(zip(solves, want_solves)):
                        if [id(g) for g in e[1]] != [id(g) for g in wl]:
                            problems.append("check-sat no. %d is answered for the assertions %s, the live assertions of the script are %s"
                                            % (k_ + 1, _names(w, list(e[1])), _names(w, wl)))
                            break
                got = it.iterate(it.getattr(solver, "assertions"))
                if [id(g) for g in got] != [id(g) for g in live_end]:
                    problems.append("after the script the solver holds %s, the live assertions of the script are %s"
                                    % (_names(w, got), _names(w, live_end)))
                rets = [r_[1] for r_ in (it.iterate(e_) for e_ in rlog) if r_[0] == "check-sat"]
                if rets != answers[:len(rets)]:
                    problems.append("the log of evaluate reports %r for the check-sat commands, the solver answered %r" % (rets, answers[:len(rets)]))
                plain = it.call(it.getattr(script, "get_last_formula"), [])
                if plain is not w.app("And", live_end):
                    problems.append("get_last_formula of the same script is %s" % sc.node_str(w, plain))
                out.append((seq, "ok" if not problems else "bad", problems))
            except AbsRaise as ex:
                out.append((seq, "raise", ["%s%s" % (ex.cls_name, proc._args(ex))]))
            except Unsupported as ex:
                out.append((seq, "unsupported", [str(ex)]))
        return out

    def post(w, f, val, facts):
        return proc.ProcResult(shape, "valid", val)
    res = proc.run_proc(shape, call, post=post, services="full", max_paths=4,
                        interp_kwargs={"max_steps": 20000000, "max_loop": 200000})
    if len(res) != 1 or res[0].kind != "valid":
        r = res[0]
        return [(seq, "unsupported", ["%s %s" % (r.kind, str(r.detail)[:200])]) for seq in seqs]
    return res[0].detail


E_NAMES = {"A": "assert a", "B": "assert b", "P": "push 1", "P2": "push 2", "P0": "push 0", "O": "pop 1", "O2": "pop 2", "O0": "pop 0", "R": "reset-assertions",
           "C": "check-sat"}
_ECACHE = {}


def script_eval_results(repo, tier="quick"):
    key = (repo.root, tier)
    if key not in _ECACHE:
        seqs = e_sequences(4 if tier == "quick" else 5)
        chunks = [seqs[i:i + 60] for i in range(0, len(seqs), 60)]
        _eval_chunk(seqs[:2])
        out = []
        for r in parallel_map(_eval_chunk, chunks):
            out.extend(r)
        _ECACHE[key] = out
    return _ECACHE[key]


_SCACHE = {}


def script_results(repo, tier="quick"):
    key = (repo.root, tier)
    if key not in _SCACHE:
        seqs = s_sequences(3 if tier == "quick" else 4)
        chunks = [seqs[i:i + 100] for i in range(0, len(seqs), 100)]
        _script_chunk(seqs[:2])
        out = []
        for r in parallel_map(_script_chunk, chunks):
            out.extend(r)
        _SCACHE[key] = out
    return _SCACHE[key]


# ================================================================================================ portfolio
PORTFOLIO = "pysmt.solvers.portfolio.Portfolio"
PF_PROBE_MOD = "sa_probe.portfolio"
PF_PROBE_SRC = '''
from pysmt.exceptions import UnknownSolverAnswerError, SolverReturnedUnknownResultError, ConvertExpressionError


class StubSolver(object):
    """Member solver seen by _run_solver: behaviour chosen by its name."""
    def __init__(self, name, logic, behaviour, verdict):
        self.name = name
        self.behaviour = behaviour
        self.verdict = verdict
        self.asserted = []

    def __enter__(self):
        return self

    def __exit__(self, exc_type, exc_val, exc_tb):
        return False

    def add_assertion(self, formula):
        self.asserted.append(formula)

    def solve(self):
        if self.behaviour == "X":
            raise RuntimeError("member %s failed" % self.name)
        if self.behaviour == "U":
            raise UnknownSolverAnswerError("Solver returned: '(error \\"member %s\\")'" % self.name)
        if self.behaviour == "K":
            raise SolverReturnedUnknownResultError()
        if self.behaviour == "C":
            raise ConvertExpressionError(message="member %s cannot convert" % self.name)
        return self.verdict
'''


class QueueModel(ExtModel):
    """multiprocessing.Queue.  Items are put by the members; their arrival follows the schedule of the run:
    at every get() the next event happens - 'empty' (time-out) or ('msg', member, payload), which is put on
    the queue object that member's process was given."""
    METHODS = ("get", "put", "get_nowait", "close", "empty")

    def __init__(self, world):
        self.world = world
        self.items = []

    def m_get(self, it, a, k):
        w = self.world
        w.gets += 1
        if w.gets > 200:
            raise Unsupported("portfolio receive loop: more than 200 reads without an exit")
        if not self.items and w.pos < len(w.schedule):
            ev = w.schedule[w.pos]
            w.pos += 1
            if ev == "empty":
                raise AbsRaise("Empty", ())
            _, member, payload = ev
            w.delivered.add(member)
            w.queue_of(member, self).items.append(payload)
        if self.items:
            item = self.items.pop(0)
            # what was put on the queue is pickled by the sender and rebuilt here
            if isinstance(item, tuple):
                item = tuple(it.exc_pickle_roundtrip(x) if isinstance(x, AObj) and x.tag == "exc" else x for x in item)
            return item
        raise AbsRaise("Empty", ())

    m_get_nowait = m_get

    def m_put(self, it, a, k):
        self.world.puts.append(a[0])

    def m_close(self, it, a, k):
        return None

    def m_empty(self, it, a, k):
        return not self.items


class ConnModel(ExtModel):
    METHODS = ("send", "recv", "close", "poll")

    def __init__(self, world, side):
        self.world, self.side = world, side

    def m_send(self, it, a, k):
        self.world.ctrl_sent.append((self.side, a[0]))

    def m_recv(self, it, a, k):
        if self.side == "parent":
            # the portfolio waits for an answer of the surviving member of the last race
            w = self.world
            alive = [p for p in w.processes if p.started and not p.terminated and w.behaviours[p.index] == "T"
                     and w.alive_after.get(p.index, True)]
            if not alive:
                raise Unsupported("control pipe: the portfolio waits for an answer but no member of the last race is alive to give one (blocks forever)")
            return w.ctrl_reply
        # a member that reads its control pipe is alive and waiting for the parent
        self.world.recv_reached = True
        raise AbsRaise("EOFError", ())

    def m_close(self, it, a, k):
        return None

    def m_poll(self, it, a, k):
        return False


class ProcessModel(ExtModel):
    METHODS = ("start", "terminate", "is_alive", "join", "kill")

    def __init__(self, world, name, target, args):
        self.world, self.name, self.target, self.args = world, name, target, args
        self.started = False
        self.terminated = False
        self.index = len(world.processes)
        world.processes.append(self)

    def m_start(self, it, a, k):
        self.started = True

    def m_terminate(self, it, a, k):
        self.terminated = True

    m_kill = m_terminate

    def m_join(self, it, a, k):
        return None

    def m_is_alive(self, it, a, k):
        w = self.world
        if self.terminated:
            return False
        # a member is alive until its message has been delivered (answering members stay alive, waiting on
        # the control pipe; failing and dying members end); silent members die at their scheduled point
        beh = w.behaviours[self.index]
        if beh in ("T", "X"):
            if self.index not in w.delivered:
                return True               # still computing
            # after its message: alive iff the interpretation of _run_solver went on to wait on the control pipe
            return w.alive_after.get(self.index, beh == "T")
        return w.pos < w.death.get(self.index, 0)


class PortfolioWorld(World):
    def __init__(self, *a, **k):
        World.__init__(self, *a, **k)
        self.reset_run([], [], {})

    def reset_run(self, schedule, behaviours, death):
        self.schedule, self.behaviours, self.death = schedule, behaviours, death
        self.pos = 0
        self.gets = 0
        self.delivered = set()
        self.processes = []
        self.puts = []
        self.ctrl_sent = []
        if not hasattr(self, "alive_after"):
            self.alive_after = {}
        if not hasattr(self, "ctrl_reply"):
            self.ctrl_reply = None
        self.recv_reached = False

    def queue_of(self, member, default):
        """the queue object the process of `member` (of the current run) was started with"""
        for p in self.processes:
            if p.index == member and p.args is not None:
                for a in p.args:
                    if isinstance(a, QueueModel):
                        return a
        return default

    def late_arrivals(self):
        """members that answered after the winner was chosen: their message reaches their queue anyway"""
        while self.pos < len(self.schedule):
            ev = self.schedule[self.pos]
            self.pos += 1
            if ev != "empty":
                _, member, payload = ev
                self.queue_of(member, QueueModel(self)).items.append(payload)

    def call(self, it, f, args, kwargs):
        if isinstance(f, ExtRef):
            n = f.name.split(".")[-1]
            if n == "Queue":
                return True, QueueModel(self)
            if n == "Pipe":
                return True, (ConnModel(self, "child"), ConnModel(self, "parent"))
            if n == "Process":
                return True, ProcessModel(self, kwargs.get("name"), kwargs.get("target"), kwargs.get("args"))
            if n in ("debug", "getLogger", "info", "warning"):
                return True, ExtRef("logging.logger")
        return World.call(self, it, f, args, kwargs)

    def getattr(self, it, obj, name):
        if isinstance(obj, ProcessModel) and name == "name":
            return True, obj.name
        return World.getattr(self, it, obj, name)


PF_FAILING = "XUKC"     # raises RuntimeError / UnknownSolverAnswerError / SolverReturnedUnknownResultError / ConvertExpressionError


def _pf_scenarios(n, alphabet=None):
    """(behaviours, schedule skeleton): behaviours per member T (answers), X (raises), D (dies silently);
    message arrival orders; an optional time-out before each message."""
    out = []
    for beh in (itertools.product("TXD", repeat=n) if alphabet is None else alphabet):
        senders = [i for i, b in enumerate(beh) if b in "TXUKC"]
        for order in itertools.permutations(senders):
            for gaps in itertools.product((0, 1), repeat=len(order)):
                out.append((beh, order, gaps))
    return out


def _portfolio_chunk(job):
    n, scen, exit_on_exception = job[:3]
    optset = job[3] if len(job) > 3 else None      # per member: None (given by name) or a dict of local options
    repo = get_repo()
    repo.add_virtual(PF_PROBE_MOD, PF_PROBE_SRC)
    shape = Shape(("And", S("a"), S("b")))

    def call(w, it, f):
        it.apply_decorators = {"pysmt.decorators.clear_pending_pop"}
        names = ["m%d" % i for i in range(n)]
        pmod = w.repo.modules["pysmt.solvers.portfolio"]
        run_solver = it.module_global(pmod, "_run_solver")
        logic = it.module_global(w.repo.modules["pysmt.logics"], "QF_BOOL")
        verdict = True
        holder = {"verdict": True}
        out = []
        for beh, order, gaps in scen:
            base = beh
            if optset is not None:
                # a member configured with the local option limited=True gives up (fails); the others run as given.
                # What is expected follows from the configuration the caller wrote, what happens from the options
                # pySMT hands to each member
                beh = tuple("X" if (optset[i] or {}).get("limited") else b_ for i, b_ in enumerate(base))
            w.reset_run([], list(beh), {})
            # factory stub: the portfolio asks for the solver names; members construct their solver through it
            behaviour = dict(zip(names, base))

            def mk_solver(i_, a_, k_, behaviour=behaviour):
                nm = k_.get("name")
                bh = "X" if k_.get("limited") else behaviour[nm]
                return i_.instantiate(ClassRef(PF_PROBE_MOD + ".StubSolver"), [nm, k_.get("logic"), bh, holder["verdict"]], {})
            factory = AObj("sa_probe.Factory", {"Solver": Prim(mk_solver, "factory.Solver"),
                                                "all_solvers": Prim(lambda i_, a_, k_: list(names), "all_solvers")})
            w.env.attrs["_factory"] = factory
            try:
                spec = list(names) if optset is None else [nm if optset[i] is None else (nm, dict(optset[i])) for i, nm in enumerate(names)]
                pf = it.instantiate(ClassRef(PORTFOLIO), [spec, w.env, logic], {"solver_options": {"exit_on_exception": exit_on_exception}})
                member_opts = [dict(o_) if optset is not None else {} for _n, o_ in it.iterate(pf.attrs["solvers"])]
                it.call(it.getattr(pf, "add_assertion"), [f])
                # what each member puts on the queue: _run_solver interpreted with its stub solver
                msgs = {}
                alive_after = {}
                for i, nm in enumerate(names):
                    if beh[i] == "D":
                        continue
                    w.puts = []
                    w.recv_reached = False
                    pname = "%d (%s)" % (i, nm)
                    it.call(run_solver, [pname, nm, logic, dict(member_opts[i]), f, QueueModel(w), ConnModel(w, "child")])
                    alive_after[i] = w.recv_reached
                    if len(w.puts) != 1:
                        out.append((beh, order, gaps, "bad", "member %s puts %d messages on the queue" % (nm, len(w.puts))))
                        break
                    msgs[i] = w.puts[0]
                else:
                    sched = []
                    for i, g in zip(order, gaps):
                        if g:
                            sched.append("empty")
                        sched.append(("msg", i, msgs[i]))
                    death = dict((i, 0) for i, b in enumerate(beh) if b == "D")
                    w.reset_run(sched, list(beh), death)
                    w.alive_after = alive_after
                    w.env.attrs["_factory"] = factory
                    try:
                        res = ("ret", it.call(it.getattr(pf, "solve"), []))
                    except AbsRaise as ex:
                        res = ("raise", ex.cls_name)
                    answering = [i for i in order if beh[i] == "T"]
                    first = order[0] if order else None
                    problems = []
                    if optset is not None:
                        # every member process is started with the shared options plus its own local ones, nobody else's
                        for p in w.processes:
                            if p.args is None or p.index is None:
                                continue
                            po = dict(p.args[3]) if isinstance(p.args[3], dict) else None
                            mine = optset[p.index] or {}
                            others = set(k_ for j_, o_ in enumerate(optset) if o_ and j_ != p.index for k_ in o_) - set(mine)
                            if po is None or any(po.get(k_) != v_ for k_, v_ in mine.items()) or any(k_ in po for k_ in others):
                                problems.append("member %d is started with the options %s; it was configured with %s"
                                                % (p.index, dict((k_, v_) for k_, v_ in (po or {}).items() if k_ in ("limited", "seed")), mine))
                                break
                    if exit_on_exception and first is not None and beh[first] in PF_FAILING:
                        if res[0] != "raise":
                            problems.append("exit_on_exception: the first message is a failure but solve returns %r" % (res[1],))
                    elif answering:
                        if res != ("ret", verdict):
                            problems.append("members %s answer %r but solve %s %r" % (answering, verdict, "returns" if res[0] == "ret" else "raises", res[1]))
                        else:
                            win = answering[0] if not exit_on_exception else answering[0]
                            ext = pf.attrs.get("_ext_solver")
                            if not isinstance(ext, ProcessModel) or ext.index != win:
                                problems.append("the surviving member is %s, the first answer came from member %d"
                                                % (getattr(ext, "name", ext), win))
                            for p in w.processes:
                                if p.index != win and not p.terminated:
                                    problems.append("losing member %d is not terminated" % p.index)
                    else:
                        if res[0] != "raise":
                            problems.append("no member answers but solve returns %r" % (res[1],))
                    if not problems and len(answering) >= 2 and not exit_on_exception:
                        # a loser's answer arrives after the winner was chosen; the assertions change; solve again
                        w.late_arrivals()
                        holder["verdict"] = False
                        it.call(it.getattr(pf, "add_assertion"), [w.app("Not", f)])
                        msgs2 = {}
                        for i, nm in enumerate(names):
                            if beh[i] == "D":
                                continue
                            w.puts = []
                            it.call(run_solver, ["%d (%s)" % (i, nm), nm, logic, dict(member_opts[i]), f, QueueModel(w), ConnModel(w, "child")])
                            msgs2[i] = w.puts[0] if w.puts else None
                        sched2 = [("msg", i, msgs2[i]) for i in order]
                        w.reset_run(sched2, list(beh), death)
                        w.env.attrs["_factory"] = factory
                        try:
                            res2 = ("ret", it.call(it.getattr(pf, "solve"), []))
                        except AbsRaise as ex:
                            res2 = ("raise", ex.cls_name)
                        holder["verdict"] = True
                        if res2 != ("ret", False):
                            problems.append("second solve, after the assertions changed: members answer False but solve %s %r "
                                            "(an answer of the previous race is taken)" % ("returns" if res2[0] == "ret" else "raises", res2[1]))
                    if not problems and answering and not exit_on_exception and optset is None and all(b_ == "T" for b_ in beh) and not any(gaps):
                        # a later race in which every member fails: solve raises, and a value asked for afterwards is an
                        # error too - not a request nobody will ever answer
                        w.late_arrivals()
                        failing = tuple("X" for _ in beh)
                        behaviour.update(zip(names, failing))
                        it.call(it.getattr(pf, "add_assertion"), [w.app("Not", w.app("Not", f))])
                        msgsx = {}
                        for i, nm in enumerate(names):
                            w.puts = []
                            it.call(run_solver, ["%d (%s)" % (i, nm), nm, logic, dict(member_opts[i]), f, QueueModel(w), ConnModel(w, "child")])
                            msgsx[i] = w.puts[0] if w.puts else None
                        w.reset_run([("msg", i, msgsx[i]) for i in order], list(failing), {})
                        w.alive_after = {}
                        w.env.attrs["_factory"] = factory
                        try:
                            r3 = it.call(it.getattr(pf, "solve"), [])
                            problems.append("every member fails in a later race but solve returns %r" % (r3,))
                        except AbsRaise:
                            w.ctrl_reply = w.mgr.attrs["true_formula"]
                            try:
                                it.call(it.getattr(pf, "get_value"), [f])
                                problems.append("after a race in which every member failed get_value returns a value")
                            except AbsRaise:
                                pass
                            except Unsupported as ex:
                                if "blocks forever" in str(ex):
                                    problems.append("after a race in which every member failed, get_value sends its request to the members of "
                                                    "that race and waits: nobody is alive to answer, the call blocks forever")
                                else:
                                    raise
                        behaviour.update(zip(names, base))
                    out.append((beh, order, gaps, "ok" if not problems else "bad", problems[0] if problems else ""))
            except AbsRaise as ex:
                out.append((beh, order, gaps, "raise", "%s%s" % (ex.cls_name, proc._args(ex))))
            except Unsupported as ex:
                kind = "hang" if "without an exit" in str(ex) or "loop exceeds" in str(ex) else "unsupported"
                out.append((beh, order, gaps, kind, str(ex)))
        return out

    def post(w, f, val, facts):
        return proc.ProcResult(shape, "valid", val)
    res = proc.run_proc(shape, call, post=post, services="full", max_paths=4, world_cls=PortfolioWorld,
                        interp_kwargs={"max_steps": 20000000, "max_loop": 5000})
    if len(res) != 1 or res[0].kind != "valid":
        r = res[0]
        return [(b, o, g, "unsupported", "%s %s" % (r.kind, str(r.detail)[:200])) for b, o, g in scen]
    return res[0].detail


PF_STACK_SEQS = [("A1", "S"), ("Q", "P", "A1", "O", "S"), ("A1", "Q", "P", "A2", "O", "S"), ("P", "A1", "Q", "O", "S"), ("Q", "Q", "S"),
                 ("A1", "P", "Q", "P", "A2", "O", "O", "S"), ("Q", "P", "A1", "S", "O", "Q", "P", "A2", "O", "S"), ("P", "A1", "P", "A2", "O", "S", "O", "S"),
                 ("A1", "Q", "R", "A2", "S"), ("Q", "A1", "S"), ("P", "Q", "O", "A1", "S")]


def _portfolio_stack_job(seqs):
    """The portfolio as an incremental solver: for sequences of add_assertion / push / pop / reset / is_sat / solve the
    formula handed to every member process is the conjunction of the live assertions (plus the one-shot formula)."""
    repo = get_repo()
    repo.add_virtual(PF_PROBE_MOD, PF_PROBE_SRC)
    shape = Shape(("lit", True, BOOL))

    def call(w, it, f0):
        it.apply_decorators = {"pysmt.decorators.clear_pending_pop"}
        names = ["m0", "m1"]
        pmod = w.repo.modules["pysmt.solvers.portfolio"]
        run_solver = it.module_global(pmod, "_run_solver")
        logic = it.module_global(w.repo.modules["pysmt.logics"], "QF_BOOL")
        a, b, c = w.symbol("a", BOOL), w.symbol("b", BOOL), w.symbol("c", BOOL)
        forms = {"A1": w.app("Or", a, b), "A2": w.app("Not", a)}
        h = w.app("Or", c, a)
        out = []
        for seq in seqs:
            def mk_solver(i_, a_, k_):
                return i_.instantiate(ClassRef(PF_PROBE_MOD + ".StubSolver"), [k_.get("name"), k_.get("logic"), "T", True], {})
            factory = AObj("sa_probe.Factory", {"Solver": Prim(mk_solver, "factory.Solver"),
                                                "all_solvers": Prim(lambda i_, a_, k_: list(names), "all_solvers")})
            w.reset_run([], ["T", "T"], {})
            w.env.attrs["_factory"] = factory
            problems = []
            try:
                pf = it.instantiate(ClassRef(PORTFOLIO), [names, w.env, logic], {})
                ref = [[]]
                for i, st in enumerate(seq):
                    if st in forms:
                        it.call(it.getattr(pf, "add_assertion"), [forms[st]])
                        ref[-1].append(forms[st])
                    elif st == "P":
                        it.call(it.getattr(pf, "push"), [])
                        ref.append([])
                    elif st == "O":
                        it.call(it.getattr(pf, "pop"), [])
                        ref.pop()
                    elif st == "R":
                        it.call(it.getattr(pf, "reset_assertions"), [])
                        ref = [[]]
                    else:
                        msgs = {}
                        for j, nm in enumerate(names):
                            w.puts = []
                            it.call(run_solver, ["%d (%s)" % (j, nm), nm, logic, {}, h, QueueModel(w), ConnModel(w, "child")])
                            msgs[j] = w.puts[0]
                        w.reset_run([("msg", 0, msgs[0]), ("msg", 1, msgs[1])], ["T", "T"], {})
                        w.env.attrs["_factory"] = factory
                        if st == "S":
                            it.call(it.getattr(pf, "solve"), [])
                            live = [g for fr in ref for g in fr]
                        else:
                            it.call(it.getattr(pf, "is_sat"), [h])
                            live = [g for fr in ref for g in fr] + [h]
                        want = w.app("And", live)
                        for p_ in w.processes:
                            sent = p_.args[4] if p_.args is not None and len(p_.args) > 4 else None
                            if sent is not want:
                                problems.append("step %d (%s): the members are asked about %s, the live assertions are %s"
                                                % (i, {"S": "solve", "Q": "is_sat(c|a)"}[st], sc.node_str(w, sent) if w.is_node(sent) else sent,
                                                   sc.node_str(w, want)))
                                break
                        if problems:
                            break
                if not problems:
                    exc_ = AObj("builtins.RuntimeError", {"args": ("every member failed",)}, tag="exc")
                    if it.truth(it.call(it.getattr(pf, "__exit__"), [ExtRef("RuntimeError"), exc_, None]), "__exit__"):
                        problems.append("`with Portfolio(...)`: an error raised in the block (e.g. every member failed) is swallowed by __exit__")
                out.append((seq, "ok" if not problems else "bad", problems[0] if problems else ""))
            except AbsRaise as ex:
                out.append((seq, "raise", "%s%s" % (ex.cls_name, proc._args(ex))))
            except Unsupported as ex:
                out.append((seq, "unsupported", str(ex)))
        return out

    def post(w, f, val, facts):
        return proc.ProcResult(shape, "valid", val)
    res = proc.run_proc(shape, call, post=post, services="full", max_paths=4, world_cls=PortfolioWorld,
                        interp_kwargs={"max_steps": 20000000, "max_loop": 5000})
    if len(res) != 1 or res[0].kind != "valid":
        r = res[0]
        return [(seq, "unsupported", "%s %s" % (r.kind, str(r.detail)[:200])) for seq in seqs]
    return res[0].detail


_PSCACHE = {}


def portfolio_stack_results(repo, tier="quick"):
    key = (repo.root, tier)
    if key not in _PSCACHE:
        chunks = [PF_STACK_SEQS[i:i + 3] for i in range(0, len(PF_STACK_SEQS), 3)]
        out = []
        for r in parallel_map(_portfolio_stack_job, chunks):
            out.extend(r)
        _PSCACHE[key] = out
    return _PSCACHE[key]


_PCACHE = {}


def portfolio_results(repo, tier="quick"):
    key = (repo.root, tier)
    if key not in _PCACHE:
        jobs = []
        for n in ((2, 3) if tier == "quick" else (2, 3, 4)):
            sc_ = _pf_scenarios(n)
            for eoe in (False, True):
                for i in range(0, len(sc_), 40):
                    jobs.append((n, sc_[i:i + 40], eoe))
        # per-member options: the member given with limited=True fails, the ones given by name or with other options run
        for n_, optset in ((2, ({"limited": True}, None)), (2, (None, {"limited": True})), (2, ({"seed": 1}, {"seed": 2})),
                           (3, ({"limited": True}, None, {"seed": 2})), (3, (None, {"seed": 1}, {"limited": True})),
                           (3, ({"seed": 1}, {"limited": True, "seed": 2}, None))):
            sc_ = [x for x in _pf_scenarios(n_) if all(b_ == "T" for b_ in x[0])]
            jobs.append((n_, sc_, False, optset))
        # members that fail with pySMT's own exception classes (which cross the process boundary by pickle)
        for eoe in (False, True):
            jobs.append((2, _pf_scenarios(2, [tuple(x) for x in ("UT", "TU", "KT", "TK", "CT", "TC", "UK", "UU", "KD")]), eoe))
            jobs.append((3, _pf_scenarios(3, [tuple(x) for x in ("UTK", "TUX", "KCT", "UDT")]), eoe))
        _portfolio_chunk((2, _pf_scenarios(2)[:2], False))
        out = []
        for job, r in zip(jobs, parallel_map(_portfolio_chunk, jobs)):
            tag = "" if len(job) < 4 else ", member options %s" % (list(job[3]),)
            out.extend((job[0], job[2], tag) + x for x in r)
        _PCACHE[key] = out
    return _PCACHE[key]


# ================================================================================================ optimisation
OPT_PROBE_MOD = "sa_probe.optimizers"
OPT_PROBE_SRC = '''
from pysmt.solvers.solver import IncrementalTrackingSolver
from pysmt.solvers.options import SolverOptions
from pysmt.solvers.eager import EagerModel
from pysmt.decorators import clear_pending_pop
from pysmt.optimization.optimizer import SUAOptimizerMixin, IncrementalOptimizerMixin


class BruteOptions(SolverOptions):
    def __call__(self, solver):
        pass


class BruteSolver(IncrementalTrackingSolver):
    """Back-end whose verdicts and models come from an oracle of the analysis side (exhaustive search over
    the small domain the scenario's assertions confine the symbols to)."""
    LOGICS = []
    OptionsClass = BruteOptions

    def __init__(self, environment, logic, oracle, **options):
        IncrementalTrackingSolver.__init__(self, environment=environment, logic=logic, **options)
        self.oracle = oracle
        self.native = [[]]
        self.last_model = None
        self.n_solve = 0

    @clear_pending_pop
    def _reset_assertions(self):
        self.native = [[]]

    @clear_pending_pop
    def _add_assertion(self, formula, named=None):
        self.native[-1].append(formula)
        return formula

    @clear_pending_pop
    def _solve(self, assumptions=None):
        live = [f for frame in self.native for f in frame]
        if assumptions:
            live = live + list(assumptions)
        self.n_solve += 1
        self.last_model = self.oracle(live)
        return self.last_model is not None

    @clear_pending_pop
    def _push(self, levels=1):
        for _ in range(levels):
            self.native.append([])

    @clear_pending_pop
    def _pop(self, levels=1):
        for _ in range(levels):
            self.native.pop()

    def get_model(self):
        return EagerModel(assignment=dict(self.last_model), environment=self.environment)

    def get_value(self, formula):
        return self.get_model().get_value(formula)

    def _exit(self):
        pass


class BruteSUA(SUAOptimizerMixin, BruteSolver):
    pass


class BruteIncremental(IncrementalOptimizerMixin, BruteSolver):
    pass
'''

OPT_GOALS = "pysmt.optimization.goal"


def _opt_scenarios():
    """(name, assertions builder, symbol domains, goals...)  Every objective is bounded by the assertions, so its
    optimum is attained."""
    return ["int-box", "int-diag", "int-unsat", "bv-unsigned", "bv-signed", "bv-signed-front", "bv-signed-dominated",
            "bv-signed-dominated-rev", "bv-signed-extreme", "bv-signed-extreme-fwd", "bv-mixed-sign", "int-box+q", "int-front+q", "int-front", "bool-soft"]


def _opt_job(job):
    scen, mixin = job
    repo = get_repo()
    repo.add_virtual(PROBE_MOD, PROBE_SRC)
    repo.add_virtual(OPT_PROBE_MOD, OPT_PROBE_SRC)
    shape = Shape(("lit", True, BOOL))
    INT = ("INT",)
    B3 = ("BV", 3)
    out = []

    def call(w, it, f0):
        it.apply_decorators = {"pysmt.decorators.clear_pending_pop"}
        gm = w.repo.modules[OPT_GOALS]
        Max = it.module_global(gm, "MaximizationGoal")
        Min = it.module_global(gm, "MinimizationGoal")
        MinMax = it.module_global(gm, "MinMaxGoal")
        MaxMin = it.module_global(gm, "MaxMinGoal")
        MaxSMT = it.module_global(gm, "MaxSMTGoal")
        x, y = w.symbol("x", INT), w.symbol("y", INT)
        u, v = w.symbol("u", B3), w.symbol("v", B3)
        a, b, c = w.symbol("a", ("BOOL",)), w.symbol("b", ("BOOL",)), w.symbol("c", ("BOOL",))
        I = w.int_const

        def box(t, lo, hi):
            return [w.app("LE", I(lo), t), w.app("LE", t, I(hi))]
        doms, asserts, goals = {}, [], []
        pre_query = scen.endswith("+q")      # a one-shot query right before the optimisation (its pop is still pending)
        if pre_query:
            scen_ = scen[:-2]
        else:
            scen_ = scen
        if scen_ == "bv-mixed-sign":
            # the same term as a signed and as an unsigned objective in one call
            asserts = [w.app("Or", [w.app("Equals", u, w.bv_const(k_, 3)) for k_ in (3, 6, 5, 1)]), w.app("Equals", v, u)]
            doms = {u: range(8), v: range(8)}
            goals = [("min u unsigned", Min, [u, False]), ("max u unsigned", Max, [u, False]), ("min u signed", Min, [u, True]),
                     ("max u signed", Max, [u, True])]
        elif scen_ == "int-box":
            asserts = box(x, 0, 3) + box(y, -1, 2)
            doms = {x: range(-2, 5), y: range(-2, 5)}
            goals = [("max x", Max, [x]), ("min x", Min, [x]), ("max x+y", Max, [w.app("Plus", x, y)]),
                     ("min x-y", Min, [w.app("Minus", x, y)])]
        elif scen == "int-diag":
            asserts = box(x, 0, 3) + box(y, 0, 3) + [w.app("LE", w.app("Plus", x, y), I(4)), w.app("Not", w.app("Equals", x, y))]
            doms = {x: range(-1, 5), y: range(-1, 5)}
            goals = [("max x", Max, [x]), ("max y", Max, [y]), ("min x+y", Min, [w.app("Plus", x, y)]),
                     ("max 2x+y", Max, [w.app("Plus", w.app("Times", I(2), x), y)]),
                     ("minmax x,y", MinMax, [[x, y]]), ("maxmin x,y", MaxMin, [[x, y]])]
        elif scen == "int-unsat":
            asserts = box(x, 0, 3) + [w.app("LT", x, I(0))]
            doms = {x: range(-2, 5)}
            goals = [("max x", Max, [x]), ("min x", Min, [x])]
        elif scen in ("bv-unsigned", "bv-signed"):
            sg = scen == "bv-signed"
            asserts = [w.app("BVULE", u, w.bv_const(6, 3)), w.app("Not", w.app("Equals", u, w.bv_const(3, 3))),
                       w.app("Equals", v, w.app("BVAdd", u, w.bv_const(1, 3)))]
            doms = {u: range(8), v: range(8)}
            goals = [("max u", Max, [u, sg]), ("min u", Min, [u, sg]), ("max v", Max, [v, sg]), ("min v", Min, [v, sg]),
                     ("minmax u,v", MinMax, [[u, v], sg]), ("maxmin u,v", MaxMin, [[u, v], sg]),
                     # constant operands on both sides of the sign bit (6 = -2 signed)
                     ("maxmin u,v,6,3", MaxMin, [[u, v, w.bv_const(6, 3), w.bv_const(3, 3)], sg]),
                     ("minmax u,v,6,3", MinMax, [[u, v, w.bv_const(6, 3), w.bv_const(3, 3)], sg]),
                     ("minmax 1,u,5", MinMax, [[w.bv_const(1, 3), u, w.bv_const(5, 3)], sg])]
        elif scen == "bv-signed-front":
            # u + v = 0 over 3 signed bits (u != -4): no point dominates another, negative values on the front
            asserts = [w.app("Equals", w.app("BVAdd", u, v), w.bv_const(0, 3)), w.app("Not", w.app("Equals", u, w.bv_const(4, 3)))]
            doms = {u: range(8), v: range(8)}
            goals = [("max u", Max, [u, True]), ("max v", Max, [v, True]), ("max v", Max, [v, True])]
        elif scen.startswith("bv-signed-dominated"):
            # feasible points with dominated ones and negative coordinates; the oracle's enumeration order is
            # reversed in the -rev variant so that the search starts from either end
            pts = [(-3, 2), (0, 2), (2, -1), (-2, -2)]
            asserts = [w.app("Or", [w.app("And", w.app("Equals", u, w.bv_const(p_ % 8, 3)), w.app("Equals", v, w.bv_const(q_ % 8, 3)))
                                    for p_, q_ in pts])]
            rng = list(range(8))
            if scen.endswith("-rev"):
                rng = list(reversed(rng))
            doms = {u: rng, v: rng}
            goals = [("max u", Max, [u, True]), ("max v", Max, [v, True]), ("max v", Max, [v, True])]
        elif scen.startswith("bv-signed-extreme"):
            # the extreme values of the signed range (-4 and 3 on 3 bits) are feasible; the oracle enumerates from -1
            # downwards (resp. upwards), so the search reaches the most negative value one step at a time
            asserts = [w.app("Not", w.app("Equals", u, w.bv_const(0, 3))), w.app("Equals", v, w.app("BVNeg", u))]
            rng = list(range(8))
            if not scen.endswith("-fwd"):
                rng = list(reversed(rng))
            doms = {u: rng, v: rng}
            goals = [("min u", Min, [u, True]), ("max u", Max, [u, True]), ("min v", Min, [v, True]), ("max v", Max, [v, True]),
                     ("minmax u,v", MinMax, [[u, v], True]), ("maxmin u,v", MaxMin, [[u, v], True])]
        elif scen_ == "int-front":
            asserts = box(x, 0, 3) + box(y, 0, 3) + [w.app("LE", w.app("Plus", x, y), I(3))]
            doms = {x: range(-1, 5), y: range(-1, 5)}
            goals = [("max x", Max, [x]), ("max y", Max, [y]), ("max y", Max, [y])]
        else:
            asserts = [w.app("Or", w.app("Not", a), w.app("Not", b)), w.app("Implies", c, a)]
            doms = {a: (False, True), b: (False, True), c: (False, True)}
            goals = []
        syms = list(doms)

        def value_node(sym, val):
            so = w.nsort(sym)
            if so == refsem.BOOL:
                return w.bool_const(val)
            if so[0] == "BV":
                return w.bv_const(val, so[1])
            return w.int_const(val)

        def satisfying(formulas):
            res = []
            for combo in itertools.product(*[list(doms[s_]) for s_ in syms]):
                asg = dict(("sym:" + w.npayload(s_)[0], val) for s_, val in zip(syms, combo))
                try:
                    if all(sc.nodeval(w, g, asg) for g in formulas):
                        res.append((combo, asg))
                except (refsem.Undefined, sc.Malformed):
                    continue
            return res

        def oracle(it_, a_, k_):
            live = list(a_[0])
            sat = satisfying(live)
            if os.environ.get("SA_OPT_DEBUG"):
                print("oracle", _names(w, live)[-160:], "->", sat[0][0] if sat else None)
            if not sat:
                return None
            combo, _ = sat[0]
            return dict((s_, value_node(s_, val)) for s_, val in zip(syms, combo))
        logic = it.module_global(w.repo.modules["pysmt.logics"], "QF_LIA")
        cls = OPT_PROBE_MOD + (".BruteSUA" if mixin == "sua" else ".BruteIncremental")
        results = []

        def fresh():
            s_ = it.instantiate(ClassRef(cls), [w.env, logic, Prim(oracle, "oracle")], {})
            for g in asserts:
                it.call(it.getattr(s_, "add_assertion"), [g])
            if pre_query:
                it.call(it.getattr(s_, "is_sat"), [w.app("LE", x, I(2))])
            return s_

        def objective_value(term, asg, signed=False):
            if isinstance(term, tuple):
                vals = [objective_value(t_, asg, signed) for t_ in term[1]]
                return max(vals) if term[0] == "minmax" else min(vals)
            val = sc.nodeval(w, term, asg)
            so = w.nsort(term)
            if so[0] == "BV" and signed:
                return refsem.to_signed(val, so[1])
            return val

        def cost_val(node, term, signed):
            val = sc.nodeval(w, node, {})
            so = w.nsort(term[1][0] if isinstance(term, tuple) else term)
            if so[0] == "BV" and signed:
                return refsem.to_signed(val, so[1])
            return val

        def check_stack(s_, label):
            got = it.iterate(it.getattr(s_, "assertions"))
            if [id(g) for g in got] != [id(g) for g in asserts]:
                return "%s leaves the assertion stack changed: %s" % (label, _names(w, got))
            # the back-end's own stack: the levels opened for the search are closed again (a pop still pending
            # by design of the solver's lazy pop counts as closed)
            frames = len(s_.attrs.get("native", [[]])) - (1 if s_.attrs.get("pending_pop") is True else 0)
            if frames != 1:
                return "%s returns with %d level(s) still open on the solver's assertion stack" % (label, frames - 1)
            return None
        sat_all = satisfying(asserts)
        if scen == "bool-soft":
            soft = [(a, 2), (b, 3), (c, 1)]
            goal = it.call(MaxSMT, [])
            for fm, wt in soft:
                it.call(it.getattr(goal, "add_soft_clause"), [fm, wt])
            best = max(sum(wt for fm, wt in soft if sc.nodeval(w, fm, asg)) for _, asg in sat_all)
            for strategy in ("linear", "binary"):
                s_ = fresh()
                label = "optimize(MaxSMT a:2 b:3 c:1, %s)" % strategy
                try:
                    r = it.call(it.getattr(s_, "optimize"), [goal], {"strategy": strategy})
                    if r is None:
                        results.append((label, "bad", "reports no solution, the assertions are satisfiable"))
                        continue
                    model, cost = r
                    cval = sc.nodeval(w, cost, {}) if w.is_node(cost) else cost
                    prob = check_stack(s_, label)
                    if cval != best:
                        results.append((label, "bad", "returns cost %r, the maximal satisfied weight is %r" % (cval, best)))
                    elif prob:
                        results.append((label, "bad", prob))
                    else:
                        results.append((label, "ok", "cost %r" % (cval,)))
                except AbsRaise as ex:
                    results.append((label, "raise", "%s%s" % (ex.cls_name, proc._args(ex))))
                except Unsupported as ex:
                    results.append((label, "hang" if ("loop exceeds" in str(ex) or "step budget" in str(ex)) else "unsupported", str(ex)))
            # the same goal object, extended after it was used: the next call optimises the extended goal
            na = w.app("Not", a)
            it.call(it.getattr(goal, "add_soft_clause"), [na, 10])
            soft2 = soft + [(na, 10)]
            best2 = max(sum(wt for fm, wt in soft2 if sc.nodeval(w, fm, asg)) for _, asg in sat_all)
            s_ = fresh()
            label = "optimize(MaxSMT a:2 b:3 c:1, then extended by !a:10, linear)"
            try:
                r = it.call(it.getattr(s_, "optimize"), [goal], {"strategy": "linear"})
                if r is None:
                    results.append((label, "bad", "reports no solution, the assertions are satisfiable"))
                else:
                    cval = sc.nodeval(w, r[1], {}) if w.is_node(r[1]) else r[1]
                    if cval != best2:
                        results.append((label, "bad", "returns cost %r, the maximal satisfied weight of the extended goal is %r" % (cval, best2)))
                    else:
                        results.append((label, "ok", "cost %r" % (cval,)))
            except AbsRaise as ex:
                results.append((label, "raise", "%s%s" % (ex.cls_name, proc._args(ex))))
            except Unsupported as ex:
                results.append((label, "hang" if ("loop exceeds" in str(ex) or "step budget" in str(ex)) else "unsupported", str(ex)))
            return results
        goal_objs = []
        for name, ctor, args in goals:
            signed = bool(args[1]) if len(args) > 1 else False
            g = it.call(ctor, args)
            term = args[0]
            if isinstance(term, list):
                # min-max / max-min: the objective is the reference max (min) of the terms
                term = ("minmax" if ctor is MinMax else "maxmin", term)
            if sat_all:
                vals = [objective_value(term, asg, signed) for _, asg in sat_all]
                best = max(vals) if ctor in (Max, MaxMin) else min(vals)
            else:
                best = None
            goal_objs.append((name, g, term, signed, best, ctor in (Max, MaxMin)))
        # single-objective
        for name, g, term, signed, best, is_max in goal_objs:
            for strategy in ("linear", "binary"):
                s_ = fresh()
                label = "optimize(%s, %s)" % (name, strategy)
                try:
                    r = it.call(it.getattr(s_, "optimize"), [g], {"strategy": strategy})
                    prob = check_stack(s_, label)
                    if best is None:
                        results.append((label, "ok" if r is None and not prob else "bad",
                                        prob or ("no solution reported" if r is None else "returns a solution although the assertions are unsatisfiable")))
                        continue
                    if r is None:
                        results.append((label, "bad", "reports no solution, the assertions are satisfiable"))
                        continue
                    model, cost = r
                    cval = cost_val(cost, term, signed)
                    masg = dict(("sym:" + w.npayload(k_)[0], sc.nodeval(w, v_, {})) for k_, v_ in model.attrs["assignment"].items())
                    okm = all(sc.nodeval(w, g_, masg) for g_ in asserts) and objective_value(term, masg, signed) == cval
                    if cval != best:
                        results.append((label, "bad", "returns %r, the optimum is %r" % (cval, best)))
                    elif not okm:
                        results.append((label, "bad", "the model returned does not satisfy the assertions with the cost %r" % (cval,)))
                    elif prob:
                        results.append((label, "bad", prob))
                    else:
                        results.append((label, "ok", "optimum %r" % (cval,)))
                except AbsRaise as ex:
                    results.append((label, "raise", "%s%s" % (ex.cls_name, proc._args(ex))))
                except Unsupported as ex:
                    results.append((label, "hang" if ("loop exceeds" in str(ex) or "step budget" in str(ex)) else "unsupported", str(ex)))
        # lexicographic and boxed on the first two goals
        if len(goal_objs) >= 2:
            (n1, g1, t1, s1, b1, m1), (n2, g2, t2, s2, b2, m2) = goal_objs[0], goal_objs[2 if len(goal_objs) > 2 else 1]
            for strategy in ("linear", "binary"):
                s_ = fresh()
                label = "lexicographic_optimize([%s, %s], %s)" % (n1, n2, strategy)
                try:
                    r = it.call(it.getattr(s_, "lexicographic_optimize"), [[g1, g2]], {"strategy": strategy})
                    prob = check_stack(s_, label)
                    if not sat_all:
                        results.append((label, "ok" if r is None and not prob else "bad", prob or "no solution"))
                    elif r is None:
                        results.append((label, "bad", "reports no solution, the assertions are satisfiable"))
                    else:
                        model, costs = r
                        cv = [cost_val(c_, t_, sg_) for c_, t_, sg_ in zip(it.iterate(costs), (t1, t2), (s1, s2))]
                        first = [asg for _, asg in sat_all if objective_value(t1, asg, s1) == b1]
                        v2 = [objective_value(t2, asg, s2) for asg in first]
                        want = [b1, (max(v2) if m2 else min(v2))]
                        if cv != want:
                            results.append((label, "bad", "returns %r, the lexicographic optimum is %r" % (cv, want)))
                        elif prob:
                            results.append((label, "bad", prob))
                        else:
                            results.append((label, "ok", "optimum %r" % (cv,)))
                except AbsRaise as ex:
                    results.append((label, "raise", "%s%s" % (ex.cls_name, proc._args(ex))))
                except Unsupported as ex:
                    results.append((label, "hang" if ("loop exceeds" in str(ex) or "step budget" in str(ex)) else "unsupported", str(ex)))
                s_ = fresh()
                label = "boxed_optimize([%s, %s], %s)" % (n1, n2, strategy)
                try:
                    r = it.call(it.getattr(s_, "boxed_optimize"), [[g1, g2]], {"strategy": strategy})
                    prob = check_stack(s_, label)
                    if not sat_all:
                        results.append((label, "ok" if r is None and not prob else "bad", prob or "no solution"))
                    elif not isinstance(r, dict):
                        results.append((label, "bad", "returns %r" % (r,)))
                    else:
                        cv = []
                        for g_, t_, sg_ in ((g1, t1, s1), (g2, t2, s2)):
                            ent = r.get(g_)
                            cv.append(cost_val(ent[1], t_, sg_) if ent else None)
                        if cv != [b1, b2]:
                            results.append((label, "bad", "returns %r, the separate optima are %r" % (cv, [b1, b2])))
                        elif prob:
                            results.append((label, "bad", prob))
                        else:
                            results.append((label, "ok", "optima %r" % (cv,)))
                except AbsRaise as ex:
                    results.append((label, "raise", "%s%s" % (ex.cls_name, proc._args(ex))))
                except Unsupported as ex:
                    results.append((label, "hang" if ("loop exceeds" in str(ex) or "step budget" in str(ex)) else "unsupported", str(ex)))
            # Pareto front
            s_ = fresh()
            label = "pareto_optimize([%s, %s])" % (n1, n2)
            try:
                gen = it.call(it.getattr(s_, "pareto_optimize"), [[g1, g2]])
                pts = []
                for item in it.iterate(gen):
                    model, costs = item
                    pts.append(tuple(cost_val(c_, t_, sg_) for c_, t_, sg_ in zip(it.iterate(costs), (t1, t2), (s1, s2))))
                prob = check_stack(s_, label)
                allp = set((objective_value(t1, asg, s1), objective_value(t2, asg, s2)) for _, asg in sat_all)

                def dominates(p, q):
                    b1_ = p[0] >= q[0] if m1 else p[0] <= q[0]
                    b2_ = p[1] >= q[1] if m2 else p[1] <= q[1]
                    return b1_ and b2_ and p != q
                front = set(p for p in allp if not any(dominates(q, p) for q in allp))
                if set(pts) != front or len(pts) != len(set(pts)):
                    results.append((label, "bad", "yields %s, the Pareto front is %s" % (sorted(pts), sorted(front))))
                elif prob:
                    results.append((label, "bad", prob))
                else:
                    results.append((label, "ok", "front %s" % (sorted(front),)))
            except AbsRaise as ex:
                results.append((label, "raise", "%s%s" % (ex.cls_name, proc._args(ex))))
            except Unsupported as ex:
                results.append((label, "hang" if ("loop exceeds" in str(ex) or "step budget" in str(ex)) else "unsupported", str(ex)))
        return results

    def post(w, f, val, facts):
        return proc.ProcResult(shape, "valid", val)
    res = proc.run_proc(shape, call, post=post, services="full", max_paths=4,
                        interp_kwargs={"max_steps": 30000000, "max_loop": 300})
    if len(res) != 1 or res[0].kind != "valid":
        r = res[0]
        return [(scen, mixin, "%s/%s" % (scen, mixin), "unsupported", "%s %s" % (r.kind, str(r.detail)[:300]))]
    return [(scen, mixin) + x for x in res[0].detail]


_OCACHE = {}


def optimizer_results(repo, tier="quick"):
    key = (repo.root, tier)
    if key not in _OCACHE:
        jobs = [(s_, m) for s_ in _opt_scenarios() for m in ("sua", "inc")]
        out = []
        for r in parallel_map(_opt_job, jobs):
            out.extend(r)
        _OCACHE[key] = out
    return _OCACHE[key]
