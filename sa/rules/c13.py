"""C13 -- detected logic covers the formula; logic ordering and selection are sound."""
import ast

from ..common import (get_repo, get_ops, get_tables, short, norm, method_loc, calls_in, attr_tail,
                      parents, names_in, handler_funcs, dispatch_rule, stores_in)

THEORY_O = "pysmt.oracles.TheoryOracle"
THEORY = "pysmt.logics.Theory"
LOGIC = "pysmt.logics.Logic"

EXPLANATION = (
    "Abstract interpretation of pysmt/oracles.py and pysmt/logics.py.  TheoryOracle interpreted on operator "
    "skeletons (every operator family, quantifiers and Boolean terms in unusual positions) reports a theory "
    "that enables every feature the skeleton uses, computed independently from sorts and operators (R1d).  The "
    "module's own logic tables are obtained by interpreting its top level (the loop deriving the extended logics "
    "included); on those concrete objects the real __le__ / __lt__ / __eq__ / combine / get_closer_logic / "
    "most_generic_logic are interpreted: <= is reflexive, antisymmetric and transitive on all distinct theories "
    "(all triples) and consistent on all pairs of logics, combine(a, b) is above a and b for all pairs, and for "
    "every target logic and three supported sets get_closer_logic returns a supported logic above the target "
    "with no supported logic strictly in between, or raises exactly when none is above (R2).  Exhaustive "
    "dispatch (R0); no two named logics share (theory, quantifier-freeness) (R3); callers obtain the logic "
    "they label with through the selection functions only (R5).")
NOT_DECIDED = ["order axioms on theories that are not the theory of any named logic (arbitrary flag valuations)"]


def run(ctx):
    repo, ops, ht = get_repo(), get_ops(), get_tables()
    ctx.analysed["modules"] = ["pysmt/oracles.py", "pysmt/logics.py", "pysmt/factory.py", "pysmt/smtlib/script.py"]

    if ctx.want("R0"):
        rs = ctx.rule("R0", "exhaustive dispatch of TheoryOracle")
        dispatch_rule(ctx, rs, THEORY_O)
        ctx.floor(rs, 60)

    if ctx.want("R3"):
        rs = ctx.rule("R3", "no two named logics share (theory, quantifier-freeness)")
        m = repo.module("pysmt.logics")
        flags = ["arrays", "arrays_const", "bit_vectors", "floating_point", "integer_arithmetic", "real_arithmetic",
                 "integer_difference", "real_difference", "linear", "uninterpreted", "custom_type", "strings"]
        lits = {}
        for st in m.tree.body:
            if isinstance(st, ast.Assign) and isinstance(st.value, ast.Call) and attr_tail(st.value) == "Logic":
                kw = {}
                okk = True
                for k in st.value.keywords:
                    if k.arg in ("description",):
                        continue
                    if isinstance(k.value, ast.Constant):
                        kw[k.arg] = k.value.value
                    else:
                        okk = False
                if not okk or "name" not in kw:
                    rs.unrec("Logic literal %s not constant" % short(st))
                    continue
                th = tuple((kw.get(fl, True) if fl == "linear" else bool(kw.get(fl, False))) for fl in flags)
                lits[st.targets[0].id] = (kw["name"], th, bool(kw.get("quantifier_free", False)))
        ctx.analysed["logic_literals"] = len(lits)
        # membership of LOGICS: names listed in the frozenset literals
        def names_of(var, seen=()):
            out = set()
            b = m.ns.get(var)
            if not b or b[0] != "assign":
                return out
            for st in m.tree.body:
                if isinstance(st, ast.Assign) and any(isinstance(t, ast.Name) and t.id == var for t in st.targets):
                    for n in ast.walk(st.value):
                        if isinstance(n, ast.Name) and n.id in lits:
                            out.add(n.id)
                        elif isinstance(n, ast.Name) and n.id.isupper() and n.id != var and n.id not in seen and n.id in m.ns:
                            out |= names_of(n.id, seen + (var,))
            return out
        members = names_of("LOGICS")
        pysmt_members = names_of("PYSMT_LOGICS")
        # generated variants (recognised loop: +"t" with custom_type, +"*" with arrays_const)
        gen = {}
        loop = [st for st in m.tree.body if isinstance(st, ast.For) and norm(st.iter) == "PYSMT_LOGICS"]
        recognised = False
        if loop:
            t = norm(loop[0])
            recognised = ("if not l.theory.custom_type:" in t and "new_theory.custom_type = True" in t and
                          "name=l.name + 't'" in t and "if l.theory.arrays:" in t and
                          "new_theory.arrays_const = True" in t and "name=l.name + '*'" in t)
        if loop and not recognised:
            rs.unrec("extension loop over PYSMT_LOGICS not in the recognised form")
        if recognised:
            ci, ai, ac = flags.index("custom_type"), flags.index("arrays"), flags.index("arrays_const")
            for v in sorted(pysmt_members):
                name, th, qf = lits[v]
                if not th[ci]:
                    t2 = list(th); t2[ci] = True
                    gen[name + "t"] = (name + "t", tuple(t2), qf)
                if th[ai]:
                    t2 = list(th); t2[ac] = True
                    gen[name + "*"] = (name + "*", tuple(t2), qf)
        universe = dict((lits[v][0], lits[v]) for v in members)
        universe.update(gen)
        ctx.analysed["named_logics"] = len(universe)
        bykey = {}
        for name, (nm, th, qf) in sorted(universe.items()):
            bykey.setdefault((th, qf), []).append(nm)
        for key, names in sorted(bykey.items(), key=lambda kv: kv[1]):
            if len(set(names)) == 1:
                rs.ok({"logic": names[0]})
            else:
                ctx.finding(rs, "pysmt.logics|same-theory|%s" % ",".join(sorted(set(names))),
                            "logics %s have the same theory and quantifier-freeness: each is <= the other, so the "
                            "order is not antisymmetric and 'the closest logic' is ambiguous" % sorted(set(names)),
                            "pysmt/logics.py:1")
        # class invariant on literals: difference => arithmetic, arrays_const => arrays
        for v, (nm, th, qf) in sorted(lits.items()):
            d = dict(zip(flags, th))
            bad = []
            if d["integer_difference"] and not d["integer_arithmetic"]:
                bad.append("integer_difference without integer_arithmetic")
            if d["real_difference"] and not d["real_arithmetic"]:
                bad.append("real_difference without real_arithmetic")
            if d["arrays_const"] and not d["arrays"]:
                bad.append("arrays_const without arrays")
            if bad:
                ctx.finding(rs, "pysmt.logics|invariant|%s" % nm, "logic %s violates the theory invariant: %s" % (nm, bad),
                            "pysmt/logics.py:1")
        ctx.floor(rs, 45)

    if ctx.want("R5"):
        rs = ctx.rule("R5", "callers label with a logic obtained through the selection functions")
        mm, f = repo.function("pysmt.oracles.get_logic")
        if "return get_closer_pysmt_logic(logic)" in norm(f) and "env.qfo.is_qf(formula)" in norm(f) and \
                "env.theoryo.get_theory(formula)" in norm(f) and "quantifier_free=qf" in norm(f) and "theory=theory" in norm(f):
            rs.ok({"get_logic": "closest pySMT logic of (detected theory, detected qf)"})
        else:
            rs.unrec("oracles.get_logic shape")
        mm, f = repo.function("pysmt.smtlib.script.smtlibscript_from_formula")
        if "f_logic = get_logic(formula)" in norm(f) and "smt_logic = get_closer_smtlib_logic(f_logic)" in norm(f):
            rs.ok({"smtlibscript_from_formula": "get_closer_smtlib_logic(get_logic(formula))"})
        else:
            rs.unrec("smtlibscript_from_formula logic selection")
        mm, f = repo.function("pysmt.logics.get_closer_pysmt_logic")
        if "return get_closer_logic(PYSMT_LOGICS, target_logic)" in norm(f):
            rs.ok({"get_closer_pysmt_logic": "get_closer_logic(PYSMT_LOGICS, target)"})
        else:
            rs.unrec("get_closer_pysmt_logic")
        ctx.floor(rs, 2)

    from . import c13_order
    c13_order.run(ctx)
    from . import c13_deep
    c13_deep.run(ctx)
