"""C13 -- detected logic covers the formula; logic ordering and selection are sound."""
import ast

from ..common import (get_repo, get_ops, get_tables, short, norm, method_loc, calls_in, attr_tail,
                      parents, names_in, handler_funcs, dispatch_rule, stores_in)

THEORY_O = "pysmt.oracles.TheoryOracle"
THEORY = "pysmt.logics.Theory"
LOGIC = "pysmt.logics.Logic"

EXPLANATION = (
    "Static analysis of pysmt/oracles.py and pysmt/logics.py: TheoryOracle interpreted from source on "
    "operator skeletons (every operator family, quantifiers and Boolean terms in unusual positions) "
    "reports a theory that enables every feature the skeleton uses, computed independently from sorts "
    "and operators (R1d); exhaustive dispatch (R0); no two "
    "named logics share (theory, quantifier-freeness) (R3); get_closer_logic returns a minimal "
    "element of {l | target <= l} with a deterministic tie-break and most_generic_logic the unique "
    "maximum (R4, comprehension predicates in relational normal form); callers obtain the logic they "
    "label with through these functions only (R5).")
NOT_DECIDED = ["the partial-order axioms of Theory.__le__/combine over all flag valuations (pinned by the test-suite; "
               "independent seeded changes there were all caught by existing tests)",
               "minimality for every subset of supported-logic lists beyond the relational form of the selection (R4)"]


def run(ctx):
    repo, ops, ht = get_repo(), get_ops(), get_tables()
    ctx.analysed["modules"] = ["pysmt/oracles.py", "pysmt/logics.py", "pysmt/factory.py", "pysmt/smtlib/script.py"]

    if ctx.want("R0"):
        rs = ctx.rule("R0", "exhaustive dispatch of TheoryOracle")
        dispatch_rule(ctx, rs, THEORY_O)
        ctx.floor(rs, 60)

    if ctx.want("R3"):
        rs = ctx.rule("R3", "no two named logics share (theory, quantifier-freeness)")
        m = repo.module("pysmt.logics")
        flags = ["arrays", "arrays_const", "bit_vectors", "floating_point", "integer_arithmetic", "real_arithmetic",
                 "integer_difference", "real_difference", "linear", "uninterpreted", "custom_type", "strings"]
        lits = {}
        for st in m.tree.body:
            if isinstance(st, ast.Assign) and isinstance(st.value, ast.Call) and attr_tail(st.value) == "Logic":
                kw = {}
                okk = True
                for k in st.value.keywords:
                    if k.arg in ("description",):
                        continue
                    if isinstance(k.value, ast.Constant):
                        kw[k.arg] = k.value.value
                    else:
                        okk = False
                if not okk or "name" not in kw:
                    rs.unrec("Logic literal %s not constant" % short(st))
                    continue
                th = tuple((kw.get(fl, True) if fl == "linear" else bool(kw.get(fl, False))) for fl in flags)
                lits[st.targets[0].id] = (kw["name"], th, bool(kw.get("quantifier_free", False)))
        ctx.analysed["logic_literals"] = len(lits)
        # membership of LOGICS: names listed in the frozenset literals
        def names_of(var, seen=()):
            out = set()
            b = m.ns.get(var)
            if not b or b[0] != "assign":
                return out
            for st in m.tree.body:
                if isinstance(st, ast.Assign) and any(isinstance(t, ast.Name) and t.id == var for t in st.targets):
                    for n in ast.walk(st.value):
                        if isinstance(n, ast.Name) and n.id in lits:
                            out.add(n.id)
                        elif isinstance(n, ast.Name) and n.id.isupper() and n.id != var and n.id not in seen and n.id in m.ns:
                            out |= names_of(n.id, seen + (var,))
            return out
        members = names_of("LOGICS")
        pysmt_members = names_of("PYSMT_LOGICS")
        # generated variants (recognised loop: +"t" with custom_type, +"*" with arrays_const)
        gen = {}
        loop = [st for st in m.tree.body if isinstance(st, ast.For) and norm(st.iter) == "PYSMT_LOGICS"]
        recognised = False
        if loop:
            t = norm(loop[0])
            recognised = ("if not l.theory.custom_type:" in t and "new_theory.custom_type = True" in t and
                          "name=l.name + 't'" in t and "if l.theory.arrays:" in t and
                          "new_theory.arrays_const = True" in t and "name=l.name + '*'" in t)
        if loop and not recognised:
            rs.unrec("extension loop over PYSMT_LOGICS not in the recognised form")
        if recognised:
            ci, ai, ac = flags.index("custom_type"), flags.index("arrays"), flags.index("arrays_const")
            for v in sorted(pysmt_members):
                name, th, qf = lits[v]
                if not th[ci]:
                    t2 = list(th); t2[ci] = True
                    gen[name + "t"] = (name + "t", tuple(t2), qf)
                if th[ai]:
                    t2 = list(th); t2[ac] = True
                    gen[name + "*"] = (name + "*", tuple(t2), qf)
        universe = dict((lits[v][0], lits[v]) for v in members)
        universe.update(gen)
        ctx.analysed["named_logics"] = len(universe)
        bykey = {}
        for name, (nm, th, qf) in sorted(universe.items()):
            bykey.setdefault((th, qf), []).append(nm)
        for key, names in sorted(bykey.items(), key=lambda kv: kv[1]):
            if len(set(names)) == 1:
                rs.ok({"logic": names[0]})
            else:
                ctx.finding(rs, "pysmt.logics|same-theory|%s" % ",".join(sorted(set(names))),
                            "logics %s have the same theory and quantifier-freeness: each is <= the other, so the "
                            "order is not antisymmetric and 'the closest logic' is ambiguous" % sorted(set(names)),
                            "pysmt/logics.py:1")
        # class invariant on literals: difference => arithmetic, arrays_const => arrays
        for v, (nm, th, qf) in sorted(lits.items()):
            d = dict(zip(flags, th))
            bad = []
            if d["integer_difference"] and not d["integer_arithmetic"]:
                bad.append("integer_difference without integer_arithmetic")
            if d["real_difference"] and not d["real_arithmetic"]:
                bad.append("real_difference without real_arithmetic")
            if d["arrays_const"] and not d["arrays"]:
                bad.append("arrays_const without arrays")
            if bad:
                ctx.finding(rs, "pysmt.logics|invariant|%s" % nm, "logic %s violates the theory invariant: %s" % (nm, bad),
                            "pysmt/logics.py:1")
        ctx.floor(rs, 45)

    if ctx.want("R4"):
        rs = ctx.rule("R4", "selection: minimal element above the target, deterministic; unique maximum")
        mm, f = repo.function("pysmt.logics.get_closer_logic")
        comps = [n for n in ast.walk(f) if isinstance(n, ast.ListComp)]
        cand = [c for c in comps if norm(c.generators[0].iter) == "supported_logics"]
        if cand and len(cand[0].generators[0].ifs) == 1:
            cond = norm(cand[0].generators[0].ifs[0])
            var = norm(cand[0].generators[0].target)
            if cond in ("logic <= %s" % var, "%s >= logic" % var, "logic.__le__(%s)" % var):
                rs.ok({"candidates": "{l in supported | target <= l}"})
            else:
                ctx.finding(rs, "pysmt.logics.get_closer_logic|candidates",
                            "candidate set is {%s | %s}; it must be the supported logics above the target (logic <= l)"
                            % (var, cond), repo.loc(mm, cand[0]))
        else:
            rs.unrec("candidate comprehension")
        mins = [c for c in comps if norm(c.generators[0].iter) == "candidates"]
        if mins and len(mins[0].generators[0].ifs) == 1:
            cond = mins[0].generators[0].ifs[0]
            var = norm(mins[0].generators[0].target)
            t = norm(cond)
            # not any(l != k and k <= l for k in candidates)
            good = False
            if isinstance(cond, ast.UnaryOp) and isinstance(cond.op, ast.Not) and isinstance(cond.operand, ast.Call) \
                    and attr_tail(cond.operand) == "any":
                g = cond.operand.args[0]
                if isinstance(g, ast.GeneratorExp) and norm(g.generators[0].iter) == "candidates":
                    k = norm(g.generators[0].target)
                    parts = set(norm(v) for v in g.elt.values) if isinstance(g.elt, ast.BoolOp) and isinstance(g.elt.op, ast.And) else set()
                    ne = {"%s != %s" % (var, k), "%s != %s" % (k, var)}
                    le = {"%s <= %s" % (k, var), "%s >= %s" % (var, k)}
                    lt = {"%s < %s" % (k, var), "%s > %s" % (var, k)}
                    if (parts & ne and parts & le and len(parts) == 2) or norm(g.elt) in lt:
                        good = True
                    elif parts & ne and ({"%s <= %s" % (var, k), "%s >= %s" % (k, var)} & parts):
                        ctx.finding(rs, "pysmt.logics.get_closer_logic|maximal-not-minimal",
                                    "the selection keeps candidates that no other candidate is above (maximal), "
                                    "not those that no other candidate is below (minimal): the most general supported "
                                    "logic is returned instead of the closest", repo.loc(mm, cond))
                        good = None
            if good:
                rs.ok({"selection": "candidates with no other candidate below them (minimal)"})
            elif good is False:
                rs.unrec("minimality comprehension: %s" % t)
        else:
            rs.unrec("minimality comprehension")
        rets = [n for n in ast.walk(f) if isinstance(n, ast.Return)]
        if rets and norm(rets[-1].value).startswith("sorted(res, key=") and norm(rets[-1].value).endswith("[0]"):
            rs.ok({"tie_break": norm(rets[-1].value)})
        else:
            rs.unrec("tie-break")
        if "raise NoLogicAvailableError" in norm(f) and "len(candidates) == 0" in norm(f):
            rs.ok({"no candidate": "raises NoLogicAvailableError"})
        else:
            rs.unrec("empty candidate set handling")
        mm, f = repo.function("pysmt.logics.most_generic_logic")
        comps = [n for n in ast.walk(f) if isinstance(n, ast.ListComp)]
        if comps and norm(comps[0].generators[0].ifs[0]) in ("all((l >= x for x in logics))", "all((x <= l for x in logics))"):
            rs.ok({"most_generic": "{l | forall x. l >= x}"})
        elif comps:
            ctx.finding(rs, "pysmt.logics.most_generic_logic|predicate",
                        "most_generic_logic keeps %s" % norm(comps[0].generators[0].ifs[0]), repo.loc(mm, comps[0]))
        if "if len(res) != 1:" in norm(f) and "raise NoLogicAvailableError" in norm(f):
            rs.ok({"most_generic": "unique maximum or error"})
        else:
            rs.unrec("most_generic_logic uniqueness check")
        # Logic.__le__ = theory order x reversed qf order
        q, f = repo.method(LOGIC, "__le__")
        t = norm(f)
        if "self.theory <= other.theory and self.quantifier_free >= other.quantifier_free" in t:
            rs.ok({"Logic.__le__": "theory <= and quantifier_free >="})
        else:
            rets = [n for n in ast.walk(f) if isinstance(n, ast.Return)]
            rs.unrec("Logic.__le__: %s" % [norm(r.value) for r in rets])
        ctx.floor(rs, 5)

    if ctx.want("R5"):
        rs = ctx.rule("R5", "callers label with a logic obtained through the selection functions")
        mm, f = repo.function("pysmt.oracles.get_logic")
        if "return get_closer_pysmt_logic(logic)" in norm(f) and "env.qfo.is_qf(formula)" in norm(f) and \
                "env.theoryo.get_theory(formula)" in norm(f) and "quantifier_free=qf" in norm(f) and "theory=theory" in norm(f):
            rs.ok({"get_logic": "closest pySMT logic of (detected theory, detected qf)"})
        else:
            rs.unrec("oracles.get_logic shape")
        mm, f = repo.function("pysmt.smtlib.script.smtlibscript_from_formula")
        if "f_logic = get_logic(formula)" in norm(f) and "smt_logic = get_closer_smtlib_logic(f_logic)" in norm(f):
            rs.ok({"smtlibscript_from_formula": "get_closer_smtlib_logic(get_logic(formula))"})
        else:
            rs.unrec("smtlibscript_from_formula logic selection")
        mm, f = repo.function("pysmt.logics.get_closer_pysmt_logic")
        if "return get_closer_logic(PYSMT_LOGICS, target_logic)" in norm(f):
            rs.ok({"get_closer_pysmt_logic": "get_closer_logic(PYSMT_LOGICS, target)"})
        else:
            rs.unrec("get_closer_pysmt_logic")
        ctx.floor(rs, 2)

    from . import c13_deep
    c13_deep.run(ctx)
