"""C13 -- detected logic covers the formula; logic ordering and selection are sound."""
import ast

from ..common import (get_repo, get_ops, get_tables, short, norm, method_loc, calls_in, attr_tail,
                      parents, names_in, handler_funcs, dispatch_rule, stores_in)

THEORY_O = "pysmt.oracles.TheoryOracle"
THEORY = "pysmt.logics.Theory"
LOGIC = "pysmt.logics.Logic"

EXPLANATION = (
    "Abstract interpretation of pysmt/oracles.py and pysmt/logics.py.  TheoryOracle interpreted on operator "
    "skeletons (every operator family, quantifiers and Boolean terms in unusual positions) reports a theory "
    "that enables every feature the skeleton uses, computed independently from sorts and operators (R1d).  The "
    "module's own logic tables are obtained by interpreting its top level (the loop deriving the extended logics "
    "included); on those concrete objects the real __le__ / __lt__ / __eq__ / combine / get_closer_logic / "
    "most_generic_logic are interpreted: <= is reflexive, antisymmetric and transitive on all distinct theories "
    "(all triples) and consistent on all pairs of logics, combine(a, b) is above a and b for all pairs, and for "
    "every target logic and three supported sets get_closer_logic returns a supported logic above the target "
    "with no supported logic strictly in between, or raises exactly when none is above; Factory._get_solver_class, "
    "interpreted over three probe solver classes that declare a few logics, creates the solver - selected by name "
    "and by preference, for every requested logic - with one of its own logics, above the request and minimal (R2).  Exhaustive "
    "dispatch (R0).  The labels callers attach - get_logic(f) and the set-logic command written by "
    "smtlibscript_from_formula(f) - are obtained by interpreting those functions on the same skeletons; the "
    "logic they name enables every feature, is non-linear when the term is and is not quantifier-free when the "
    "skeleton has a quantifier (R5).  The factory's one-shot shortcuts (is_sat, is_valid, is_unsat, get_model, "
    "get_implicant, get_unsat_core) are interpreted over recording probe solvers that declare partly incomparable "
    "logics: the logic a solver is created with enables every feature of every formula handed to it, also for "
    "clause lists whose members have incomparable logics (R6).  The logic a MaxSMT goal reports enables the features of its term after each extension of the goal (R7).")
NOT_DECIDED = ["order axioms on theories that are not the theory of any named logic (arbitrary flag valuations)"]


def run(ctx):
    repo, ops, ht = get_repo(), get_ops(), get_tables()
    ctx.analysed["modules"] = ["pysmt/oracles.py", "pysmt/logics.py", "pysmt/factory.py", "pysmt/smtlib/script.py"]

    if ctx.want("R0"):
        rs = ctx.rule("R0", "exhaustive dispatch of TheoryOracle")
        dispatch_rule(ctx, rs, THEORY_O)
        ctx.floor(rs, 60)

    from . import c13_order
    c13_order.run(ctx)
    from . import c13_deep
    c13_deep.run(ctx)
    from . import c13_factory
    c13_factory.run(ctx)
