"""C08 rule R1: every operator token of the parser's table, applied to operands of every sort family the standard
gives it, is read as the standard's function.

The token list is the union of the reference list (tables/smtlib.py: the spellings accepted on the pinned tree) and
the keys of the `interpreted` table of an SmtLibParser instance obtained by *interpreting* its constructor.  For each
token, applications to operand tuples of a menu (Bool / Int / Real / bit-vector / String / array operands, arity 1
to 3, mixed tuples for ite / select / store / the string functions) are generated; the independent reader
(sa/refsmt.py) selects the well-sorted ones and says what they denote; each selected script goes through the
interpreted parser (tokeniser, table look-up, adapters such as the `-` / `=` disambiguation and the Int-to-Real
promotion, constructors, type check) and the asserted term must denote the same thing for every value of the
operands over small domains.  Nothing of the table's source shape is looked at."""
from ..absint import Interp, Explorer, Unsupported, AObj
from ..common import get_repo, parallel_map
from ..world import World
from .. import refsmt
from ..tables import smtlib as T
from . import text_deep as td

PARSER = "pysmt.smtlib.parser.parser.SmtLibParser"

DECLS = ("(declare-fun a () Bool)(declare-fun b () Bool)(declare-fun x () Int)(declare-fun y () Int)"
         "(declare-fun r () Real)(declare-fun s () Real)(declare-fun u () (_ BitVec 4))(declare-fun v () (_ BitVec 4))"
         "(declare-fun st () String)(declare-fun tt () String)(declare-fun m () (Array Int Int))"
         "(declare-fun zi () Int)(declare-fun zr () Real)(declare-fun zu () (_ BitVec 4))(declare-fun z1 () (_ BitVec 1))"
         "(declare-fun z8 () (_ BitVec 8))(declare-fun zs () String)(declare-fun zm () (Array Int Int))")

OPERANDS = [
    ["a"], ["x"], ["r"], ["u"], ["st"],
    ["a", "b"], ["x", "y"], ["r", "s"], ["u", "v"], ["st", "tt"], ["m", "x"], ["st", "x"], ["m", "zm"],
    ["a", "b", "a"], ["x", "y", "x"], ["r", "s", "r"], ["u", "v", "u"], ["st", "tt", "st"], ["st", "tt", "x"],
    ["st", "x", "y"], ["m", "x", "y"], ["a", "x", "y"], ["a", "r", "s"], ["a", "u", "v"], ["a", "st", "tt"],
    ["x", "3"], ["r", "2.0"], ["x", "(- 2)"],
    # constant operands: the adapters fold some of them while reading
    ["1", "3"], ["7", "2"], ["(- 7)", "2"], ["1.5", "0.5"], ["1.0", "3.0"], ["0", "5"], ["3"], ["(- 3)"], ["2.5"],
    ["#b0101", "#b0011"], ["#b1000", "#b0001"], ["#b1000"], ["\"ab\"", "\"b\""], ["\"abc\"", "\"c\"", "1"], ["\"12\""],
    ["true", "false"], ["false", "a"],
]
RESULTS = [None, "zi", "zr", "zu", "z1", "z8", "zs", "zm"]       # None: the application itself is asserted


def parser_tokens():
    """Keys of the `interpreted` table of a parser instance, by interpreting SmtLibParser.__init__."""
    def one(ex):
        it = Interp(ex)
        w = td.TextWorld().attach(it)
        from ..proc import setup_env_full
        setup_env_full(w)
        ps = w.new_walker(PARSER, w.env)
        tab = ps.attrs.get("interpreted")
        return sorted(k for k in tab if isinstance(k, str)) if isinstance(tab, dict) else None
    paths = Explorer(max_paths=2).run(one)
    for p in paths:
        if p.kind == "return" and p.value is not None:
            return p.value
    raise Unsupported("the parser's token table could not be obtained by interpreting its constructor: %s"
                      % [(p.kind, str(p.value)[:120]) for p in paths])


EXTENSIONS = {"<->": "="}        # pySMT spellings outside the standard -> the standard symbol they stand for


def token_scripts(tok):
    out = []
    std = EXTENSIONS.get(tok, tok)
    for ops in OPERANDS:
        if tok == "<->" and not set(ops) <= {"a", "b"}:
            continue            # the extension is Boolean equivalence only
        app = "(%s %s)" % (std, " ".join(ops))
        for z in RESULTS:
            body = app if z is None else "(= %s %s)" % (app, z)
            text = DECLS + "(assert %s)" % body
            try:
                refsmt.read_script(text)
            except refsmt.SmtError:
                continue
            mine = text if std == tok else DECLS + "(assert %s)" % body.replace("(%s " % std, "(%s " % tok, 1)
            out.append(("%s %s%s" % (tok, " ".join(ops), "" if z is None else " = " + z), mine, text, ops))
            break       # one result form per operand tuple
    return out


def jobs():
    toks = sorted((set(T.TOKENS) | set(parser_tokens())) - set(T.SPECIAL_TOKENS))
    out, none = [], []
    for tok, sc_ in zip(toks, parallel_map(token_scripts, toks)):
        if not sc_:
            none.append(tok)
        for name, text, ref_text, ops in sc_:
            out.append((tok, name, text, ref_text, ops))
    return toks, out, none


def _job(job):
    tok, name, text, ref_text, ops = job
    r = td._import_job((name, text, "accept", ref_text, False))
    return (tok, name, r["kind"], r["detail"], ops)


def results():
    toks, js, none = jobs()
    first = [_job(js[0])] if js else []
    return toks, none, first + parallel_map(_job, js[1:])


NEW_SPELLINGS = {"str.to_int", "str.from_int"}      # SMT-LIB 2.6 spellings the pinned tree does not accept
NO_NARY = {"-", "/", "<", "<=", ">", ">=", "=", "<->", "=>", "xor", "bvxor"}
INT_OPERANDS = {"x", "y", "3", "(- 2)"}


def tolerated(tok, ops):
    """Well-formed applications pySMT rejects *with an error* on the pinned tree (never misread): the property
    allows the rejection; anything else that is rejected was handled before."""
    if tok in NEW_SPELLINGS:
        return "SMT-LIB 2.6 spelling, not in the token table of the pinned tree"
    if len(ops) == 3 and tok in NO_NARY:
        return "chained / n-ary / right-associative form is not implemented"
    if tok == "/" and all(o in INT_OPERANDS for o in ops):
        return "division of Int operands: the reference reader promotes them, pySMT rejects the mixed typing"
    if tok == "pow":
        return "pow is not a standard symbol; pySMT accepts it for Real bases and constant exponents only"
    return None


def run(ctx, rs):
    toks, none, res = results()
    ctx.analysed["operator_tokens"] = toks
    for tok in none:
        rs.unrec("token '%s': no application of the operand menu is well-sorted for the reference reader" % tok)
    for tok, name, kind, detail, ops in res:
        if kind == "valid":
            rs.ok({"application": name, "result": detail})
        elif kind == "rejected-valid" and tolerated(tok, ops):
            rs.ok({"application": name, "result": "rejected with an error (%s)" % tolerated(tok, ops)})
        elif kind == "unsupported":
            rs.unrec("%s: %s" % (name, detail[:160]))
        elif kind == "rejected-valid":
            ctx.finding(rs, "token|%s|rejected" % name, "(%s) is well-formed and is rejected: %s" % (name, detail),
                        "pysmt/smtlib/parser/parser.py")
        else:
            ctx.finding(rs, "token|%s" % name, "(%s) is misread: %s" % (name, detail), "pysmt/smtlib/parser/parser.py")
    ctx.floor(rs, 150)


# ---------------------------------------------------------------------------------------------- commands (R7)
_D = "(declare-fun a () Bool)(declare-fun x () Int)"
COMMAND_SCRIPTS = {
    "assert": _D + "(assert a)",
    "check-sat": _D + "(assert a)(check-sat)",
    "check-sat-assuming": _D + "(check-sat-assuming (a))",
    "declare-const": "(declare-const k Int)(assert (< k 1))",
    "declare-fun": "(declare-fun f (Int) Int)(assert (= (f 1) 2))",
    "declare-sort": "(declare-sort U 0)(declare-fun e () U)(assert (= e e))",
    "define-fun": _D + "(define-fun g ((p Int)) Int (+ p 1))(assert (= (g x) 2))",
    "define-funs-rec": "(define-funs-rec ((h ((p Int)) Int)) ((+ p 1)))",
    "define-fun-rec": "(define-fun-rec h ((p Int)) Int (+ p 1))",
    "define-sort": "(define-sort MyInt () Int)(declare-fun k () MyInt)(assert (< k 1))",
    "echo": "(echo \"hello\")",
    "exit": _D + "(assert a)(exit)",
    "get-assertions": _D + "(assert a)(get-assertions)",
    "get-assignment": _D + "(assert a)(check-sat)(get-assignment)",
    "get-info": "(get-info :name)",
    "get-model": _D + "(assert a)(check-sat)(get-model)",
    "get-option": "(get-option :produce-models)",
    "get-proof": _D + "(assert a)(check-sat)(get-proof)",
    "get-unsat-assumptions": _D + "(check-sat-assuming (a))(get-unsat-assumptions)",
    "get-unsat-core": _D + "(assert a)(check-sat)(get-unsat-core)",
    "get-value": _D + "(assert a)(check-sat)(get-value (x a))",
    "pop": _D + "(push 1)(assert a)(pop 1)",
    "push": _D + "(push 1)(assert a)",
    "reset": _D + "(assert a)(reset)",
    "reset-assertions": _D + "(assert a)(reset-assertions)",
    "set-logic": "(set-logic QF_LIA)" + _D + "(assert (< x 3))",
    "set-option": "(set-option :produce-models true)",
    "set-info": "(set-info :status sat)",
    # attribute values of other lexical classes: string literal, quoted symbol (several words, text that begins and ends
    # with a double quote but is not one string literal), numeral, decimal
    "set-info#string": "(set-info :source \"a string\")" + _D + "(assert a)",
    "set-info#string-doubled-quote": "(set-info :source \"say \"\"hi\"\" twice\")" + _D + "(assert a)",
    "set-info#quoted-symbol": "(set-info :source |several words; and (parens)|)" + _D + "(assert a)",
    "set-info#quoted-symbol-with-strings": "(set-info :source |\"bounded\" and \"unbounded\"|)" + _D + "(assert a)",
    "set-info#quoted-symbol-with-strings-2": "(set-info :notes |\"sat\" expected, was \"unknown\"|)(set-info :status sat)" + _D + "(assert a)",
    "set-info#decimal": "(set-info :smt-lib-version 2.6)" + _D + "(assert a)",
    "set-option#string": "(set-option :diagnostic-output-channel \"stderr\")" + _D + "(assert a)",
    "set-option#numeral": "(set-option :random-seed 42)" + _D + "(assert a)",
    "assert-soft": _D + "(assert-soft a :weight 2 :id g)",
    "check-allsat": _D + "(assert a)(check-allsat (a))",
    "get-objectives": _D + "(minimize x)(check-sat)(get-objectives)",
    "maximize": _D + "(maximize x)",
    "minimize": _D + "(minimize x)",
    "minmax": _D + "(declare-fun y () Int)(minmax x y)",
    "maxmin": _D + "(declare-fun y () Int)(maxmin x y)",
    "load-objective-model": _D + "(minimize x)(check-sat)(load-objective-model 0)",
}


NOT_IMPLEMENTED = {"define-fun-rec": "raises NotImplementedError on the pinned tree",
                   "define-funs-rec": "raises NotImplementedError on the pinned tree",
                   "define-sort-parametric": "a define-sort with parameters is rejected with a syntax error on the pinned tree"}
COMMAND_SCRIPTS["define-sort-parametric"] = "(define-sort Pair (X) (Array X X))(declare-fun k () (Pair Int))(assert (= (select k 0) 1))"


def _cmd_job(cmd):
    r = td._import_job((cmd, COMMAND_SCRIPTS[cmd], "accept"))
    return (cmd, r["kind"], r["detail"], r.get("again"))


_CMD = {}


def command_results():
    if "r" not in _CMD:
        _CMD["r"] = parallel_map(_cmd_job, sorted(COMMAND_SCRIPTS))
    return _CMD["r"]


def run_commands(ctx, rs):
    missing = sorted(set(T.COMMANDS_ACCEPTED_TODAY) - set(COMMAND_SCRIPTS))
    for c in missing:
        rs.unrec("command %s has no reference script" % c)
    for cmd, kind, detail, _again in command_results():
        if kind == "valid" and detail.startswith("rejected (") and cmd not in NOT_IMPLEMENTED:
            kind = "rejected-valid"
        if kind == "rejected-valid" and cmd in NOT_IMPLEMENTED:
            rs.ok({"command": cmd, "result": "rejected with an error (%s)" % NOT_IMPLEMENTED[cmd]})
            continue
        if kind == "valid":
            rs.ok({"command": cmd, "result": detail})
        elif kind == "unsupported":
            rs.unrec("%s: %s" % (cmd, detail[:160]))
        elif kind == "rejected-valid":
            ctx.finding(rs, "command|%s|rejected" % cmd, "a script using %s, accepted on the pinned tree, is rejected: %s" % (cmd, detail),
                        "pysmt/smtlib/parser/parser.py")
        else:
            ctx.finding(rs, "command|%s" % cmd, "a script using %s is misread: %s" % (cmd, detail), "pysmt/smtlib/parser/parser.py")
    ctx.floor(rs, 30)


# commands the parser reads but SmtLibCommand.serialize declines with NotImplementedError on the pinned tree
NOT_SERIALISABLE = {"check-sat-assuming", "echo", "get-assertions", "get-info", "get-option", "get-proof",
                    "get-unsat-assumptions", "reset"}


def run_roundtrip(ctx, rs):
    """C09 R3: the script of each command, re-serialised by the interpreted SmtLibScript.serialize, is read again as
    the same command list."""
    for cmd, kind, detail, again in command_results():
        if again is None:
            if cmd in NOT_IMPLEMENTED:
                continue
            rs.unrec("%s: not re-serialised (%s %s)" % (cmd, kind, detail[:100]))
        elif again[0] == "valid":
            rs.ok({"command": cmd, "result": again[1]})
        elif again[0] == "unsupported":
            rs.unrec("%s: %s" % (cmd, again[1][:160]))
        elif "NotImplementedError" in again[1] and cmd in NOT_SERIALISABLE:
            rs.ok({"command": cmd, "result": "serialisation declines with NotImplementedError (as on the pinned tree); no text is produced"})
        else:
            ctx.finding(rs, "command-roundtrip|%s" % cmd, "script using %s: %s" % (cmd, again[1]), "pysmt/smtlib/script.py")
    ctx.floor(rs, 30)
