"""Rules on the real formula manager.  FormulaManager.__init__, create_node (whatever helpers it is split into), the
hash-consing table, the id counter, FNode, FNodeContent and the construction-time type check (the environment's
SimpleTypeChecker) are interpreted from source (world.RealMgrWorld); nothing of it is modelled.

M1 (C04 R2)  one object per structure: every application of a menu is built twice, the second time in the reverse
             order and after unrelated constructions; the two requests must give the very same object, structurally
             different requests must give different objects with different ids, an object's hash is stable and the
             accessors give back (operator, children, payload).
M2 (C15 R2)  a rejected construction leaves no trace: after an ill-typed application raised, the table, the id
             counter and the symbol table are what they were; the same request raises again; a following
             well-typed construction gets the id it would have got.
M3 (C04 R7 / C14 R5)  value-keyed constant caches: a value that compares equal to a cached key but is of another
             Python type gets the outcome it gets on a fresh manager (rejected, or its own constant).
"""
import ast
from fractions import Fraction

from ..absint import Interp, Explorer, AbsRaise, Unsupported, AObj
from ..common import parallel_map
from ..world import RealMgrWorld
from ..absint import ClassRef, ListIter
from .. import refsem

BOOL, INT, REAL, STRING = refsem.BOOL, refsem.INT, refsem.REAL, refsem.STRING
B4, B5 = ("BV", 4), ("BV", 5)
ARR = ("ARRAY", INT, INT)
SYMS = {"a": BOOL, "b": BOOL, "c": BOOL, "x": INT, "y": INT, "r": REAL, "s": REAL, "u": B4, "v": B4, "v5": B5,
        "st": STRING, "m": ARR}


def menu():
    """Applications that are pairwise structurally different."""
    P = lambda v: ("py", v)
    return [
        ("And", "a", "b"), ("And", "b", "a"), ("Or", "a", "b"), ("And", "a", "b", "c"), ("And", "a", ("And", "b", "c")),
        ("Not", "a"), ("Implies", "a", "b"), ("Implies", "b", "a"), ("Iff", "a", "b"), ("Ite", "a", "b", "c"), ("Ite", "a", "c", "b"),
        ("Plus", "x", "y"), ("Plus", "y", "x"), ("Minus", "x", "y"), ("Times", "x", "y"), ("LT", "x", "y"), ("LE", "x", "y"),
        ("Equals", "x", "y"), ("Equals", "y", "x"), ("Equals", "r", "s"),
        ("Int", P(1)), ("Int", P(2)), ("Int", P(-1)), ("Real", P(1)), ("Real", P(Fraction(1, 2))), ("Real", P(2)),
        # floats denote exactly the binary rational they are (0.1 is not 1/10)
        ("Real", P(0.1)), ("Real", P(Fraction(1, 10))), ("Real", P(1e-7)), ("Real", P(Fraction(1, 10**7))), ("Real", P(0.3)), ("Real", P(Fraction(3, 10))),
        ("Real", P(Fraction(0))),
        # rationals that differ by less than a double can tell, integers beyond 2**53
        ("Real", P(Fraction(10**20 + 1, 10**20))), ("Real", P(2**53)), ("Real", P(2**53 + 1)), ("Real", P(Fraction(1, 3))), ("Real", P(Fraction(33333333333333333, 10**17))),
        ("Int", P(2**53)), ("Int", P(2**53 + 1)),
        ("String", P("a")), ("String", P("b")), ("String", P("")),
        ("BV", P(1), P(4)), ("BV", P(1), P(5)), ("BV", P(2), P(4)),
        ("BVAdd", "u", "v"), ("BVAdd", "v", "u"), ("BVExtract", "u", P(0), P(1)), ("BVExtract", "u", P(0), P(2)),
        ("BVExtract", "u", P(1), P(2)), ("BVZExt", "u", P(1)), ("BVZExt", "u", P(2)), ("BVSExt", "u", P(1)),
        ("BVRol", "u", P(1)), ("BVRor", "u", P(1)), ("BVRol", "u", P(2)), ("BVConcat", "u", "v"), ("BVConcat", "v", "u"),
        ("Select", "m", "x"), ("Store", "m", "x", "y"), ("Store", "m", "y", "x"),
        ("ToReal", "x"), ("Plus", "r", ("ToReal", "x")),
        ("ForAll", ("list", "x"), ("LT", "x", "y")), ("Exists", ("list", "x"), ("LT", "x", "y")),
        ("ForAll", ("list", "y"), ("LT", "x", "y")), ("ForAll", ("list", "x", "y"), ("LT", "x", "y")),
        ("Symbol", P("a"), ("type", BOOL)), ("Symbol", P("x"), ("type", INT)), ("Symbol", P("fresh"), ("type", INT)),
        ("Symbol", P("fresh2"), ("type", REAL)),
        ("TRUE",), ("FALSE",), ("Bool", P(True)),
        # sorts that differ in structure but print alike: an instance of a parametric sort and a 0-ary sort named after it
        ("Array", ("type", ("CUSTOM", "Pair", (INT, REAL))), ("Int", P(0))), ("Array", ("type", ("CUSTOM", "Pair{Int, Real}")), ("Int", P(0))),
        ("Symbol", P("pi"), ("type", ("CUSTOM", "Pair", (INT, REAL)))), ("Symbol", P("pm"), ("type", ("CUSTOM", "Pair{Int, Real}"))),
        ("Symbol", P("api"), ("type", ("ARRAY", ("CUSTOM", "Pair", (INT, REAL)), INT))), ("Symbol", P("apm"), ("type", ("ARRAY", ("CUSTOM", "Pair{Int, Real}"), INT))),
    ]


# pairs of the menu that denote the same structure by the documented normalisation of the constructors
SAME = {(("TRUE",), ("Bool", ("py", True)))}


def ill_typed():
    P = lambda v: ("py", v)
    return [
        ("And", "a", "x"), ("Or", "x", "y"), ("Not", "x"), ("Implies", "a", "r"), ("Iff", "u", "a"), ("Ite", "x", "a", "b"),
        ("Ite", "a", "x", "r"), ("Plus", "x", "a"), ("Plus", "x", "r"), ("Minus", "u", "v"), ("Times", "st", "st"),
        ("LT", "a", "b"), ("LE", "x", "r"), ("Equals", "x", "a"), ("Equals", "a", "b"), ("Equals", "u", "v5"),
        ("BVAdd", "u", "v5"), ("BVAdd", "x", "y"), ("BVNot", "a"), ("BVExtract", "x", P(0), P(1)), ("BVConcat", "u", "x"),
        ("BVULT", "u", "v5"), ("BVULT", "x", "u"), ("BVSLE", "x", "u"), ("BVULE", "a", "u"), ("BVSLT", "st", "u"), ("Select", "x", "y"), ("Select", "m", "a"), ("Store", "m", "x", "a"), ("Store", "m", "a", "x"),
        ("ToReal", "a"), ("StrLength", "x"), ("StrConcat", "st", "x"),
        ("ForAll", ("list", "x"), "y"), ("Exists", ("list", "x"), ("Plus", "x", "y")),
        # array values: index constants of the wrong sort, stored value of another sort than the default
        ("Array", ("type", INT), ("Real", P(0)), ("dict", (("Real", P(Fraction(3, 2))), ("Real", P(Fraction(5, 2)))))),
        ("Array", ("type", INT), ("Int", P(0)), ("dict", (("Int", P(1)), ("Real", P(Fraction(5, 2)))))),
        ("Array", ("type", INT), ("Int", P(0)), ("dict", (("Int", P(1)), "a"))),
    ]


def _build(w, env, t):
    if isinstance(t, str):
        return env[t]
    k = t[0]
    if k == "py":
        return t[1]
    if k == "type":
        return w.tyobj(t[1])
    if k == "list":
        return [_build(w, env, x) for x in t[1:]]
    if k == "dict":
        return dict((_build(w, env, kk), _build(w, env, vv)) for kk, vv in t[1:])
    return w.app(k, *[_build(w, env, x) for x in t[1:]])


def _fresh(ex):
    it = Interp(ex, max_steps=3000000)
    w = RealMgrWorld().attach(it)
    env = dict((n, w.symbol(n, s)) for n, s in sorted(SYMS.items()))
    return it, w, env


def _table(w):
    m = w.mgr.attrs
    # every other plain counter / flag the manager keeps (e.g. the fresh-name counter), whatever it is called
    scalars = tuple(sorted((k, v) for k, v in m.items() if isinstance(v, (int, str, bool)) and k != "_next_free_id"))
    return (dict(m["formulae"]), m["_next_free_id"], dict(m["symbols"]),
            dict(m["int_constants"]), dict(m["real_constants"]), dict(m["string_constants"]), scalars)


def _same_table(t1, t2):
    what = ["the hash-consing table", "the id counter", "the symbol table", "the Int cache", "the Real cache", "the String cache",
            "a counter / flag of the manager"]
    for a, b, n in zip(t1, t2, what):
        if isinstance(a, dict):
            if len(a) != len(b) or any(k not in b or b[k] is not a[k] for k in a):
                return n
        elif a != b:
            return n
    return None


def _show(t):
    if isinstance(t, str):
        return t
    if t[0] == "py":
        return repr(t[1])
    if t[0] == "type":
        return str(t[1])
    if t[0] == "list":
        return "[%s]" % ", ".join(_show(x) for x in t[1:])
    if t[0] == "dict":
        return "{%s}" % ", ".join("%s: %s" % (_show(k), _show(v)) for k, v in t[1:])
    return "%s(%s)" % (t[0], ", ".join(_show(x) for x in t[1:]))


# ------------------------------------------------------------------------------------------------ M1
def _identity_job(chunk):
    items = menu()
    lo, hi = chunk

    def one(ex):
        it, w, env = _fresh(ex)
        first = []
        for t in items:
            try:
                first.append(_build(w, env, t))
            except AbsRaise as ex_:
                return [("unsupported", _show(t), "raises %s%r" % (ex_.cls_name, ex_.exc_args))]
        # unrelated constructions in between
        _build(w, env, ("And", ("LT", "y", "x"), ("Not", "c")))
        second = {}
        for i in reversed(range(lo, hi)):
            second[i] = _build(w, env, items[i])
            _build(w, env, ("Or", "c", ("LT", "x", ("Int", ("py", 40 + i)))))
        out = []
        for i in range(lo, hi):
            t = items[i]
            n = first[i]
            if not w.is_node(n):
                out.append(("unsupported", _show(t), "constructor returned %r" % (n,)))
                continue
            if second[i] is not n:
                out.append(("bad", "rebuilt|%s" % _show(t),
                            "%s requested twice gives two objects (ids %s and %s): same structure, different objects"
                            % (_show(t), n.attrs.get("_node_id"), second[i].attrs.get("_node_id") if w.is_node(second[i]) else "?")))
                continue
            h1 = it.call(it.getattr(n, "__hash__"), [])
            h2 = it.call(it.getattr(n, "__hash__"), [])
            if not isinstance(h1, int) or h1 != h2:
                out.append(("bad", "hash|%s" % _show(t), "hash of %s is %r then %r" % (_show(t), h1, h2)))
                continue
            clash = None
            for j, t2 in enumerate(items):
                if j == i or (t, t2) in SAME or (t2, t) in SAME:
                    continue
                if first[j] is n:
                    clash = "%s and %s are one object although they differ in structure" % (_show(t), _show(t2))
                    break
                if w.is_node(first[j]) and first[j].attrs.get("_node_id") == n.attrs.get("_node_id"):
                    clash = "%s and %s are different objects with the same id %s" % (_show(t), _show(t2), n.attrs.get("_node_id"))
                    break
                if w.is_node(first[j]) and it.compare(ast.Eq(), n, first[j]) is not False:
                    clash = "%s == %s holds although they are different objects" % (_show(t), _show(t2))
                    break
            if clash:
                out.append(("bad", "merged|%s" % _show(t), clash))
                continue
            out.append(("ok", _show(t), "same object on the second request; distinct from %d other structures" % (len(items) - 1)))
        # the table itself: one entry per object, ids pairwise different
        if lo == 0:
            tab = w.mgr.attrs["formulae"]
            ids = [v.attrs.get("_node_id") for v in tab.values()]
            if len(set(ids)) != len(ids):
                out.append(("bad", "table|ids", "two entries of the hash-consing table carry the same id"))
            elif len(set(id(v) for v in tab.values())) != len(tab):
                out.append(("bad", "table|objects", "one object is registered under two keys"))
            else:
                out.append(("ok", "table", "%d entries, ids pairwise different" % len(tab)))
        return out
    try:
        paths = Explorer(max_paths=4).run(one)
    except Unsupported as e:
        return [("unsupported", "menu[%d:%d]" % (lo, hi), str(e))]
    res = []
    for p in paths:
        if p.kind == "return":
            res.extend(p.value)
        else:
            res.append(("unsupported", "menu[%d:%d]" % (lo, hi), "%s %s" % (p.kind, str(p.value)[:200])))
    return res


def identity_results():
    n = len(menu())
    chunks = [(i, min(n, i + 8)) for i in range(0, n, 8)]
    out = []
    for r in parallel_map(_identity_job, chunks):
        out.extend(r)
    return out


# ------------------------------------------------------------------------------------------------ M2
def _failure_job(idx):
    t = ill_typed()[idx]

    def one(ex):
        it, w, env = _fresh(ex)
        # sub-terms are built first: only the top application is the rejected one
        args = []
        for x in t[1:]:
            args.append(_build(w, env, x))
        before = _table(w)
        outcomes = []
        for _ in range(2):
            try:
                r = w.app(t[0], *args)
                outcomes.append(("ret", r))
            except AbsRaise as ex_:
                outcomes.append(("raise", ex_.cls_name))
            mid = _table(w)
            diff = _same_table(before, mid)
            if outcomes[-1][0] == "raise" and diff:
                return ("bad", "trace|%s" % _show(t),
                        "%s is rejected (%s) but %s changed: the failed construction left a trace" % (_show(t), outcomes[-1][1], diff))
        if outcomes[0][0] == "ret":
            return ("bad", "accepted|%s" % _show(t), "the ill-typed application %s is accepted at construction" % _show(t))
        if outcomes[1][0] == "ret":
            return ("bad", "second|%s" % _show(t),
                    "%s is rejected the first time (%s) and returned the second time" % (_show(t), outcomes[0][1]))
        # the rejection must not change what is rejected afterwards
        for t2 in (("Plus", "x", "r"), ("BVAdd", "u", "v5"), ("Select", "m", "a")):
            try:
                w.app(t2[0], *[_build(w, env, x_) for x_ in t2[1:]])
                return ("bad", "later|%s" % _show(t), "after %s was rejected (%s) the ill-typed application %s is accepted"
                        % (_show(t), outcomes[0][1], _show(t2)))
            except AbsRaise:
                pass
        nid = w.mgr.attrs["_next_free_id"]
        n = _build(w, env, ("And", ("LT", "y", "x"), ("Not", "c")))
        return ("ok", _show(t), "rejected twice (%s); tables and id counter unchanged" % outcomes[0][1])
    try:
        paths = Explorer(max_paths=4).run(one)
    except Unsupported as e:
        return [("unsupported", _show(t), str(e))]
    res = []
    for p in paths:
        if p.kind == "return":
            res.append(p.value)
        else:
            res.append(("unsupported", _show(t), "%s %s" % (p.kind, str(p.value)[:200])))
    return res


def _type_failure_job(idx):
    """Ill-formed sort requests to the real TypeManager (a sort constructor used where a sort is needed, a non-sort
    as component): rejected, rejected again, and the tables of the manager are what they were."""
    cases = ["ArrayType(Int, Pair/2)", "ArrayType(Pair/2, Int)", "FunctionType(Pair/2, [Int])", "FunctionType(Int, [Pair/2])",
             "FunctionType(Int, [Int, 3])", "ArrayType(Int, 'Real')", "BVType('8')", "Pair/2(Int)"]
    name = cases[idx]

    def one(ex):
        it, w, env = _fresh(ex)
        tm = w.env.attrs["_type_manager"]
        INT_, = (w.tyobj(INT),)
        pair = it.call(it.getattr(tm, "Type"), ["Pair", 2])

        def request():
            if name == "ArrayType(Int, Pair/2)":
                return it.call(it.getattr(tm, "ArrayType"), [INT_, pair])
            if name == "ArrayType(Pair/2, Int)":
                return it.call(it.getattr(tm, "ArrayType"), [pair, INT_])
            if name == "FunctionType(Pair/2, [Int])":
                return it.call(it.getattr(tm, "FunctionType"), [pair, [INT_]])
            if name == "FunctionType(Int, [Pair/2])":
                return it.call(it.getattr(tm, "FunctionType"), [INT_, [pair]])
            if name == "FunctionType(Int, [Int, 3])":
                return it.call(it.getattr(tm, "FunctionType"), [INT_, [INT_, 3]])
            if name == "ArrayType(Int, 'Real')":
                return it.call(it.getattr(tm, "ArrayType"), [INT_, "Real"])
            if name == "BVType('8')":
                return it.call(it.getattr(tm, "BVType"), ["8"])
            return it.call(pair, [INT_])          # wrong number of arguments for the sort constructor

        def tables():
            return dict((k, dict(v)) for k, v in tm.attrs.items() if isinstance(v, dict))
        before = tables()
        outs = []
        for _ in range(2):
            try:
                r = request()
                outs.append("returned %s" % (w.to_str(it, r)[1] if isinstance(r, AObj) else r,))
            except AbsRaise as ex_:
                outs.append("raises " + ex_.cls_name)
            after = tables()
            for k in before:
                if len(after.get(k, {})) != len(before[k]):
                    return ("bad", "type-trace|%s" % name, "the request %s is %s but the table %s of the type manager grew: a later identical "
                            "request finds the entry" % (name, outs[-1], k))
        if not outs[0].startswith("raises"):
            return ("bad", "type-accepted|%s" % name, "the ill-formed sort request %s %s" % (name, outs[0]))
        if outs[1] != outs[0]:
            return ("bad", "type-second|%s" % name, "the request %s %s the first time and %s the second time" % (name, outs[0], outs[1]))
        return ("ok", "sort request " + name, "rejected twice (%s), tables unchanged" % outs[0])
    try:
        paths = Explorer(max_paths=4).run(one)
    except Unsupported as e:
        return [("unsupported", name, str(e))]
    return [p.value if p.kind == "return" else ("unsupported", name, "%s %s" % (p.kind, str(p.value)[:200])) for p in paths]


REQUESTS = ["new_fresh_symbol('Int')", "new_fresh_symbol(Int, 'K')", "FreshSymbol(None, 'FV')", "Symbol('nn', 'Int')", "Symbol('a', Int)",
            "get_or_create_symbol('a', Int)", "Symbol('nn', Pair/2)", "get_symbol('nope')"]


def _request_failure_job(idx):
    """Rejected requests to the real manager other than ill-typed applications (fresh symbols with something that is
    not a sort or a name template without a place for the counter, a symbol re-declared with another sort, an unknown
    name): rejected twice, tables and counters unchanged, and the fresh symbols / nodes made afterwards are those of a
    manager that never saw the request."""
    name = REQUESTS[idx]

    def one(ex):
        def world(with_failure):
            it, w, env = _fresh(ex)
            mgr = w.mgr
            tm = w.env.attrs["_type_manager"]
            INT_ = w.tyobj(INT)

            def request():
                if name == "new_fresh_symbol('Int')":
                    return it.call(it.getattr(mgr, "new_fresh_symbol"), ["Int"])
                if name == "new_fresh_symbol(Int, 'K')":
                    return it.call(it.getattr(mgr, "new_fresh_symbol"), [INT_, "K"])
                if name == "FreshSymbol(None, 'FV')":
                    return it.call(it.getattr(mgr, "FreshSymbol"), [], {"template": "FV"})
                if name == "Symbol('nn', 'Int')":
                    return it.call(it.getattr(mgr, "Symbol"), ["nn", "Int"])
                if name == "Symbol('a', Int)":
                    return it.call(it.getattr(mgr, "Symbol"), ["a", INT_])
                if name == "get_or_create_symbol('a', Int)":
                    return it.call(it.getattr(mgr, "get_or_create_symbol"), ["a", INT_])
                if name == "Symbol('nn', Pair/2)":
                    return it.call(it.getattr(mgr, "Symbol"), ["nn", it.call(it.getattr(tm, "Type"), ["Pair", 2])])
                return it.call(it.getattr(mgr, "get_symbol"), ["nope"])
            outs = []
            if with_failure:
                before = _table(w)
                for _ in range(2):
                    try:
                        r = request()
                        outs.append("returned %s" % (w.to_str(it, r)[1] if isinstance(r, AObj) else r,))
                    except AbsRaise as ex_:
                        outs.append("raises " + ex_.cls_name)
                    diff = _same_table(before, _table(w))
                    if outs[-1].startswith("raises") and diff:
                        return None, ("bad", "request-trace|%s" % name, "the request %s is rejected (%s) but %s changed: the failed call left a "
                                      "trace" % (name, outs[-1], diff))
            later = []
            for _ in range(2):
                later.append(w.to_str(it, it.call(it.getattr(mgr, "new_fresh_symbol"), [INT_]))[1])
            later.append(w.to_str(it, it.call(it.getattr(mgr, "FreshSymbol"), [], {"template": "q%d"}))[1])
            n = _build(w, env, ("And", ("LT", "y", "x"), ("Not", "c")))
            later.append(n.attrs.get("_node_id"))
            return (outs, later), None
        got, bad = world(True)
        if bad:
            return bad
        outs, later = got
        (_, want), _ = world(False)
        if not outs[0].startswith("raises"):
            # a request the pinned tree answers is no failing call: nothing to decide here
            return ("ok", "request " + name, "not rejected (%s): no failing call" % outs[0])
        if outs[1] != outs[0]:
            return ("bad", "request-second|%s" % name, "the request %s %s the first time and %s the second time" % (name, outs[0], outs[1]))
        if later != want:
            return ("bad", "request-later|%s" % name, "after the request %s was rejected (%s) the next fresh symbols / node ids are %r; in a "
                    "manager that never saw the request: %r" % (name, outs[0], later, want))
        return ("ok", "request " + name, "rejected twice (%s), tables and counters unchanged, later fresh names as without it" % outs[0])
    try:
        paths = Explorer(max_paths=4).run(one)
    except Unsupported as e:
        return [("unsupported", name, str(e))]
    return [p.value if p.kind == "return" else ("unsupported", name, "%s %s" % (p.kind, str(p.value)[:200])) for p in paths]


DWF_SRC = '''
from pysmt.typing import BOOL


def xor_type(walker, formula, args, **kwargs):
    return BOOL


def xor_simplify(walker, formula, args, **kwargs):
    mgr = walker.env.formula_manager
    return mgr.Not(mgr.Iff(args[0], args[1]))


def xor_free_vars(walker, formula, args, **kwargs):
    return frozenset(x for a in args for x in a)


def xor_substitute(walker, formula, args, **kwargs):
    return walker.env.formula_manager.create_node(node_type=formula.node_type(), args=tuple(args))


def xor_size(walker, formula, args, **kwargs):
    return 1 + sum(args)
'''
DWF_SERVICES = [("simplifier", "pysmt.simplifier.Simplifier", "xor_simplify", "simplify"),
                ("fvo", "pysmt.oracles.FreeVarsOracle", "xor_free_vars", "get_free_variables"),
                ("substituter", "pysmt.substituter.MGSubstituter", "xor_substitute", "substitute"),
                ("sizeo", "pysmt.oracles.SizeOracle", "xor_size", "get_size")]


def _dwf_job(idx):
    """Unsupported operator: a node of a custom node type is handed to a service that has no handler for it (the call fails),
    then the handler is registered the documented way (Environment.add_dynamic_walker_function) and the call is made again:
    it answers as in an environment where the failing call was never made."""
    svc, cls, fname, meth = DWF_SERVICES[idx]
    from ..common import get_repo
    repo = get_repo()
    repo.add_virtual("sa_probe.dwf", DWF_SRC)

    def one(ex):
        def world(with_failure):
            it, w, env = _fresh(ex)
            opm = w.repo.modules["pysmt.operators"]
            pm = w.repo.modules["sa_probe.dwf"]
            N = it.call(it.module_global(opm, "new_node_type"), [], {"node_str": "xor"})
            it.call(it.getattr(w.env, "add_dynamic_walker_function"), [N, ClassRef("pysmt.type_checker.SimpleTypeChecker"), it.module_global(pm, "xor_type")])
            a, b, c = env["a"], env["b"], env["c"]
            f = it.call(it.getattr(w.mgr, "create_node"), [], {"node_type": N, "args": (a, b)})
            g = w.app("And", c, it.call(it.getattr(w.mgr, "create_node"), [], {"node_type": N, "args": (f, c)}))
            service = it.getattr(w.env, svc)

            def ask(t):
                args = [t] if meth != "substitute" else [t, {a: c}]
                r = it.call(it.getattr(service, meth), args)
                if w.is_node(r):
                    return _node_sig(w, it, r)
                if isinstance(r, (set, frozenset)):
                    return sorted(w.npayload(x)[0] for x in r)
                return r
            first = None
            if with_failure:
                for t in (f, g):
                    try:
                        ask(t)
                        first = "answered without a handler"
                    except AbsRaise as ex_:
                        first = first or ("raises " + ex_.cls_name)
            it.call(it.getattr(w.env, "add_dynamic_walker_function"), [N, ClassRef(cls), it.module_global(pm, fname)])
            later = []
            for t in (f, g, w.app("Or", a, w.app("Not", b)), f):
                try:
                    later.append(("returns", ask(t)))
                except AbsRaise as ex_:
                    later.append(("raises", ex_.cls_name))
            return first, later
        first, got = world(True)
        _f, want = world(False)
        name = "%s.%s on a node of a custom node type" % (cls.split(".")[-1], meth)
        if first is None or not first.startswith("raises"):
            return ("unsupported", name, "the call without a handler %s" % first)
        if any(x[0] != "returns" for x in want):
            return ("unsupported", name, "with the handler registered the service still %s" % (want,))
        if got != want:
            k = [i for i, (x, y) in enumerate(zip(got, want)) if x != y][0]
            return ("bad", "dwf|%s" % svc, "%s: the call fails (%s) while no handler is registered; after Environment.add_dynamic_walker_function "
                    "registered one, call no. %d %s %r; in an environment where the failing call was never made it %s %r"
                    % (name, first, k + 1, got[k][0], got[k][1], want[k][0], want[k][1]))
        return ("ok", name, "fails while no handler is registered (%s); after registration answers as in an environment that never saw the failing call" % first)
    try:
        paths = Explorer(max_paths=4).run(one)
    except Unsupported as e:
        return [("unsupported", svc, str(e))]
    return [p.value if p.kind == "return" else ("unsupported", svc, "%s %s" % (p.kind, str(p.value)[:200])) for p in paths]


def _node_sig(w, it, n):
    """structure of a node that may contain custom node types"""
    if not w.is_node(n):
        return repr(n)
    nt = n.attrs["_content"].attrs["node_type"] if "_content" in n.attrs else None
    try:
        op = w.opname(n)
    except Exception:        # noqa - custom node type
        op = "custom"
    if op in ("SYMBOL",):
        return w.npayload(n)[0]
    return (op if op != "custom" else "type%s" % nt,) + tuple(_node_sig(w, it, x) for x in w.nargs(n))


def dwf_results():
    out = []
    for r in parallel_map(_dwf_job, list(range(len(DWF_SERVICES)))):
        out.extend(r)
    return out


SERVICE_REQUESTS = ["SizeOracle.get_size(f, measure=42)", "FNode.size(measure=-1)", "EagerModel.get_value(term over an unassigned String symbol)",
                    "EagerModel.get_value(term over an unassigned array symbol)", "Model[non-constant]"]


def _service_failure_job(idx):
    """Rejected requests to services and model objects (an unknown size measure, a completion the model cannot make): the request
    is rejected again when it is repeated, and later requests on the same object answer as on a twin that never saw it."""
    name = SERVICE_REQUESTS[idx]

    def one(ex):
        def world(with_failure):
            it, w, env = _fresh(ex)
            x, y, a = env["x"], env["y"], env["a"]
            f = w.app("And", a, w.app("LT", w.app("Plus", x, y), w.app("Int", 3)))
            outs = []
            if name.startswith(("SizeOracle", "FNode.size")):
                so = it.getattr(w.env, "sizeo")

                def bad():
                    if name.startswith("SizeOracle"):
                        return it.call(it.getattr(so, "get_size"), [f], {"measure": 42})
                    return it.call(it.getattr(f, "size"), [], {"measure": -1})

                def later():
                    return [it.call(it.getattr(so, "get_size"), [f], {"measure": m}) for m in (0, 1, 3, 0)] + [it.call(it.getattr(f, "size"), [])]
            else:
                st = w.symbol("st_unassigned", ("STRING",))
                arr = w.symbol("arr_unassigned", ("ARRAY", INT, INT))
                model = it.instantiate(ClassRef("pysmt.solvers.eager.EagerModel"), [{x: w.app("Int", 1), a: w.app("Bool", True)}, w.env], {})

                def bad():
                    if "String" in name:
                        return it.call(it.getattr(model, "get_value"), [w.app("Equals", w.app("StrLength", st), x)], {"model_completion": True})
                    if "array" in name:
                        return it.call(it.getattr(model, "get_value"), [w.app("Equals", w.app("Select", arr, x), x)], {"model_completion": True})
                    return it.call(it.getattr(model, "__getitem__"), [w.app("Plus", x, w.symbol("zz_free", INT))]) if False else \
                        it.call(it.getattr(model, "get_value"), [w.app("Plus", x, w.symbol("zz_free", INT))], {"model_completion": False})

                def later():
                    r = []
                    for t, comp in ((w.app("Plus", x, w.app("Int", 1)), True), (w.app("And", a, w.app("LT", x, y)), True), (y, True), (w.app("Plus", x, y), False)):
                        try:
                            v = it.call(it.getattr(model, "get_value"), [t], {"model_completion": comp})
                            r.append(("returns", w.to_str(it, v)[1]))
                        except AbsRaise as ex_:
                            r.append(("raises", ex_.cls_name))
                    return r
            if with_failure:
                for _ in range(2):
                    try:
                        r = bad()
                        outs.append("returns %r" % (w.to_str(it, r)[1] if isinstance(r, AObj) else r,))
                    except AbsRaise as ex_:
                        outs.append("raises " + ex_.cls_name)
            return outs, later()
        (outs, got) = world(True)
        (_o, want) = world(False)
        if not outs[0].startswith("raises"):
            return ("ok", "request " + name, "not rejected (%s): no failing call" % outs[0])
        if outs[1] != outs[0]:
            return ("bad", "service-second|%s" % name, "the request %s %s the first time and %s when it is repeated" % (name, outs[0], outs[1]))
        if got != want:
            return ("bad", "service-later|%s" % name, "after the request %s was rejected (%s) later requests on the same object give %r; on a twin that "
                    "never saw it: %r" % (name, outs[0], got, want))
        return ("ok", "request " + name, "rejected twice (%s), later requests as on a twin" % outs[0])
    try:
        paths = Explorer(max_paths=4).run(one)
    except Unsupported as e:
        return [("unsupported", name, str(e))]
    return [p.value if p.kind == "return" else ("unsupported", name, "%s %s" % (p.kind, str(p.value)[:200])) for p in paths]


TYPE_FORMS = ["FunctionType(Real, <iterator over Int, Int>)", "FunctionType(Real, <generator>)", "FunctionType(Real, (Int, Int))",
              "ArrayType via keyword arguments", "Type('Pair', 2) instantiated with an iterator"]


def _type_forms_job(idx):
    """A sort requested first in an unusual argument form (one-shot iterator, generator, tuple, keywords), then in the usual one: the
    second request - and what is built over it - is what a fresh environment gives (the value-keyed tables of the type manager hold
    what the *first* request put there)."""
    name = TYPE_FORMS[idx]

    def one(ex):
        def world(first_form):
            it, w, env = _fresh(ex)
            tm = w.env.attrs["_type_manager"]
            INT_, REAL_ = w.tyobj(INT), w.tyobj(REAL)
            if first_form:
                try:
                    if name.startswith("FunctionType(Real, <iterator"):
                        it.call(it.getattr(tm, "FunctionType"), [REAL_, ListIter([INT_, INT_])])
                    elif name.startswith("FunctionType(Real, <generator"):
                        it.call(it.getattr(tm, "FunctionType"), [REAL_, ListIter(list((INT_, INT_)))])
                    elif name.startswith("FunctionType(Real, (Int"):
                        it.call(it.getattr(tm, "FunctionType"), [REAL_, (INT_, INT_)])
                    elif name.startswith("ArrayType"):
                        it.call(it.getattr(tm, "ArrayType"), [], {"index_type": INT_, "elem_type": REAL_})
                    else:
                        it.call(it.call(it.getattr(tm, "Type"), ["Pair", 2]), ListIter([INT_, REAL_])) if False else \
                            it.call(it.call(it.getattr(tm, "Type"), ["Pair", 2]), [INT_, REAL_])
                except AbsRaise:
                    pass
            ft = it.call(it.getattr(tm, "FunctionType"), [REAL_, [INT_, INT_]])
            at = it.call(it.getattr(tm, "ArrayType"), [INT_, REAL_])
            f = it.call(it.getattr(w.mgr, "Symbol"), ["ff", ft])
            out = [w.to_str(it, ft)[1] if False else repr(w.sort_of_tyobj(ft)), repr(w.sort_of_tyobj(at))]
            try:
                app = it.call(it.getattr(w.mgr, "Function"), [f, [w.app("Int", 1), w.app("Int", 2)]])
                out.append(("returns", repr(w.nsort(app))))
            except AbsRaise as ex_:
                out.append(("raises", ex_.cls_name))
            return out
        got, want = world(True), world(False)
        if got != want:
            return ("bad", "type-forms|%s" % name, "after the request %s the usual requests give %r; in a fresh environment %r" % (name, got, want))
        return ("ok", "sort request " + name, "later requests as in a fresh environment")
    try:
        paths = Explorer(max_paths=4).run(one)
    except Unsupported as e:
        return [("unsupported", name, str(e))]
    return [p.value if p.kind == "return" else ("unsupported", name, "%s %s" % (p.kind, str(p.value)[:200])) for p in paths]


def type_forms_results():
    out = []
    for i in range(len(TYPE_FORMS)):
        out.extend(_type_forms_job(i))
    return out


def failure_results():
    out = []
    for r in (parallel_map(_failure_job, list(range(len(ill_typed())))) + parallel_map(_type_failure_job, list(range(8)))
              + parallel_map(_request_failure_job, list(range(len(REQUESTS))))
              + parallel_map(_service_failure_job, list(range(len(SERVICE_REQUESTS))))):
        out.extend(r)
    return out


# ------------------------------------------------------------------------------------------------ M3
def cache_cases():
    """(constructor, value cached first, value of another Python type that compares equal to it)"""
    return [
        ("Int", 1, True), ("Int", 0, False), ("Int", 1, Fraction(1)), ("Int", 2, Fraction(2)), ("Int", 1, 1 + 0j),
        ("Real", 1, True), ("Real", 0, False), ("Real", 1, 1 + 0j), ("Real", Fraction(1), True), ("Real", Fraction(3), 3 + 0j),
        ("Real", 1, Fraction(1)), ("Real", Fraction(2), 2),
        ("String", "1", 1), ("String", "", False),
        ("BV", 1, True),
    ]


def _sig(w, r):
    if r[0] == "raise":
        return r
    n = r[1]
    if not w.is_node(n):
        return ("ret", repr(n))
    p = w.npayload(n)
    return ("node", w.opname(n), repr(p), type(p).__name__)


def _cache_job(idx):
    ctor, first, other = cache_cases()[idx]
    extra = [4] if ctor == "BV" else []

    def one(ex):
        res = {}
        for mode in ("fresh", "after"):
            it, w, env = _fresh(ex)
            if mode == "after":
                w.app(ctor, first, *extra)
            try:
                res[mode] = ("ret", w.app(ctor, other, *extra))
            except AbsRaise as ex_:
                res[mode] = ("raise", ex_.cls_name)
            res[mode] = _sig(w, res[mode])
        return res
    tag = "%s(%r) after %s(%r)" % (ctor, other, ctor, first)
    try:
        paths = Explorer(max_paths=4).run(one)
    except Unsupported as e:
        return [("unsupported", tag, str(e))]
    out = []
    for p in paths:
        if p.kind != "return":
            out.append(("unsupported", tag, "%s %s" % (p.kind, str(p.value)[:200])))
            continue
        f, a = p.value["fresh"], p.value["after"]
        if f != a:
            out.append(("bad", "cache|%s|%r|%r" % (ctor, first, other),
                        "%s gives %s, on a fresh manager it gives %s: the answer depends on what was built before "
                        "(the cache is consulted with a value that merely compares equal to a cached key)" % (tag, a, f)))
        else:
            out.append(("ok", tag, "as on a fresh manager: %s" % (f,)))
    return out


def cache_results():
    out = []
    for r in parallel_map(_cache_job, list(range(len(cache_cases())))):
        out.extend(r)
    return out


# ------------------------------------------------------------------------------------------------ M7
def _mode_job(idx):
    """The type checker's documented switch be_nice (answer None instead of raising) is turned on, the application is
    probed, the switch is turned off again: afterwards the construction has the outcome of a fresh manager (also for
    the formulas built on top of the probed one)."""
    t = ill_typed()[idx]

    def one(ex):
        res = {}
        for mode in ("fresh", "after"):
            it, w, env = _fresh(ex)
            args = [_build(w, env, x) for x in t[1:]]
            if mode == "after":
                stc = w.env.attrs["_stc"]
                stc.attrs["be_nice"] = True
                try:
                    w.app(t[0], *args)
                except AbsRaise:
                    pass
                stc.attrs["be_nice"] = False
            outs = []
            for _ in range(2):
                try:
                    r = w.app(t[0], *args)
                    outs.append("returned")
                except AbsRaise as ex_:
                    outs.append("raises %s" % ex_.cls_name)
            res[mode] = tuple(outs)
        return res
    tag = "%s after a be_nice probe of the same application" % _show(t)
    try:
        paths = Explorer(max_paths=4).run(one)
    except Unsupported as e:
        return [("unsupported", tag, str(e))]
    out = []
    for p in paths:
        if p.kind != "return":
            out.append(("unsupported", tag, "%s %s" % (p.kind, str(p.value)[:200])))
            continue
        f, a = p.value["fresh"], p.value["after"]
        if f != a:
            out.append(("bad", "mode|%s" % _show(t), "%s: %s; on a fresh manager: %s - the outcome of a construction depends on what "
                        "was probed before" % (tag, " / ".join(a), " / ".join(f))))
        else:
            out.append(("ok", tag, "as on a fresh manager: %s" % (f[0],)))
    return out


def mode_results():
    out = []
    for r in parallel_map(_mode_job, list(range(0, len(ill_typed()), 2))):
        out.extend(r)
    return out


def report(ctx, rs, results, where, floor):
    for kind, key, detail in results:
        if kind == "ok":
            rs.ok({"case": key, "result": detail})
        elif kind == "bad":
            ctx.finding(rs, key, detail, where)
        else:
            rs.unrec("%s: %s" % (key, str(detail)[:200]))
    ctx.floor(rs, floor)


# ------------------------------------------------------------------------------------------------ M4
def _cost_job(family):
    """Cost (interpreted steps) of one construction at nesting level k of the tower x' = op(x, x): with the
    environment's memoising type checker it does not depend on k - also when rejected constructions over the
    same operands happen in between (the '+rejections' families)."""
    levels = (6, 30)
    rejections = family.endswith("+rejections")
    base = family.split("+")[0]

    def one(ex):
        it, w, env = _fresh(ex)
        it.max_loop = 100000
        x = _build(w, env, ("Or", "a", "b") if base == "bool" else ("Plus", "x", "y"))
        costs = {}
        for k in range(1, levels[1] + 1):
            if rejections:
                try:
                    # ill-sorted over the current term: the failure is raised inside the type checker's walk
                    w.app("Equals", x, x) if base == "bool" else w.app("BVULT", x, x)
                except AbsRaise:
                    pass
            s0 = it.steps
            x = w.app("And" if base == "bool" else "Plus", x, x)
            costs[k] = it.steps - s0
        return costs
    try:
        paths = Explorer(max_paths=2).run(one)
    except Unsupported as e:
        return [("unsupported", family, str(e))]
    out = []
    for p in paths:
        if p.kind != "return":
            out.append(("unsupported", family, "%s %s" % (p.kind, str(p.value)[:200])))
            continue
        c = p.value
        lo, hi = c[levels[0]], c[levels[1]]
        if hi > 1.5 * lo + 20:
            out.append(("bad", "construction-cost|%s" % family,
                        "building op(x, x) over a term of nesting depth %d costs %d interpreted steps, over depth %d it "
                        "costs %d%s: every construction re-types the sub-DAG of its operands (quadratic construction)"
                        % (levels[0], lo, levels[1], hi, " (a rejected construction precedes each step)" if rejections else "")))
        else:
            out.append(("ok", "tower %s" % family, "steps per construction at depth %d / %d: %d / %d" % (levels[0], levels[1], lo, hi)))
    return out


def _member_cost_job(family):
    """Cost and call depth of asking the real manager about a term (`t in manager`) and of substituting a term for a
    symbol (`v.substitute({v: t})`, which checks its map against the manager): the same for a tower x' = op(x, x) of
    nesting depth 4, 8 and 12 up to the number of nodes - not a walk over all paths, no recursion over the nesting."""
    levels = (4, 8, 12)

    def one(ex):
        it, w, env = _fresh(ex)
        it.max_loop = 100000
        x = _build(w, env, ("Or", "a", "b") if family == "bool" else ("Plus", "x", "y"))
        v = env["c"] if family == "bool" else env["x"]
        out = {}
        for k in range(1, levels[-1] + 1):
            x = w.app("And" if family == "bool" else "Plus", x, x)
            if k in levels:
                s0, d0 = it.steps, it.depth
                it.max_depth = it.depth
                it.contains(w.mgr, x)
                c_in, d_in = it.steps - s0, it.max_depth - d0
                s0 = it.steps
                it.max_depth = it.depth
                it.call(it.getattr(v, "substitute"), [{v: x}])
                out[k] = (c_in, d_in, it.steps - s0, it.max_depth - d0)
        return out
    try:
        paths = Explorer(max_paths=2).run(one)
    except Unsupported as e:
        return [("unsupported", "membership %s" % family, str(e))]
    out = []
    for p in paths:
        if p.kind != "return":
            out.append(("unsupported", "membership %s" % family, "%s %s" % (p.kind, str(p.value)[:200])))
            continue
        c = p.value
        (a_in, ad_in, a_sub, ad_sub), (b_in, bd_in, b_sub, bd_sub), (c_in, cd_in, c_sub, cd_sub) = c[levels[0]], c[levels[1]], c[levels[2]]
        if c_in > 4 * a_in + 40 or cd_in - ad_in >= levels[2] - levels[0]:
            out.append(("bad", "membership-cost|%s" % family,
                        "`t in manager` costs %d steps (call depth %d) for a tower of depth %d and %d steps (call depth %d) at depth %d: "
                        "the test walks the term instead of looking it up" % (a_in, ad_in, levels[0], c_in, cd_in, levels[2])))
        elif c_sub > 6 * b_sub + 200 or cd_sub - ad_sub >= levels[2] - levels[0]:
            out.append(("bad", "substitute-value-cost|%s" % family,
                        "substituting a tower for a symbol costs %d steps (call depth %d) at depth %d and %d steps (call depth %d) at depth %d: "
                        "the work follows the paths / the nesting of the replacement, not its nodes" % (b_sub, bd_sub, levels[1], c_sub, cd_sub, levels[2])))
        else:
            out.append(("ok", "membership / substitution of a %s tower" % family,
                        "steps at depth %s: in %s, substitute %s" % (list(levels), [a_in, b_in, c_in], [a_sub, b_sub, c_sub])))
    return out


def cost_results():
    out = []
    for r in parallel_map(_cost_job, ["bool", "arith", "bool+rejections", "arith+rejections"]) + parallel_map(_member_cost_job, ["bool", "arith"]):
        out.extend(r)
    return out


# ------------------------------------------------------------------------------------------------ M5
def copy_pairs():
    """(f1, f2): built in two different source environments by the same number of constructions in the same
    order, so that corresponding nodes carry the same ids although they differ in structure."""
    P = lambda v: ("py", v)
    return [
        (("LT", "x", ("Plus", "y", ("Int", P(1)))), ("LE", "r", ("Times", "s", ("Real", P(Fraction(15, 2)))))),
        (("And", "a", ("Or", "b", ("Not", "c"))), ("Or", "c", ("And", "a", ("Not", "b")))),
        (("Equals", ("BVAdd", "u", "v"), ("BVNot", "u")), ("BVULT", ("BVMul", "v", "u"), ("BVNeg", "v"))),
        (("Equals", ("Select", "m", "x"), "y"), ("Equals", ("Store", "m", "y", "x"), "m")),
        (("ForAll", ("list", "x"), ("LT", "x", "y")), ("Exists", ("list", "y"), ("LE", "y", "x"))),
        (("Equals", "e1", "e2"), ("Not", ("Equals", "e2", "e1"))),
        (("Equals", ("StrLength", "st"), "x"), ("LT", "x", ("StrLength", ("StrConcat", "st", "st")))),
        # same number of constructions, same root id, different size / atoms / symbols
        (("And", "a", ("Or", "b", ("Not", "c"))), ("Or", ("Not", "a"), ("Not", "b"))),
        (("LT", ("Plus", "x", ("Times", "y", ("Int", P(2)))), "x"), ("Equals", ("BVAdd", "u", "v"), ("BVNot", ("BVNeg", "u")))),
        # bound variables that do not occur in the body (they live in the payload only), nested re-binding
        (("ForAll", ("list", "x", "y"), ("LT", "x", ("Int", P(0)))), ("Exists", ("list", "c"), ("And", "a", "b"))),
        (("ForAll", ("list", "y", "r"), ("Exists", ("list", "r"), ("LE", "y", "y"))), ("Exists", ("list", "e1", "x"), ("LT", "x", "y"))),
        # array values whose default / stored values are terms
        (("Equals", "m", ("Array", ("type", INT), ("Int", P(0)), ("dict", (("Int", P(1)), "x"), (("Int", P(2)), ("Plus", "x", "y"))))),
         ("Equals", "m", ("Array", ("type", INT), "y", ("dict", (("Int", P(3)), "x"))))),
    ]


COPY_SYMS = dict(SYMS, e1=("CUSTOM", "U"), e2=("CUSTOM", "U"))


def _struct(w, n, seen=None):
    """Structure of a node as a nested tuple of operator names, payload renderings and children."""
    op = w.opname(n)
    p = w.npayload(n)
    if op == "SYMBOL":
        ps = ("sym", p[0], str(w.sort_of_tyobj(p[1])))
    elif op in ("FORALL", "EXISTS"):
        ps = tuple(_struct(w, v) for v in p)
    elif op == "FUNCTION":
        ps = _struct(w, p)
    elif w.is_node(p):
        ps = _struct(w, p)
    elif isinstance(p, AObj):
        ps = str(w.sort_of_tyobj(p))
    else:
        ps = repr(p)
    kids = tuple(_struct(w, a) for a in w.nargs(n))
    if op == "ARRAY_VALUE":
        # the explicit entries are a finite map: FormulaManager.Array orders them by object identity, which is a
        # canonical order inside one process but not part of the structure
        kids = (kids[0],) + tuple(sorted(zip(kids[1::2], kids[2::2]), key=repr))
    return (op, ps) + kids


def _nodes(w, n, out=None):
    out = {} if out is None else out
    if id(n) in out:
        return out
    out[id(n)] = n
    for a in w.nargs(n):
        _nodes(w, a, out)
    p = w.npayload(n)
    if w.opname(n) in ("FORALL", "EXISTS"):
        for v in p:
            _nodes(w, v, out)
    elif w.is_node(p):
        _nodes(w, p, out)
    return out


def copy_clash_cases():
    """(symbols of the source, term, symbols the target environment has declared before): the target knows a name of the
    source under another type - the copy is refused or structurally identical, never a look-alike over the target's symbol"""
    FII, FIR = ("FUN", INT, (INT,)), ("FUN", REAL, (INT,))
    return [
        (dict(f=FIR, i=INT, j=INT), ("And", ("LT", ("Function", "f", ("list", "i")), ("Function", "f", ("list", "j"))),
                                     ("ForAll", ("list", "i"), ("LE", ("Function", "f", ("list", "i")), ("Function", "f", ("list", "j"))))), dict(f=FII)),
        (dict(f=FIR, i=INT), ("LT", ("Function", "f", ("list", "i")), ("Real", ("py", 1))), dict(f=FIR)),
        (dict(x=REAL, y=REAL), ("LT", "x", "y"), dict(x=INT)),
        (dict(x=INT, y=INT), ("ForAll", ("list", "x"), ("LT", "x", "y")), dict(x=BOOL)),
        (dict(m=("ARRAY", INT, REAL), x=INT), ("LT", ("Select", "m", "x"), ("Real", ("py", 0))), dict(m=("ARRAY", INT, INT))),
    ]


def _copy_clash_job(idx):
    ssy, t, dsy = copy_clash_cases()[idx]
    tag = "%s into an environment that declares %s" % (_show(t), ", ".join("%s: %s" % kv for kv in sorted(dsy.items())))

    def one(ex):
        it = Interp(ex, max_steps=3000000)
        w = RealMgrWorld().attach(it)
        dst = (w.env, w.mgr)
        src = w.new_environment()
        with w.using(*dst):
            for n, so in sorted(dsy.items()):
                w.symbol(n, so)
        with w.using(*src):
            syms = dict((n, w.symbol(n, so)) for n, so in sorted(ssy.items()))
            f = _build(w, syms, t)
        same_types = all(ssy.get(k) == v for k, v in dsy.items())
        try:
            g = it.call(it.getattr(dst[1], "normalize"), [f])
        except AbsRaise as ex_:
            if same_types:
                return ("bad", "clash|%s" % tag, "the copy is refused (%s) although the target declares the name with the same type" % ex_.cls_name)
            return ("ok", tag, "refused (%s)" % ex_.cls_name)
        if not w.is_node(g) or _struct(w, g) != _struct(w, f):
            return ("bad", "clash|%s" % tag, "the copy of %s is %s: a term over the target's own symbol of another type, not a copy"
                    % (sc_str(w, f), sc_str(w, g) if w.is_node(g) else g))
        return ("ok", tag, "structurally identical copy")
    try:
        paths = Explorer(max_paths=4).run(one)
    except Unsupported as e:
        return [("unsupported", tag, str(e))]
    return [p.value if p.kind == "return" else ("unsupported", tag, "%s %s" % (p.kind, str(p.value)[:200])) for p in paths]


def _copy_job(idx):
    t1, t2 = copy_pairs()[idx]
    tag = "%s / %s" % (_show(t1), _show(t2))

    def one(ex):
        it = Interp(ex, max_steps=3000000)
        w = RealMgrWorld().attach(it)
        dst = (w.env, w.mgr)
        srcs = [w.new_environment(), w.new_environment()]
        built = []
        for (env, mgr), t in zip(srcs, (t1, t2)):
            with w.using(env, mgr):
                syms = dict((n, w.symbol(n, s)) for n, s in sorted(COPY_SYMS.items()))
                built.append(_build(w, syms, t))
        f1, f2 = built
        problems = []
        copies = []
        for f, (env, mgr) in ((f1, srcs[0]), (f2, srcs[1]), (f1, srcs[0])):
            g = it.call(it.getattr(dst[1], "normalize"), [f])
            copies.append(g)
            if not w.is_node(g):
                return ("bad", "copy|%s" % tag, "normalize returned %r" % (g,))
            if _struct(w, g) != _struct(w, f):
                return ("bad", "copy|%s" % tag, "the copy of %s into another environment is %s" % (sc_str(w, f), sc_str(w, g)))
            src_tab = set(id(v) for v in mgr.attrs["formulae"].values())
            dst_tab = set(id(v) for v in dst[1].attrs["formulae"].values())
            for nid, nd in _nodes(w, g).items():
                if nid in src_tab:
                    return ("bad", "shared|%s" % tag, "the copy of %s shares the node %s with the source environment" % (sc_str(w, f), sc_str(w, nd)))
                if nid not in dst_tab:
                    return ("bad", "foreign|%s" % tag, "the copy of %s contains the node %s, which is not registered in the target manager" % (sc_str(w, f), sc_str(w, nd)))
        if copies[0] is not copies[2]:
            return ("bad", "recopy|%s" % tag, "copying %s twice into the same environment gives two objects" % sc_str(w, f1))
        return ("ok", tag, "structurally identical copies, no shared objects, second copy is the first")
    try:
        paths = Explorer(max_paths=4).run(one)
    except Unsupported as e:
        return [("unsupported", tag, str(e))]
    out = []
    for p in paths:
        out.append(p.value if p.kind == "return" else ("unsupported", tag, "%s %s" % (p.kind, str(p.value)[:200])))
    return out


def sc_str(w, n):
    from .. import simpcheck as sc
    return sc.node_str(w, n)


def copy_results():
    out = []
    for r in parallel_map(_copy_job, list(range(len(copy_pairs())))):
        out.extend(r)
    for r in parallel_map(_copy_clash_job, list(range(len(copy_clash_cases())))):
        out.extend(r)
    return out


# ------------------------------------------------------------------------------------------------ M6
ORACLES = {"pysmt.oracles.SizeOracle": "get_size", "pysmt.oracles.QuantifierOracle": "is_qf",
           "pysmt.oracles.TheoryOracle": "get_theory", "pysmt.oracles.FreeVarsOracle": "get_free_variables",
           "pysmt.oracles.AtomsOracle": "get_atoms", "pysmt.oracles.TypesOracle": "get_types",
           "pysmt.type_checker.SimpleTypeChecker": "get_type"}


def _alias_job(job):
    """An analysis asked about formulas of two environments whose node ids coincide answers each as a fresh
    analysis does (answers are cached per formula, not per node id)."""
    cls, pi = job
    t1, t2 = copy_pairs()[pi]
    tag = "%s: %s then %s" % (cls.split(".")[-1], _show(t1), _show(t2))

    def one(ex):
        from .c14_deep import ac_sig
        it = Interp(ex, max_steps=3000000)
        w = RealMgrWorld().attach(it)
        srcs = [w.new_environment(), w.new_environment()]
        built = []
        for (env, mgr), t in zip(srcs, (t1, t2)):
            with w.using(env, mgr):
                syms = dict((n, w.symbol(n, s)) for n, s in sorted(COPY_SYMS.items()))
                built.append(_build(w, syms, t))
        f1, f2 = built
        meth = ORACLES[cls]

        def ask(o, f):
            try:
                return ("ret", ac_sig(w, it.call(it.getattr(o, meth), [f])))
            except AbsRaise as ex_:
                return ("raise", ex_.cls_name)
        shared = w.new_walker(cls, srcs[0][0])
        a1 = ask(shared, f1)
        a2 = ask(shared, f2)
        fresh = ask(w.new_walker(cls, srcs[0][0]), f2)
        if a2 != fresh:
            return ("bad", "alias|%s" % tag, "asked about %s after %s (a formula of another environment with the same node ids) it "
                    "answers %s; a fresh analysis answers %s" % (_show(t2), _show(t1), str(a2)[:120], str(fresh)[:120]))
        return ("ok", tag, "as a fresh analysis")
    try:
        paths = Explorer(max_paths=4).run(one)
    except Unsupported as e:
        return [("unsupported", tag, str(e))]
    return [p.value if p.kind == "return" else ("unsupported", tag, "%s %s" % (p.kind, str(p.value)[:200])) for p in paths]


def alias_results():
    out = []
    jobs = [(c, i) for c in sorted(ORACLES) for i in (0, 1, 4, 7, 8)]
    for r in parallel_map(_alias_job, jobs):
        out.extend(r)
    return out


# ------------------------------------------------------------------------------------------------ M8
B8_, B32_, B4_ = ("BV", 8), ("BV", 32), ("BV", 4)


def xenv_cases():
    """(symbols of A, term of A, symbols of B, term of B, substitution map for B): the two environments make the same
    constructions in the same order, so corresponding nodes carry the same ids although they differ."""
    P = lambda v: ("py", v)
    sy = dict(a=BOOL, b=BOOL, c=BOOL, x=INT, y=INT, z=INT)
    q1 = ("And", "a", ("ForAll", ("list", "a"), ("Or", "a", "b")))
    q2 = ("Or", ("Exists", ("list", "x"), ("LT", "x", "y")), ("LT", "x", "z"))
    sa_ = dict(ar=("ARRAY", B4_, B32_), i=B4_, k=B4_)
    sb_ = dict(ar=("ARRAY", B4_, B8_), i=B4_, k=B4_)
    ext = ("BVZExt", ("Select", "ar", "i"), P(4))
    sext = ("BVSExt", ("Select", ("Store", "ar", "k", ("Select", "ar", "i")), "i"), P(2))
    return [
        (sy, q1, sy, q1, (("a", ("Not", "b")),)),
        (sy, ("And", "b", ("ForAll", ("list", "c"), ("Or", "a", "c"))), sy, ("And", "a", ("ForAll", ("list", "a"), ("Or", "b", "a"))), (("a", "c"), ("b", ("Not", "a")))),
        (sy, q2, sy, q2, (("x", ("Plus", "y", ("Int", P(1)))),)),
        (sy, ("And", "a", ("Or", "b", ("Not", "c"))), sy, ("Or", "c", ("And", "a", ("Not", "b"))), (("a", "b"),)),
        (sy, ("Or", "a", "b"), sy, ("And", "a", ("Not", "a")), ()),
        (sy, ("Implies", ("LT", "x", "y"), ("Or", "a", ("LT", "y", "z"))), sy, ("Iff", ("LT", "x", "y"), ("And", "a", ("Not", ("LT", "y", "x")))), (("x", "z"),)),
        (sy, ("ForAll", ("list", "x"), ("LT", ("Int", P(0)), "x")), sy, ("ForAll", ("list", "x"), ("LT", ("Int", P(0)), "x")), ()),
        (sy, ("And", "a", ("Exists", ("list", "y"), ("LT", "x", "z"))), sy, ("And", "a", ("Exists", ("list", "x"), ("LT", "x", "z"))), ()),
        (sy, ("Or", ("Exists", ("list", "y"), ("LT", "x", "y")), ("LT", "y", "z")), sy, q2, (("x", "z"), ("y", "x"))),
        (sa_, ext, sb_, ext, ()),
        (sa_, sext, sb_, sext, ()),
        (dict(u=B32_, v=B32_), ("BVConcat", ("BVAdd", "u", "v"), "u"), dict(u=B8_, v=B8_), ("BVConcat", ("BVAdd", "u", "v"), "u"), (("u", "v"),)),
    ]


def _xenv_job(idx):
    """Environment B (created next to the default environment A, never pushed on the stack) after ordinary work in A on
    nodes with the same ids: types, widths, free variables, sizes and substitutions in B are those obtained when A
    did nothing."""
    sy1, t1, sy2, t2, mp = xenv_cases()[idx]
    tag = "%s in a second environment after %s in the first" % (_show(t2), _show(t1))

    def one(ex):
        from .c14_deep import ac_sig
        res = {}
        for mode in ("alone", "after"):
            it = Interp(ex, max_steps=6000000)
            w = RealMgrWorld().attach(it)
            A = (w.env, w.mgr)
            B = w.new_environment()

            def battery(n, env):
                out = []
                for acc in ("get_type", "get_free_variables", "size", "bv_width", "is_constant"):
                    try:
                        out.append((acc, ac_sig(w, it.call(it.getattr(n, acc), []))))
                    except AbsRaise as ex_:
                        out.append((acc, "raises " + ex_.cls_name))
                for svc, meth in (("stc", "get_type"), ("fvo", "get_free_variables"), ("sizeo", "get_size"), ("qfo", "is_qf"),
                                  ("simplifier", "simplify"), ("ao", "get_atoms")):
                    try:
                        out.append((svc, ac_sig(w, it.call(it.getattr(it.getattr(env, svc), meth), [n]))))
                    except AbsRaise as ex_:
                        out.append((svc, "raises " + ex_.cls_name))
                return out

            def nodes_of(n):
                return list(_nodes(w, n).values())
            f1 = None
            if mode == "after":
                with w.using(*A):
                    s1 = dict((k, w.symbol(k, v)) for k, v in sorted(sy1.items()))
                    f1 = _build(w, s1, t1)
                    for n in nodes_of(f1):
                        battery(n, A[0])
                    try:
                        it.call(it.getattr(f1, "substitute"), [dict((s1[k], _build(w, s1, v)) for k, v in mp)])
                    except AbsRaise:
                        pass
            with w.using(*B):
                s2 = dict((k, w.symbol(k, v)) for k, v in sorted(sy2.items()))
                f2 = _build(w, s2, t2)
                m2 = dict((s2[k], _build(w, s2, v)) for k, v in mp)
            # A is the top of the environment stack; B's formulas are handled through B's own services
            sig = []
            for n in nodes_of(f2):
                sig.append((sc_str(w, n), battery(n, B[0])))
            sub = it.instantiate(ClassRef("pysmt.substituter.MGSubstituter"), [B[0]], {})
            try:
                r = it.call(it.getattr(sub, "substitute"), [f2, m2])
                sig.append(("substitute", ac_sig(w, r), sorted(set(id(x) in set(id(v) for v in A[1].attrs["formulae"].values()) for x in nodes_of(r)))))
            except AbsRaise as ex_:
                sig.append(("substitute", "raises " + ex_.cls_name))
            # B becomes the environment on top of the stack (as after reset_env() or inside `with Environment():`): the
            # module-level procedures called without an environment work in B
            def procs(f, env_pair):
                out_ = []
                if w.nsort(f) != BOOL:
                    return out_
                a_tab = set(id(v) for v in A[1].attrs["formulae"].values())
                with w.using(*env_pair):
                    for mod_, name in (("pysmt.rewritings", "cnf"), ("pysmt.rewritings", "cnf_as_set"), ("pysmt.rewritings", "nnf"),
                                       ("pysmt.rewritings", "prenex_normal_form"), ("pysmt.rewritings", "aig"), ("pysmt.oracles", "get_logic")):
                        try:
                            r_ = it.call(it.module_global(w.repo.modules[mod_], name), [f])
                            foreign = False
                            if env_pair is B:
                                items = []
                                st_ = [r_]
                                while st_:
                                    v_ = st_.pop()
                                    if w.is_node(v_):
                                        items.append(v_)
                                    elif isinstance(v_, (list, tuple, set, frozenset)):
                                        st_.extend(v_)
                                a_now = set(id(v) for v in A[1].attrs["formulae"].values())      # incl. nodes made during the call
                                foreign = any(id(x) in a_now for n_ in items for x in nodes_of(n_))
                            out_.append((name, ac_sig(w, r_), "foreign nodes" if foreign else ""))
                        except AbsRaise as ex_:
                            out_.append((name, "raises " + ex_.cls_name, ""))
                return out_
            if mode == "after":
                procs(f1, A)
            sig.append(("procedures with the second environment on top", procs(f2, B)))
            res[mode] = sorted(sig, key=repr)
        return res
    try:
        paths = Explorer(max_paths=4).run(one)
    except Unsupported as e:
        return [("unsupported", tag, str(e))]
    out = []
    for p in paths:
        if p.kind != "return":
            out.append(("unsupported", tag, "%s %s" % (p.kind, str(p.value)[:200])))
            continue
        al, af = p.value["alone"], p.value["after"]
        if al != af:
            diff = [(x, y) for x, y in zip(al, af) if x != y]
            x, y = diff[0] if diff else (al[-1], af[-1])
            out.append(("bad", "xenv|%s" % tag, "%s: after the work in the first environment %s; when the first environment did nothing %s"
                        % (tag, str(y)[:260], str(x)[:260])))
        else:
            out.append(("ok", tag, "as when the first environment did nothing"))
    return out


def xenv_results():
    out = []
    for r in parallel_map(_xenv_job, list(range(len(xenv_cases())))):
        out.extend(r)
    return out
