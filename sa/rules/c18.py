"""C18 -- optimisation returns the true optimum and restores the solver."""
import ast

from ..common import (get_repo, short, norm, CFG, normal_only, method_loc, calls_in, attr_tail,
                      is_self_attr, parents, names_in)

EXT = "pysmt.optimization.optimizer.ExternalOptimizerMixin"
INC = "pysmt.optimization.optimizer.IncrementalOptimizerMixin"
SUA = "pysmt.optimization.optimizer.SUAOptimizerMixin"
CMP = "pysmt.optimization.optimizer.OptComparationFunctions"
INTERVAL = "pysmt.optimization.optimizer.OptSearchInterval"

EXPLANATION = (
    "Abstract interpretation of pysmt/optimization/optimizer.py and goal.py: SUAOptimizerMixin and "
    "IncrementalOptimizerMixin are mixed (in an analysis-side probe class) into a back-end whose verdicts and "
    "models come from an exhaustive search over the small domain the scenario's assertions confine the "
    "symbols to; optimize / lexicographic_optimize / boxed_optimize / pareto_optimize are interpreted with the "
    "linear and the binary strategy on ten scenarios (integer boxes and a diagonal constraint, an unsatisfiable "
    "set, unsigned and signed bit-vector objectives, signed fronts with negative and dominated points enumerated "
    "from either end, min-max / max-min goals, weighted soft clauses) and the returned cost, lexicographic "
    "vector and Pareto front are compared with the optima computed by enumeration; the returned model satisfies "
    "the assertions with that cost; 'no solution' exactly for the unsatisfiable set; after every call "
    "solver.assertions is what it was before and the back-end's own stack has no level left open - every push / "
    "_setup of the search was matched on the path actually taken (R4).")
NOT_DECIDED = ["scenarios outside the menu; Real objectives (the routines are documented to diverge on them); "
               "native optimisers (OptiMathSAT, z3 optimize) behind their converters"]

def run(ctx):
    repo = get_repo()
    ctx.analysed["modules"] = ["pysmt/optimization/optimizer.py"]

    if ctx.want("R4"):
        rs = ctx.rule("R4", "optimisers interpreted over a brute-force back-end: true optimum / lexicographic optimum / Pareto front, stack restored")
        from . import solver_deep as sd
        res = sd.optimizer_results(repo, ctx.tier)
        for scen, mixin, label, kind, detail in res:
            cls = "SUAOptimizerMixin" if mixin == "sua" else "IncrementalOptimizerMixin"
            name = "%s, %s, %s" % (scen, cls, label)
            if kind == "ok":
                rs.ok({"scenario": scen, "optimizer": cls, "call": label, "result": detail})
            elif kind == "unsupported":
                rs.unrec("%s: %s" % (name, detail[:200]))
            elif kind == "hang":
                ctx.finding(rs, "opt|%s|%s|%s|diverges" % (scen, mixin, label),
                            "%s does not terminate although the optimum is attained (%s)" % (name, detail),
                            "pysmt/optimization/optimizer.py")
            elif kind == "raise":
                ctx.finding(rs, "opt|%s|%s|%s|raises" % (scen, mixin, label), "%s raises %s" % (name, detail),
                            "pysmt/optimization/optimizer.py")
            else:
                ctx.finding(rs, "opt|%s|%s|%s" % (scen, mixin, label), "%s: %s" % (name, detail),
                            "pysmt/optimization/optimizer.py")
        ctx.floor(rs, 80)
