"""C18 -- optimisation returns the true optimum and restores the solver."""
import ast

from ..common import (get_repo, short, norm, CFG, normal_only, method_loc, calls_in, attr_tail,
                      is_self_attr, parents, names_in)

EXT = "pysmt.optimization.optimizer.ExternalOptimizerMixin"
INC = "pysmt.optimization.optimizer.IncrementalOptimizerMixin"
SUA = "pysmt.optimization.optimizer.SUAOptimizerMixin"
CMP = "pysmt.optimization.optimizer.OptComparationFunctions"
INTERVAL = "pysmt.optimization.optimizer.OptSearchInterval"

OPEN = {"_setup": "_cleanup", "push": "pop", "_pareto_setup": "_pareto_cleanup"}

EXPLANATION = (
    "Static analysis of pysmt/optimization/optimizer.py: in every optimisation routine each path "
    "from a _setup()/push()/_pareto_setup() to a normal return passes the matching "
    "_cleanup()/pop()/_pareto_cleanup() (R1, CFG must-pass-through per open call); the comparator "
    "table (logic, min/max, signed) -> (cast, strict, non-strict) equals the reference (R2); 'no "
    "solution' is returned only when the first, unconstrained check fails (R3).")
NOT_DECIDED = ["optimality of the value returned, bound updates, pivots, Pareto fronts (numerical; need values)"]

REF_CMP = {
    ("LIA", "MinimizationGoal"): ("Int", "LT", "LE"), ("LIA", "MaximizationGoal"): ("Int", "GT", "GE"),
    ("LRA", "MinimizationGoal"): ("Real", "LT", "LE"), ("LRA", "MaximizationGoal"): ("Real", "GT", "GE"),
    ("BV", "MinimizationGoal", False): ("cast_bv", "BVULT", "BVULE"),
    ("BV", "MinimizationGoal", True): ("cast_bv", "BVSLT", "BVSLE"),
    ("BV", "MaximizationGoal", False): ("cast_bv", "BVUGT", "BVUGE"),
    ("BV", "MaximizationGoal", True): ("cast_bv", "BVSGT", "BVSGE"),
}


def run(ctx):
    repo = get_repo()
    ctx.analysed["modules"] = ["pysmt/optimization/optimizer.py"]

    if ctx.want("R1"):
        rs = ctx.rule("R1", "push/pop bracket on every normal path of every optimisation routine")
        for q in (EXT, INC, SUA):
            ci = repo.cls(q)
            for nm in ci.order:
                f = ci.own_func(nm)
                if f is None or nm in OPEN or nm in OPEN.values():
                    continue
                opens = [c for c in calls_in(f) if attr_tail(c) in OPEN and isinstance(c.func, ast.Attribute)
                         and isinstance(c.func.value, ast.Name) and c.func.value.id == "self"]
                if not opens:
                    continue
                cfg = CFG(f)
                for oc in opens:
                    close = OPEN[attr_tail(oc)]
                    on = [n for n in cfg.nodes if n.ast is not None and n.kind == "stmt" and any(c is oc for c in calls_in(n.ast))]
                    if not on:
                        rs.unrec("%s.%s: open call not a plain statement" % (q, nm))
                        continue
                    isclose = lambda n, close=close: n.ast is not None and n.kind == "stmt" and any(
                        attr_tail(c) == close for c in calls_in(n.ast))
                    if cfg.must_pass(on[0].id, cfg.ret.id, isclose, follow=normal_only):
                        rs.ok({"routine": "%s.%s" % (q.split(".")[-1], nm), "open": attr_tail(oc), "close": close,
                               "all_normal_paths": True})
                    else:
                        p = cfg.path(on[0].id, cfg.ret.id, avoid=isclose, follow=normal_only) or []
                        exitst = [x for x in p if isinstance(x.ast, ast.Return)]
                        ex = short(exitst[-1].ast) if exitst else "end of function"
                        ctx.finding(rs, "%s.%s|%s-without-%s|%s" % (q, nm, attr_tail(oc), close, ex),
                                    "%s.%s: a path from self.%s() reaches `%s` without self.%s(): the solver keeps one "
                                    "extra level on its assertion stack (and the constraints added for the search)"
                                    % (q.split(".")[-1], nm, attr_tail(oc), ex, close),
                                    method_loc(repo, q, exitst[-1].ast if exitst else f))
        # the bracket helpers themselves
        for nm, want in (("_setup", "push"), ("_cleanup", "pop"), ("_pareto_setup", "push"), ("_pareto_cleanup", "pop")):
            cls, f = repo.find_method(EXT, nm)
            if f is None:
                ctx.error("R1", "%s vanished" % nm)
                continue
            calls = [attr_tail(c) for c in calls_in(f) if isinstance(c.func, ast.Attribute) and norm(c.func.value) == "self"]
            if calls == [want]:
                rs.ok({"helper": nm, "does": "self.%s()" % want})
            else:
                ctx.finding(rs, "%s.%s|helper" % (EXT, nm), "%s performs %s, expected exactly one self.%s()"
                            % (nm, calls, want), method_loc(repo, cls, f))
        ctx.floor(rs, 8)

    if ctx.want("R2"):
        rs = ctx.rule("R2", "comparator table equals the reference")
        cls, f = repo.method(CMP, "_comparation_functions")
        table = None
        for n in ast.walk(f):
            if isinstance(n, (ast.Assign, ast.AnnAssign)) and isinstance(n.value, ast.Dict) and \
                    norm(n.targets[0] if isinstance(n, ast.Assign) else n.target) == "options":
                table = n.value
        if table is None:
            rs.unrec("options table not found")
        else:
            def strip(e):
                while isinstance(e, ast.Call) and attr_tail(e) == "cast" and len(e.args) == 2:
                    e = e.args[1]
                return attr_tail(e) if isinstance(e, (ast.Attribute, ast.Name)) else norm(e)
            for lk, lv in zip(table.keys, table.values):
                logic = norm(lk)
                if not isinstance(lv, ast.Dict):
                    continue
                for gk, gv in zip(lv.keys, lv.values):
                    goal = norm(gk)
                    for sk, sv in zip(gv.keys, gv.values):
                        signed = sk.value
                        tup = tuple(strip(e) for e in sv.elts)
                        ref = REF_CMP.get((logic, goal, signed), REF_CMP.get((logic, goal)))
                        if ref is None:
                            rs.unrec("no reference for %s/%s/%s" % (logic, goal, signed))
                        elif tup == ref:
                            rs.ok({"logic": logic, "goal": goal, "signed": signed, "functions": list(tup)})
                        else:
                            ctx.finding(rs, "%s._comparation_functions|%s|%s|%s" % (CMP, logic, goal, signed),
                                        "comparators for (%s, %s, signed=%s) are %s, reference %s"
                                        % (logic, goal, signed, tup, ref), method_loc(repo, cls, sv))
            # cast_bv
            lambdas = [n for n in ast.walk(f) if isinstance(n, ast.Assign) and isinstance(n.value, ast.Lambda)
                       and norm(n.targets[0]) == "cast_bv"]
            par = parents(f)
            for lm in lambdas:
                iff = par.get(lm)
                ctor = attr_tail(lm.value.body)
                if isinstance(iff, ast.If) and norm(iff.test) == "goal.signed":
                    want = "SBV" if lm in iff.body else "BV"
                    if ctor == want:
                        rs.ok({"cast_bv": "%s when signed=%s" % (ctor, lm in iff.body)})
                    else:
                        ctx.finding(rs, "%s._comparation_functions|cast_bv|%s" % (CMP, want),
                                    "bit-vector bound cast uses %s where %s is required" % (ctor, want),
                                    method_loc(repo, cls, lm))
        ctx.floor(rs, 8)

    if ctx.want("R3"):
        rs = ctx.rule("R3", "'no solution' only when the first, unconstrained check fails")
        cls, f = repo.method(EXT, "_optimize")
        par = parents(f)
        nones = [n for n in ast.walk(f) if isinstance(n, ast.Return) and
                 (n.value is None or (isinstance(n.value, ast.Constant) and n.value.value is None))]
        inloop = []
        for n in nones:
            p = n
            in_while = False
            guard = None
            while p in par:
                q = par[p]
                if isinstance(q, ast.If) and p in q.body and guard is None:
                    guard = norm(q.test)
                if isinstance(q, ast.While):
                    in_while = True
                p = q
            if in_while:
                inloop.append((n, guard))
        for n, guard in inloop:
            if guard == "first_step":
                rs.ok({"return None": "inside the search loop only under first_step"})
            else:
                ctx.finding(rs, "%s._optimize|none-in-loop|%s" % (EXT, guard),
                            "the search loop returns 'no solution' under `%s`, i.e. also after a model was found"
                            % guard, method_loc(repo, cls, n))
        # first step carries no cut
        firsts = [n for n in ast.walk(f) if isinstance(n, ast.If) and norm(n.test) in ("not first_step", "first_step")]
        if firsts:
            rs.ok({"first_step": "no cut asserted on the first check (%s)" % norm(firsts[0].test)})
        upd = [n for n in ast.walk(f) if isinstance(n, ast.Assign) and norm(n.targets[0]) == "first_step"]
        if any(isinstance(u.value, ast.Constant) and u.value.value is False for u in upd):
            rs.ok({"first_step": "cleared after the first iteration"})
        else:
            rs.unrec("first_step is never cleared")
        ctx.floor(rs, 2)
