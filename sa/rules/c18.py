"""C18 -- optimisation returns the true optimum and restores the solver."""
import ast

from ..common import (get_repo, short, norm, CFG, normal_only, method_loc, calls_in, attr_tail,
                      is_self_attr, parents, names_in)

EXT = "pysmt.optimization.optimizer.ExternalOptimizerMixin"
INC = "pysmt.optimization.optimizer.IncrementalOptimizerMixin"
SUA = "pysmt.optimization.optimizer.SUAOptimizerMixin"
CMP = "pysmt.optimization.optimizer.OptComparationFunctions"
INTERVAL = "pysmt.optimization.optimizer.OptSearchInterval"

OPEN = {"_setup": "_cleanup", "push": "pop", "_pareto_setup": "_pareto_cleanup"}

EXPLANATION = (
    "Abstract interpretation of pysmt/optimization/optimizer.py and goal.py: SUAOptimizerMixin and "
    "IncrementalOptimizerMixin are mixed (in an analysis-side probe class) into a back-end whose verdicts and "
    "models come from an exhaustive search over the small domain the scenario's assertions confine the "
    "symbols to; optimize / lexicographic_optimize / boxed_optimize / pareto_optimize are interpreted with the "
    "linear and the binary strategy on six scenarios (integer boxes and a diagonal constraint, an unsatisfiable "
    "set, unsigned and signed bit-vector objectives, weighted soft clauses) and the returned cost, lexicographic "
    "vector and Pareto front are compared with the optima computed by enumeration; the returned model satisfies "
    "the assertions with that cost; 'no solution' exactly for the unsatisfiable set; solver.assertions is what "
    "it was before the call (R4).  In every optimisation routine each path from _setup()/push()/"
    "_pareto_setup() to a normal return passes the matching close call (R1, CFG must-pass-through).")
NOT_DECIDED = ["scenarios outside the menu; Real objectives (the routines are documented to diverge on them); "
               "native optimisers (OptiMathSAT, z3 optimize) behind their converters"]

REF_CMP = {
    ("LIA", "MinimizationGoal"): ("Int", "LT", "LE"), ("LIA", "MaximizationGoal"): ("Int", "GT", "GE"),
    ("LRA", "MinimizationGoal"): ("Real", "LT", "LE"), ("LRA", "MaximizationGoal"): ("Real", "GT", "GE"),
    ("BV", "MinimizationGoal", False): ("cast_bv", "BVULT", "BVULE"),
    ("BV", "MinimizationGoal", True): ("cast_bv", "BVSLT", "BVSLE"),
    ("BV", "MaximizationGoal", False): ("cast_bv", "BVUGT", "BVUGE"),
    ("BV", "MaximizationGoal", True): ("cast_bv", "BVSGT", "BVSGE"),
}


def run(ctx):
    repo = get_repo()
    ctx.analysed["modules"] = ["pysmt/optimization/optimizer.py"]

    if ctx.want("R1"):
        rs = ctx.rule("R1", "push/pop bracket on every normal path of every optimisation routine")
        for q in (EXT, INC, SUA):
            ci = repo.cls(q)
            for nm in ci.order:
                f = ci.own_func(nm)
                if f is None or nm in OPEN or nm in OPEN.values():
                    continue
                opens = [c for c in calls_in(f) if attr_tail(c) in OPEN and isinstance(c.func, ast.Attribute)
                         and isinstance(c.func.value, ast.Name) and c.func.value.id == "self"]
                if not opens:
                    continue
                cfg = CFG(f)
                for oc in opens:
                    close = OPEN[attr_tail(oc)]
                    on = [n for n in cfg.nodes if n.ast is not None and n.kind == "stmt" and any(c is oc for c in calls_in(n.ast))]
                    if not on:
                        rs.unrec("%s.%s: open call not a plain statement" % (q, nm))
                        continue
                    isclose = lambda n, close=close: n.ast is not None and n.kind == "stmt" and any(
                        attr_tail(c) == close for c in calls_in(n.ast))
                    if cfg.must_pass(on[0].id, cfg.ret.id, isclose, follow=normal_only):
                        rs.ok({"routine": "%s.%s" % (q.split(".")[-1], nm), "open": attr_tail(oc), "close": close,
                               "all_normal_paths": True})
                    else:
                        p = cfg.path(on[0].id, cfg.ret.id, avoid=isclose, follow=normal_only) or []
                        exitst = [x for x in p if isinstance(x.ast, ast.Return)]
                        ex = short(exitst[-1].ast) if exitst else "end of function"
                        ctx.finding(rs, "%s.%s|%s-without-%s|%s" % (q, nm, attr_tail(oc), close, ex),
                                    "%s.%s: a path from self.%s() reaches `%s` without self.%s(): the solver keeps one "
                                    "extra level on its assertion stack (and the constraints added for the search)"
                                    % (q.split(".")[-1], nm, attr_tail(oc), ex, close),
                                    method_loc(repo, q, exitst[-1].ast if exitst else f))
        # the bracket helpers themselves
        for nm, want in (("_setup", "push"), ("_cleanup", "pop"), ("_pareto_setup", "push"), ("_pareto_cleanup", "pop")):
            cls, f = repo.find_method(EXT, nm)
            if f is None:
                ctx.error("R1", "%s vanished" % nm)
                continue
            calls = [attr_tail(c) for c in calls_in(f) if isinstance(c.func, ast.Attribute) and norm(c.func.value) == "self"]
            if calls == [want]:
                rs.ok({"helper": nm, "does": "self.%s()" % want})
            else:
                ctx.finding(rs, "%s.%s|helper" % (EXT, nm), "%s performs %s, expected exactly one self.%s()"
                            % (nm, calls, want), method_loc(repo, cls, f))
        ctx.floor(rs, 8)

    if ctx.want("R4"):
        rs = ctx.rule("R4", "optimisers interpreted over a brute-force back-end: true optimum / lexicographic optimum / Pareto front, stack restored")
        from . import solver_deep as sd
        res = sd.optimizer_results(repo, ctx.tier)
        for scen, mixin, label, kind, detail in res:
            cls = "SUAOptimizerMixin" if mixin == "sua" else "IncrementalOptimizerMixin"
            name = "%s, %s, %s" % (scen, cls, label)
            if kind == "ok":
                rs.ok({"scenario": scen, "optimizer": cls, "call": label, "result": detail})
            elif kind == "unsupported":
                rs.unrec("%s: %s" % (name, detail[:200]))
            elif kind == "hang":
                ctx.finding(rs, "opt|%s|%s|%s|diverges" % (scen, mixin, label),
                            "%s does not terminate although the optimum is attained (%s)" % (name, detail),
                            "pysmt/optimization/optimizer.py")
            elif kind == "raise":
                ctx.finding(rs, "opt|%s|%s|%s|raises" % (scen, mixin, label), "%s raises %s" % (name, detail),
                            "pysmt/optimization/optimizer.py")
            else:
                ctx.finding(rs, "opt|%s|%s|%s" % (scen, mixin, label), "%s: %s" % (name, detail),
                            "pysmt/optimization/optimizer.py")
        ctx.floor(rs, 80)
