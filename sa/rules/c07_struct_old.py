"""C07 -- SMT-LIB export is well-formed and denotes the same thing as the formula."""
import ast
import re

from ..common import (get_repo, get_ops, get_tables, short, norm, CFG, normal_only, method_loc,
                      calls_in, attr_tail, parents, names_in, dispatch_rule, handler_funcs)
from ..tables import smtlib as T

TREE = "pysmt.smtlib.printers.SmtPrinter"
DAGP = "pysmt.smtlib.printers.SmtDagPrinter"
CMD = "pysmt.smtlib.script.SmtLibCommand"

EXPLANATION = (
    "Static analysis of pysmt/smtlib/printers.py and script.py: for both printers the function "
    "symbol, arity source and index order written for every operator equal the SMT-LIB reference "
    "table (R1, templates extracted from the handlers); the two printers agree operator by operator "
    "(R2); constants: sign handling of Int/Real, #b padding, string quote doubling (R3); "
    "smtlibscript_from_formula emits set-logic, then every sort declaration, then every symbol "
    "declaration, then assert, then check-sat, over the unfiltered sort and symbol sets (R4); every "
    "symbol or sort name that reaches the output passes quote() (R5, taint); let-names avoid user "
    "symbols (R6).")
NOT_DECIDED = ["'same value under every interpretation' beyond operator spelling, argument order and constants"]


def _str_consts(node):
    return [n.value for n in ast.walk(node) if isinstance(n, ast.Constant) and isinstance(n.value, str)]


def extract_name(repo, cls, h, opname, ops):
    """Returns ('nary', name) | ('indexed', ident, [accessors]) | ('template', first token) |
    ('special',) | None for the handler of operator opname in printer cls."""
    f = h.func
    # 1. return self.walk_nary(formula, [args,] "name")
    rets = [n for n in ast.walk(f) if isinstance(n, ast.Return) and isinstance(n.value, ast.Call)]
    for r in rets:
        if attr_tail(r.value) == "walk_nary":
            last = r.value.args[-1]
            if isinstance(last, ast.Constant) and isinstance(last.value, str):
                return ("nary", last.value)
            return ("nary-dynamic", norm(last))
        if attr_tail(r.value) == "_walk_quantifier":
            a0 = r.value.args[0]
            if isinstance(a0, ast.Constant):
                return ("nary", a0.value)
    # 2. indexed identifiers: "(_ extract %d %d)" % (acc1, acc2)   /  "((_ %s %d)" % (kind, acc)
    for n in ast.walk(f):
        if isinstance(n, ast.BinOp) and isinstance(n.op, ast.Mod) and isinstance(n.left, ast.Constant) \
                and isinstance(n.left.value, str) and "(_ " in n.left.value:
            fmt = n.left.value
            vals = n.right.elts if isinstance(n.right, ast.Tuple) else [n.right]
            vals = [v for v in vals if not (isinstance(v, ast.Name) and v.id == "sym")]
            m = re.search(r"\(_ (\S+)((?: %d)+)\)", fmt)
            if not m:
                continue
            ident = m.group(1)
            accs = []
            rest = list(vals)
            if ident == "%s":
                # the identifier is chosen by a predicate on the node
                var = rest.pop(0)
                ident = _resolve_choice(f, var, opname)
            for v in rest:
                if isinstance(v, ast.Call) and norm(v.func.value) == "formula":
                    accs.append(v.func.attr)
                else:
                    accs.append("?" + norm(v))
            return ("indexed", ident, accs)
    # 2b. "(let ((%s (%s" % (sym, "str.++ ")  : operator passed as a constant format argument
    for n in ast.walk(f):
        if isinstance(n, ast.BinOp) and isinstance(n.op, ast.Mod) and isinstance(n.left, ast.Constant) \
                and isinstance(n.left.value, str) and n.left.value.startswith("(let ((%s (%s") and \
                isinstance(n.right, ast.Tuple) and len(n.right.elts) == 2 and isinstance(n.right.elts[1], ast.Constant):
            return ("template", n.right.elts[1].value.strip())
    # 3. literal templates: first string constant written / returned that starts with '('
    for s in _str_consts(f):
        t = s.strip()
        if t.startswith("("):
            body = t[1:].strip()
            if body.startswith("let "):
                continue
            tok = body.split()[0] if body.split() else ""
            if tok and tok not in ("%s", "(%s", "store", "(as"):
                return ("template", tok)
    return None


def _resolve_choice(f, var, opname):
    """`if formula.is_bv_ror(): rotate_type = "rotate_right" else: ... "rotate_left"`"""
    if not isinstance(var, ast.Name):
        return "?"
    pred = "is_" + opname.lower()
    for n in ast.walk(f):
        if isinstance(n, ast.If) and isinstance(n.test, ast.Call) and norm(n.test.func.value) == "formula":
            def assigned(stmts):
                for s in stmts:
                    if isinstance(s, ast.Assign) and norm(s.targets[0]) == var.id and isinstance(s.value, ast.Constant):
                        return s.value.value
                return None
            a, b = assigned(n.body), assigned(n.orelse)
            other_pred = None
            for s in n.orelse:
                if isinstance(s, ast.Assert) and isinstance(s.test, ast.Call):
                    other_pred = s.test.func.attr
            if n.test.func.attr == pred:
                return a
            if other_pred == pred or other_pred is None:
                return b
    return "?"


def run(ctx):
    repo, ops, ht = get_repo(), get_ops(), get_tables()
    ctx.analysed["modules"] = ["pysmt/smtlib/printers.py", "pysmt/smtlib/script.py", "pysmt/typing.py", "pysmt/utils.py"]
    extracted = {}

    if ctx.want("R0"):
        rs = ctx.rule("R0", "exhaustive dispatch of both printers")
        dispatch_rule(ctx, rs, TREE, exempt=T.EXEMPT_PRINT)
        dispatch_rule(ctx, rs, DAGP, exempt=T.EXEMPT_PRINT)
        ctx.floor(rs, 120)

    if ctx.want("R1") or ctx.want("R2"):
        rs = ctx.rule("R1", "operator spelling / index order vs the SMT-LIB reference table")
        for cls in (TREE, DAGP):
            tab = ht.table(cls)
            for o in ops:
                nm = ops.name(o)
                h = tab[o]
                if h.is_error or h.func is None or nm in T.SPECIAL:
                    continue
                ex = extract_name(repo, cls, h, nm, ops)
                extracted[(cls, nm)] = ex
                key = "%s|%s" % (cls, nm)
                if ex is None:
                    rs.unrec("%s: output template of %s not recognised" % (cls.split(".")[-1], nm))
                    continue
                if nm in T.INDEXED:
                    ident, accs = T.INDEXED[nm]
                    if ex[0] != "indexed":
                        rs.unrec("%s %s: expected an indexed identifier, extracted %s" % (cls.split(".")[-1], nm, ex))
                    elif ex[1] == ident and ex[2] == accs:
                        rs.ok({"printer": cls.split(".")[-1], "op": nm, "prints": "(_ %s %s)" % (ident, " ".join(accs))})
                    else:
                        ctx.finding(rs, key + "|indexed",
                                    "%s prints %s as (_ %s %s); SMT-LIB requires (_ %s %s)"
                                    % (cls.split(".")[-1], nm, ex[1], " ".join(ex[2]), ident, " ".join(accs)),
                                    method_loc(repo, h.cls, h.func))
                    continue
                want = T.OP_NAMES.get(nm)
                if want is None:
                    rs.unrec("no reference spelling for %s" % nm)
                    continue
                if ex[0] in ("nary", "template"):
                    if ex[1] in want:
                        rs.ok({"printer": cls.split(".")[-1], "op": nm, "prints": ex[1]})
                    else:
                        ctx.finding(rs, key + "|spelling",
                                    "%s prints operator %s as '%s'; SMT-LIB spelling is %s"
                                    % (cls.split(".")[-1], nm, ex[1], sorted(want)), method_loc(repo, h.cls, h.func))
                else:
                    rs.unrec("%s %s: %s" % (cls.split(".")[-1], nm, ex))
        ctx.floor(rs, 90)

        rs2 = ctx.rule("R2", "the tree printer and the DAG printer agree operator by operator")
        for o in ops:
            nm = ops.name(o)
            a, b = extracted.get((TREE, nm)), extracted.get((DAGP, nm))
            if a is None or b is None:
                continue
            na = a[1:] if a[0] != "template" else a[1:]
            nb = b[1:] if b[0] != "template" else b[1:]
            if tuple(na) == tuple(nb):
                rs2.ok({"op": nm, "both_print": list(na)})
            else:
                ctx.finding(rs2, "%s|printers-disagree" % nm,
                            "SmtPrinter prints %s as %s, SmtDagPrinter as %s" % (nm, a, b),
                            method_loc(repo, ht.table(DAGP)[o].cls, ht.table(DAGP)[o].func))
        ctx.floor(rs2, 45)

    if ctx.want("R3"):
        rs = ctx.rule("R3", "constants: sign outside / abs inside, #b padding to width, quote doubling")
        for cls in (TREE, DAGP):
            tab = ht.table(cls)
            sh = cls.split(".")[-1]
            # Int
            f = tab[ops.id("INT_CONSTANT")].func
            txt = norm(f)
            if "formula.constant_value() < 0" in txt and "'(- ' + str(-formula.constant_value()) + ')'" in txt:
                rs.ok({"printer": sh, "int": "(- n) for negatives"})
            else:
                rs.unrec("%s: " % cls.split(".")[-1] + "negative integers are not printed as (- n)")
            # Real
            f = tab[ops.id("REAL_CONSTANT")].func
            txt = norm(f)
            conds = ["formula.constant_value() < 0" in txt, "'(- %s)'" in txt,
                     "abs(formula.constant_value().numerator)" in txt, "formula.constant_value().denominator" in txt,
                     "'(/ ' + str(n) + '.0 ' + str(d) + '.0)'" in txt, "str(n) + '.0'" in txt]
            if all(conds):
                rs.ok({"printer": sh, "real": "(- (/ n.0 d.0)) with |n|"})
            else:
                rs.unrec("%s REAL_CONSTANT: rational constant printing deviates from (- (/ |n|.0 d.0)) [%s]" % (cls.split(".")[-1], conds))
            # BV
            f = tab[ops.id("BV_CONSTANT")].func
            txt = norm(f)
            if "'#b' + formula.bv_bin_str()" in txt or ("rjust(formula.bv_width(), filler)" in txt and "'#b' + res" in txt and "filler = '0'" in txt):
                rs.ok({"printer": sh, "bv": "#b padded to the node's width"})
            else:
                rs.unrec("%s: " % cls.split(".")[-1] + "bit-vector literal is not #b padded to bv_width()")
            # String
            f = tab[ops.id("STR_CONSTANT")].func
            txt = norm(f)
            if "formula.constant_value().replace('\"', '\"\"')" in txt and txt.count("'\"'") >= 2:
                rs.ok({"printer": sh, "string": "quotes doubled, wrapped in \"...\""})
            else:
                rs.unrec("%s STR_CONSTANT: " % cls.split(".")[-1] + "string literal quoting deviates from \"\" doubling")
            # Bool
            f = tab[ops.id("BOOL_CONSTANT")].func
            iff = [n for n in ast.walk(f) if isinstance(n, ast.If)]
            if iff and norm(iff[0].test) == "formula.constant_value()" and "true" in _str_consts(ast.Module(body=iff[0].body, type_ignores=[])) \
                    and "false" in _str_consts(ast.Module(body=iff[0].orelse, type_ignores=[])):
                rs.ok({"printer": sh, "bool": "true/false"})
            else:
                rs.unrec("%s: " % cls.split(".")[-1] + "Boolean constants are not printed true/false by value")
        ctx.floor(rs, 10)

    if ctx.want("R4"):
        rs = ctx.rule("R4", "script from formula: set-logic < declare-sort* < declare-fun* < assert < check-sat")
        m, f = repo.function("pysmt.smtlib.script.smtlibscript_from_formula")
        cfg = CFG(f)
        def cmdnode(word):
            out = []
            for n in cfg.nodes:
                if n.ast is None or n.kind != "stmt":
                    continue
                for c in calls_in(n.ast):
                    if attr_tail(c) in ("add", "add_command") and ("smtcmd.%s" % word) in norm(c):
                        out.append(n)
            return out
        order = ["SET_LOGIC", "DECLARE_SORT", "DECLARE_FUN", "ASSERT", "CHECK_SAT"]
        nodes = dict((w, cmdnode(w)) for w in order)
        for w in order:
            if not nodes[w]:
                ctx.finding(rs, "smtlibscript_from_formula|missing|%s" % w,
                            "the generated script never emits %s" % w.lower().replace("_", "-"), repo.loc(m, f))
        for i in range(len(order) - 1):
            a, b = order[i], order[i + 1]
            bad = False
            for nb in nodes[b]:
                r = cfg.reachable(nb.id, follow=normal_only)
                for later in order[:i + 1]:
                    if any(x.id in r for x in nodes[later] if x.id != nb.id):
                        bad = (later, b)
            if bad:
                ctx.finding(rs, "smtlibscript_from_formula|order|%s-after-%s" % (bad[0], bad[1]),
                            "%s can be emitted after %s" % (bad[0], bad[1]), repo.loc(m, nodes[b][0].ast))
            elif nodes[a] and nodes[b]:
                rs.ok({"order": "%s before %s" % (a, b)})
        # every path to return passes assert and check-sat
        for w in ("ASSERT", "CHECK_SAT", "SET_LOGIC"):
            if nodes[w] and cfg.must_pass(cfg.entry.id, cfg.ret.id, lambda n, w=w: n in nodes[w], follow=normal_only):
                rs.ok({"always_emitted": w})
            elif nodes[w]:
                ctx.finding(rs, "smtlibscript_from_formula|skippable|%s" % w, "%s is not emitted on every path" % w,
                            repo.loc(m, nodes[w][0].ast))
        # unfiltered sets
        loops = [n for n in ast.walk(f) if isinstance(n, ast.For)]
        src = {}
        for n in ast.walk(f):
            if isinstance(n, ast.Assign) and isinstance(n.targets[0], ast.Name):
                src[n.targets[0].id] = n.value
        for lp in loops:
            it = lp.iter
            e = src.get(it.id) if isinstance(it, ast.Name) else it
            txt = norm(e) if e is not None else ""
            body = norm(lp)
            if "DECLARE_SORT" in body:
                if txt.endswith("typeso.get_types(formula, custom_only=True)"):
                    rs.ok({"sorts_declared": txt})
                else:
                    ctx.finding(rs, "smtlibscript_from_formula|sort-set", "sorts declared range over %s" % txt, repo.loc(m, lp))
                if not any(isinstance(s, ast.Expr) for s in lp.body) or any(isinstance(s, (ast.If, ast.Continue, ast.Break)) for s in lp.body):
                    ctx.finding(rs, "smtlibscript_from_formula|sort-filter", "sort declarations are filtered", repo.loc(m, lp))
            if "DECLARE_FUN" in body:
                if txt == "formula.get_free_variables()":
                    rs.ok({"symbols_declared": txt})
                else:
                    ctx.finding(rs, "smtlibscript_from_formula|symbol-set", "symbols declared range over %s" % txt, repo.loc(m, lp))
                if any(isinstance(s, (ast.If, ast.Continue, ast.Break)) for s in lp.body):
                    ctx.finding(rs, "smtlibscript_from_formula|symbol-filter", "symbol declarations are filtered", repo.loc(m, lp))
        asserts = [c for c in calls_in(f) if attr_tail(c) == "SmtLibCommand" and "smtcmd.ASSERT" in norm(c)]
        if asserts and "args=[formula]" in norm(asserts[0]):
            rs.ok({"asserted": "formula"})
        else:
            rs.unrec("assert command argument")
        ctx.floor(rs, 8)

    if ctx.want("R5"):
        rs = ctx.rule("R5", "every symbol / sort name reaching the output passes quote()")
        sites = []
        # (a) printers: every symbol_name() must be an argument of quote()
        for cls in (TREE, DAGP):
            ci = repo.cls(cls)
            for nm in ci.order:
                f = ci.own_func(nm)
                if f is None:
                    continue
                par = parents(f)
                for c in calls_in(f):
                    if attr_tail(c) == "symbol_name":
                        p = par.get(c)
                        if isinstance(p, ast.Call) and attr_tail(p) == "quote" and c in p.args:
                            rs.ok({"site": "%s.%s" % (cls.split(".")[-1], nm), "name": norm(p)})
                        else:
                            ctx.finding(rs, "%s.%s|unquoted|%s" % (cls, nm, norm(c)),
                                        "%s writes %s without quote(): a symbol whose name needs |...| quoting "
                                        "yields ill-formed SMT-LIB" % (nm, norm(c)), method_loc(repo, cls, c))
        # (b) command serialisation: names written with %s
        cls, f = repo.method(CMD, "serialize")
        for n in ast.walk(f):
            if not (isinstance(n, ast.If) and isinstance(n.test, ast.Compare)):
                continue
            which = norm(n.test)
            for c in [x for s in n.body for x in calls_in(s)]:
                if attr_tail(c) != "write" or not c.args or not isinstance(c.args[0], ast.BinOp):
                    continue
                fmt, vals = c.args[0].left, c.args[0].right
                vals = vals.elts if isinstance(vals, ast.Tuple) else [vals]
                env = {}
                for s in n.body:
                    if isinstance(s, ast.Assign) and isinstance(s.targets[0], ast.Name):
                        env[s.targets[0].id] = s.value
                for v in vals:
                    e = env.get(v.id, v) if isinstance(v, ast.Name) else v
                    t = norm(e)
                    is_name = t.endswith(".symbol_name()") or (t.endswith(".name") and t != "self.name") or \
                        (("DEFINE_FUN" in which or "DEFINE_SORT" in which) and t == "self.args[0]")
                    if not is_name:
                        continue
                    if isinstance(e, ast.Call) and attr_tail(e) == "quote":
                        rs.ok({"command": which, "name": t})
                    elif isinstance(v, ast.Call) and attr_tail(v) == "quote":
                        rs.ok({"command": which, "name": norm(v)})
                    else:
                        ctx.finding(rs, "%s.serialize|unquoted|%s|%s" % (CMD, which.split("smtcmd.")[-1].strip("[]) "), t),
                                    "command serialisation writes the name %s raw (branch %s): names that are not "
                                    "simple symbols produce ill-formed or different SMT-LIB" % (t, which),
                                    method_loc(repo, cls, c))
        # (c) sort syntax: custom sort names in PySMTType.as_smtlib
        ty = repo.cls("pysmt.typing.PySMTType")
        f = ty.own_func("as_smtlib")
        if f is not None:
            txt = norm(f)
            uses_quote = "quote(" in txt
            if uses_quote:
                rs.ok({"PySMTType.as_smtlib": "quotes names"})
            else:
                ctx.finding(rs, "pysmt.typing.PySMTType.as_smtlib|unquoted|self.name",
                            "custom sort names (self.name / self.basename) are written raw by as_smtlib: a sort "
                            "named e.g. 'my sort' gives ill-formed declarations and uses", repo.loc(ty.module, f))
        # quote() itself escapes
        m, q = repo.function("pysmt.utils.quote")
        if "_simple_symbol_prog.match(name) is None" in norm(q) and "in _keywords" in norm(q):
            rs.ok({"quote": "quotes everything that is not a simple symbol, and keywords"})
        else:
            rs.unrec("quote() body changed")
        ctx.floor(rs, 8)

    if ctx.want("R6"):
        rs = ctx.rule("R6", "let names avoid user symbols; nested quantifier bodies get a fresh printer")
        ci = repo.cls(DAGP)
        f = ci.own_func("_new_symbol")
        if f is None:
            ctx.error("R6", "SmtDagPrinter._new_symbol vanished")
        else:
            # Every candidate name that is returned must have been tested against self.names with a
            # negative outcome, and the seed must not move between that test and the use: in the CFG
            # without the false-edges of membership tests the statement computing the result must
            # be unreachable from the entry and from every seed update.
            cfg = CFG(f)
            def is_member_test(n):
                return n.kind == "test" and isinstance(n.ast, ast.Compare) and len(n.ast.ops) == 1 and \
                    isinstance(n.ast.ops[0], (ast.In, ast.NotIn)) and "self.names" in norm(n.ast.comparators[0]) and \
                    "name_seed" in norm(n.ast.left)
            tests = [n for n in cfg.nodes if is_member_test(n)]
            uses = [n for n in cfg.nodes if n.kind == "stmt" and isinstance(n.ast, ast.Assign) and
                    "name_seed" in norm(n.ast.value) and "template" in norm(n.ast.value)]
            incs = [n for n in cfg.nodes if n.kind == "stmt" and isinstance(n.ast, ast.AugAssign) and "name_seed" in norm(n.ast.target)]
            if not tests or not uses:
                rs.unrec("_new_symbol: membership test / candidate computation not recognised")
            else:
                def pruned_reach(src):
                    seen, st = set(), [src]
                    while st:
                        x = st.pop()
                        if x in seen:
                            continue
                        seen.add(x)
                        for (y, lab) in cfg.succ[x]:
                            nd = cfg.nodes[x]
                            if is_member_test(nd):
                                free = "F" if isinstance(nd.ast.ops[0], ast.In) else "T"
                                if lab == free:
                                    continue      # the only way out that certifies the candidate
                            st.append(y)
                    return seen
                bad = None
                r0 = pruned_reach(cfg.entry.id)
                if any(u.id in r0 for u in uses):
                    bad = "a candidate can be used without a negative membership test"
                for i in incs:
                    # updates after the use (the final seed advance) are fine; updates before it must be re-tested
                    if any(u.id in pruned_reach(i.id) for u in uses):
                        bad = "after advancing the seed the new candidate is used without being tested (`if` instead of a loop)"
                if bad:
                    ctx.finding(rs, "%s._new_symbol|untested-candidate" % DAGP,
                                "let-variable names: %s; a user symbol named like the next candidate (.def_N) is captured "
                                "by the let binder" % bad, method_loc(repo, DAGP, f))
                else:
                    rs.ok({"_new_symbol": "every returned candidate was tested not to be in self.names"})
        f = ci.own_func("printer")
        if f is not None and "self.names = set((quote(x.symbol_name()) for x in f.get_free_variables()))" in norm(f):
            rs.ok({"printer": "names initialised from the quoted free variables of the printed term"})
        else:
            rs.unrec("printer(): initialisation of self.names not in the recognised form")
        f = ci.own_func("_walk_quantifier")
        if f is not None and "SmtDagPrinter(self.stream" in norm(f) and "subprinter.printer(formula.arg(0))" in norm(f):
            rs.ok({"_walk_quantifier": "body printed by a fresh sub-printer"})
        else:
            rs.unrec("_walk_quantifier sub-printer")
        # closings balance openings
        f = ci.own_func("printer")
        if f is not None and "self.write(')' * self.openings)" in norm(f):
            rs.ok({"printer": "closes every let opened"})
        else:
            rs.unrec("closing parentheses")
        ctx.floor(rs, 3)

    if ctx.want("R5b"):
        rs = ctx.rule("R5b", "sort syntax: user-defined sort names are quoted wherever they are printed (interpreted)")
        from ..absint import Interp, Explorer, Unsupported
        from ..world import World
        cases = [("my sort", 0, [], False, "|my sort|"), ("my sort", 0, [], True, "() |my sort|"),
                 ("my sort", 1, ["INT"], False, "(|my sort| Int)"), ("my sort", 2, ["INT", "BOOL"], False, "(|my sort| Int Bool)"),
                 ("Elem", 0, [], False, "Elem"), ("Pair", 1, ["REAL"], False, "(Pair Real)"),
                 ("a|b", 0, [], False, "|a\\|b|")]
        for name, arity, params, funstyle, want in cases:
            def one(ex, name=name, arity=arity, params=params, funstyle=funstyle):
                it = Interp(ex)
                w = World().attach(it)
                tm = w.env.attrs["_type_manager"]
                decl = it.call(it.getattr(tm, "Type"), [name, arity])
                ty = decl
                if arity:
                    args = [it.module_global(w.repo.modules["pysmt.typing"], p) for p in params]
                    ty = it.call(it.getattr(tm, "get_type_instance"), [decl] + args)
                return it.call(it.getattr(ty, "as_smtlib"), [], {"funstyle": funstyle})
            try:
                paths = Explorer(max_paths=20).run(one)
            except Unsupported as e:
                rs.unrec("as_smtlib(%r/%d): %s" % (name, arity, e))
                continue
            for p in paths:
                if p.kind == "return" and isinstance(p.value, str):
                    if p.value == want:
                        rs.ok({"sort": "%s/%d" % (name, arity), "printed": p.value})
                    else:
                        ctx.finding(rs, "pysmt.typing.PySMTType.as_smtlib|sort-syntax|%s/%d|%s" % (name, arity, funstyle),
                                    "the sort %r (arity %d) is printed as `%s`; well-formed SMT-LIB is `%s`"
                                    % (name, arity, p.value, want), "pysmt/typing.py")
                elif p.kind == "raise":
                    rs.unrec("as_smtlib(%r/%d) raises %s" % (name, arity, p.value.cls_name))
                else:
                    rs.unrec("as_smtlib(%r/%d): %s" % (name, arity, str(p.value)[:100]))
        ctx.floor(rs, 5)

