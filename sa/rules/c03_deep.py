"""C03 deep rule R3: the typing rule of every operator = constructor (formula.py) composed with the
type-checker handler (type_checker.py), interpreted on operands of representative sorts (symbolic
bit-widths, symbolic index payloads) and compared with the signature table (refsem.result_sort) for
every small value of the symbolic widths / indices: well-sorted applications must be accepted with
the right sort, ill-sorted ones must raise."""
import itertools

from ..common import get_repo, get_ops, parallel_map
from .. import proc, refsem
from ..proc import Shape, S, BOOL, INT, REAL
from .. import simpcheck as sc
from ..absint import Interp, Explorer, Unsupported, AbsRaise, SymInt, eval_term, term_str
from ..world import World, RealMgrWorld

STRING = ("STRING",)
BVW, BVV = ("BV", "W"), ("BV", "V")
ARR = ("ARRAY", INT, INT)
ARRB = ("ARRAY", INT, BOOL)
FUN = ("FUN", INT, (INT,))
CUS = ("CUSTOM", "U")
# user-declared sorts that are merely *named* like built-in ones (types are compared structurally, not by name)
CUSI, CUSS = ("CUSTOM", "Int"), ("CUSTOM", "String")
SORTS = [BOOL, INT, REAL, STRING, BVW, BVV, ARR, ARRB, FUN, CUS]
NAMESAKES = [CUSI, CUSS]

# constructor, operator built, arity (or list of arities), extra python parameters (name -> kind)
CTORS = [
    ("And", "AND", [2, 3]), ("Or", "OR", [2, 3]), ("Not", "NOT", 1), ("Implies", "IMPLIES", 2), ("Iff", "IFF", 2),
    ("Plus", "PLUS", [2, 3]), ("Minus", "MINUS", 2), ("Times", "TIMES", [2, 3]), ("Div", "DIV", 2),
    ("LE", "LE", 2), ("LT", "LT", 2), ("Equals", "EQUALS", 2), ("Ite", "ITE", 3), ("ToReal", "TOREAL", 1),
    ("BVNot", "BV_NOT", 1), ("BVNeg", "BV_NEG", 1), ("BVAnd", "BV_AND", 2), ("BVOr", "BV_OR", 2), ("BVXor", "BV_XOR", 2),
    ("BVAdd", "BV_ADD", 2), ("BVSub", "BV_SUB", 2), ("BVMul", "BV_MUL", 2), ("BVUDiv", "BV_UDIV", 2),
    ("BVURem", "BV_UREM", 2), ("BVSDiv", "BV_SDIV", 2), ("BVSRem", "BV_SREM", 2), ("BVLShl", "BV_LSHL", 2),
    ("BVLShr", "BV_LSHR", 2), ("BVAShr", "BV_ASHR", 2), ("BVULT", "BV_ULT", 2), ("BVULE", "BV_ULE", 2),
    ("BVSLT", "BV_SLT", 2), ("BVSLE", "BV_SLE", 2), ("BVComp", "BV_COMP", 2), ("BVConcat", "BV_CONCAT", 2),
    ("BVToNatural", "BV_TONATURAL", 1),
    ("StrLength", "STR_LENGTH", 1), ("StrConcat", "STR_CONCAT", [1, 2, 3]), ("StrContains", "STR_CONTAINS", 2),
    ("StrIndexOf", "STR_INDEXOF", 3), ("StrReplace", "STR_REPLACE", 3), ("StrSubstr", "STR_SUBSTR", 3),
    ("StrPrefixOf", "STR_PREFIXOF", 2), ("StrSuffixOf", "STR_SUFFIXOF", 2), ("StrToInt", "STR_TO_INT", 1),
    ("IntToStr", "INT_TO_STR", 1), ("StrCharAt", "STR_CHARAT", 2),
    ("Select", "ARRAY_SELECT", 2), ("Store", "ARRAY_STORE", 3),
]
INDEXED = [("BVExtract", "BV_EXTRACT", ["start", "end"]), ("BVRol", "BV_ROL", ["steps"]), ("BVRor", "BV_ROR", ["steps"]),
           ("BVZExt", "BV_ZEXT", ["increase"]), ("BVSExt", "BV_SEXT", ["increase"])]

# documented extensions of pySMT w.r.t. the SMT-LIB signatures
def expected(op, sorts, payload):
    if op == "TOREAL" and list(sorts) == [REAL]:
        return REAL            # ToReal of a Real term is the term itself (documented)
    if op == "POW":
        return REAL if len(sorts) == 2 and sorts[0] == sorts[1] and sorts[0] in (INT, REAL) else None
    return refsem.result_sort(op, list(sorts), payload)


def conc(sort, asg):
    return sc.sort_conc(sc._sort_sym(sort), asg) if False else _conc(sort, asg)


def _conc(sort, asg):
    if sort[0] == "BV":
        return ("BV", asg[sort[1]] if isinstance(sort[1], str) else sort[1])
    if sort[0] == "ARRAY":
        return ("ARRAY", _conc(sort[1], asg), _conc(sort[2], asg))
    if sort[0] == "FUN":
        return ("FUN", _conc(sort[1], asg), tuple(_conc(s, asg) for s in sort[2]))
    return sort


def _pow_job(job):
    ctor, op, (base, exp), _ = job

    def one(ex):
        it = Interp(ex)
        w = RealMgrWorld().attach(it)
        stc = w.new_walker("pysmt.type_checker.SimpleTypeChecker", w.env)
        node = w.app("Pow", w.symbol("t0", base), sc.build(w, exp, []))
        try:
            return (w, node, it.call(it.getattr(stc, "get_type"), [node]))
        except AbsRaise:
            return (w, node, None)
    paths = Explorer(max_paths=20).run(one)
    sorts = (base, exp[2])
    exp_sort = expected("POW", sorts, None)
    for p in paths:
        if p.kind == "unsupported":
            return [(ctor, op, sorts, "unsupported", str(p.value))]
        got = None
        if p.kind == "return":
            w, node, t = p.value
            got = w.sort_of_tyobj(t) if t is not None else ("UNTYPABLE",)
        if exp_sort is None and got is not None:
            return [(ctor, op, sorts, "accepts-ill-typed", "Pow(%s, %s constant) is accepted with type %s; the application "
                     "is ill-sorted" % (_s(base), _s(exp[2]), _s(got)))]
        if exp_sort is not None and got is None:
            return [(ctor, op, sorts, "rejects-well-typed", "Pow(%s, %s constant) is rejected" % (_s(base), _s(exp[2])))]
        if exp_sort is not None and got != exp_sort:
            return [(ctor, op, sorts, "wrong-type", "Pow(%s, %s) typed %s" % (_s(base), _s(exp[2]), _s(got)))]
    return [(ctor, op, sorts, "valid", "1")]


def _job(job):
    res = _job0(job)
    params = job[3]
    if isinstance(params, tuple) and params and params[0] == "same":
        tag = "%s[operands %d and %d are the same node]" % (job[0], params[1], params[2])
        res = [(tag,) + tuple(r[1:]) for r in res]
    return res


def _job0(job):
    ctor, op, sorts, params = job
    if params == "pow":
        return _pow_job(job)
    same = None
    if isinstance(params, tuple) and params and params[0] == "same":
        # the very same node at two operand positions (constructor shortcuts keyed on identity)
        same = params[1:]
        params = []
    names = ["t%d" % i for i in range(len(sorts))]

    def one(ex):
        it = Interp(ex)
        w = RealMgrWorld().attach(it)
        stc = w.new_walker("pysmt.type_checker.SimpleTypeChecker", w.env)
        args = [w.symbol(n, sc._sort(w, s)) for n, s in zip(names, sorts)]
        if same:
            args[same[1]] = args[same[0]]
        kw = dict((p, w.var(p, "idx")) for p in params)
        second = None
        try:
            node = w.app(ctor, *args, **kw)
        except AbsRaise as first:
            # a rejected application is requested again: it must be rejected again (no half-built node handed out)
            try:
                node = w.app(ctor, *args, **kw)
            except AbsRaise:
                raise first
            second = first.cls_name
        if not w.is_node(node):
            raise Unsupported("constructor returned %r" % (node,))
        # the construction went through: the node exists.  What a (fresh) checker says about it:
        try:
            t = it.call(it.getattr(stc, "get_type"), [node])
        except AbsRaise:
            t = None
        return (w, node, t) if second is None else (w, node, t, second)
    try:
        paths = Explorer(max_paths=200).run(one)
    except Unsupported as e:
        return [(ctor, op, sorts, "unsupported", str(e))]
    wvars = sorted(set(s[1] for s in sorts if s[0] == "BV" and isinstance(s[1], str)))
    out = []
    n_ok = 0
    for wv in itertools.product([1, 2, 3], repeat=len(wvars)):
        base = dict(zip(wvars, wv))
        maxw = max(wv) if wv else 2
        for pv in itertools.product(range(-1, maxw + 3), repeat=len(params)):
            asg = dict(base)
            asg.update(zip(params, pv))
            cs = [_conc(s, asg) for s in sorts]
            payload = None
            if op == "BV_EXTRACT":
                payload = (asg["start"], asg["end"])
            elif params:
                payload = (asg[params[0]],)
            try:
                exp = expected(op, cs, payload)
            except refsem.NoSemantics:
                return [(ctor, op, sorts, "unsupported", "no signature for %s" % op)]
            # which path does this assignment follow?
            for p in paths:
                try:
                    if not sc.facts_hold(p.facts(), asg):
                        continue
                except KeyError:
                    continue
                if p.kind == "unsupported":
                    return [(ctor, op, sorts, "unsupported", str(p.value))]
                if p.kind == "raise":
                    got = None
                    how = p.value.cls_name
                else:
                    w, node, t = p.value[:3]
                    try:
                        got = sc.sort_conc(w.sort_of_tyobj(t), asg) if t is not None else ("UNTYPABLE",)
                    except Exception as e:
                        return [(ctor, op, sorts, "unsupported", "type object %r" % (t,))]
                    how = "accepted"
                    if len(p.value) > 3:
                        out.append((ctor, op, sorts, "accepts-ill-typed" if exp is None else "rejects-well-typed",
                                    "%s(%s)%s is rejected (%s) when it is requested first and handed out as a formula when it is requested again"
                                    % (ctor, ", ".join(map(_s, cs)), (" %s" % dict(zip(params, pv))) if params else "", p.value[3])))
                        break
                    if t is not None and w.opname(node) != op and exp is None:
                        # the constructor rewrote the application into something else that is well typed
                        how = "rewritten to %s" % w.opname(node)
                if exp is None and got is not None:
                    out.append((ctor, op, sorts, "accepts-ill-typed",
                                "%s(%s)%s is accepted with type %s; the application is ill-sorted"
                                % (ctor, ", ".join(map(_s, cs)), (" %s" % dict(zip(params, pv))) if params else "", _s(got))))
                elif exp is not None and got is None:
                    out.append((ctor, op, sorts, "rejects-well-typed",
                                "%s(%s)%s is rejected (%s); it is well-sorted with sort %s"
                                % (ctor, ", ".join(map(_s, cs)), (" %s" % dict(zip(params, pv))) if params else "", how, _s(exp))))
                elif exp is not None and got != exp:
                    out.append((ctor, op, sorts, "wrong-type",
                                "%s(%s)%s gets type %s, the typing rule gives %s"
                                % (ctor, ", ".join(map(_s, cs)), (" %s" % dict(zip(params, pv))) if params else "", _s(got), _s(exp))))
                else:
                    n_ok += 1
                break
    if out:
        # one report per (kind) is enough
        seen = set()
        res = []
        for o in out:
            if o[3] not in seen:
                seen.add(o[3])
                res.append(o)
        return res
    return [(ctor, op, sorts, "valid", "%d value assignments" % n_ok)]


def _s(sort):
    if sort is None:
        return "None"
    if sort[0] == "BV":
        return "BV%s" % sort[1]
    if sort[0] == "ARRAY":
        return "Array(%s,%s)" % (_s(sort[1]), _s(sort[2]))
    if sort[0] == "FUN":
        return "Fun"
    if sort[0] == "CUSTOM":
        return "U" if sort[1] == "U" else "sort-named-%s" % sort[1]
    return sort[0].title()


def jobs(tier):
    out = []
    for ctor, op, ar in CTORS:
        for n in (ar if isinstance(ar, list) else [ar]):
            if n <= 2:
                combos = list(itertools.product(SORTS, repeat=n))
                # namesake sorts next to the built-in sort they are named after and next to themselves
                for ns, bi in ((CUSI, INT), (CUSS, STRING)):
                    combos += [(ns,)] if n == 1 else [(ns, bi), (bi, ns), (ns, ns), (ns, CUS), (ARR, ns)]
            else:
                # three operands: all triples over a reduced set, plus every sort in every position
                red = [BOOL, INT, STRING, BVW, ARR] if tier == "thorough" else [BOOL, INT, BVW]
                combos = set(itertools.product(red, repeat=3))
                for s in SORTS:
                    for base in itertools.product(red if tier == "thorough" else [BOOL, INT, STRING, ARR], repeat=2):
                        combos.add((s,) + base)
                        combos.add((base[0], s, base[1]))
                        combos.add(base + (s,))
                combos = sorted(combos)
            for c in combos:
                out.append((ctor, op, tuple(c), []))
                for i in range(n):
                    for j in range(i + 1, n):
                        if c[i] == c[j] and (n <= 2 or tier == "thorough" or len(set(c)) <= 2):
                            out.append((ctor, op, tuple(c), ("same", i, j)))
    for ctor, op, params in INDEXED:
        for s in SORTS:
            out.append((ctor, op, (s,), params))
    for base, exp in ((BOOL, ("lit", True, BOOL)), (INT, ("lit", 2, INT)), (REAL, ("lit", 2, REAL)),
                      (INT, ("lit", 2, REAL)), (STRING, ("lit", "a", STRING)), (REAL, ("lit", 2, INT))):
        out.append(("Pow", "POW", (base, exp), "pow"))
    return out


def run(ctx):
    if not ctx.want("R3"):
        return
    rs = ctx.rule("R3", "real manager: ill-sorted applications raise at construction, well-sorted ones get the sort of the signature table")
    js = jobs(ctx.tier)
    ctx.analysed["typing_rule_instances"] = len(js)
    for res in parallel_map(_job, js):
        for ctor, op, sorts, kind, detail in res:
            key = "%s|%s|%s" % (ctor, ",".join(_s(s) if not (s[0] == "BV") else "BV" + str(s[1]) for s in sorts), kind)
            if kind == "valid":
                rs.ok({"application": "%s(%s)" % (ctor, ", ".join(_s(s) if s[0] != "BV" else "BV_" + str(s[1]) for s in sorts)),
                       "checked": detail})
            elif kind == "unsupported":
                rs.unrec("%s%s: %s" % (ctor, tuple(_s(s) for s in sorts), detail[:100]))
            else:
                ctx.finding(rs, key, detail, "pysmt/type_checker.py")
    ctx.floor(rs, 2000)
