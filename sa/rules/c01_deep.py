"""C01 deep rules: extracted rewrite rules / constant folds of Simplifier decided against the
reference semantics (R3/R4), sort of every result (R8), handler raising on well-typed operands (R3r).
Shared with C02 (the value of a ground term *is* the fold)."""
import itertools

from ..common import get_repo, get_ops, get_tables, method_loc
from .. import simpcheck as sc

SIMPLIFIER = "pysmt.simplifier.Simplifier"
BVW, BVV = ("BV", "W"), ("BV", "V")
BOOL, INT, REAL, STRING = ("BOOL",), ("INT",), ("REAL",), ("STRING",)

BV_BIN = ["BV_AND", "BV_OR", "BV_XOR", "BV_ADD", "BV_SUB", "BV_MUL", "BV_UDIV", "BV_UREM", "BV_SDIV", "BV_SREM",
          "BV_LSHL", "BV_LSHR", "BV_ASHR", "BV_ULT", "BV_ULE", "BV_SLT", "BV_SLE", "BV_COMP"]
BV_UN = ["BV_NOT", "BV_NEG", "BV_TONATURAL"]


def S(name, sort):
    return ("sym", name, sort)


def C(name, sort):
    return ("const", name, sort)


def L(v, sort):
    return ("lit", v, sort)


def A(ctor, *specs):
    return ("app", ctor, list(specs))


def configs(tier="quick"):
    """(operator, [operand specs]) for every operator in scope."""
    out = []
    for op in BV_BIN:
        out += [(op, [C("c0", BVW), S("x", BVW)]), (op, [S("x", BVW), C("c1", BVW)]),
                (op, [C("c0", BVW), C("c1", BVW)]), (op, [S("x", BVW), ("same", 0)]),
                (op, [S("x", BVW), S("y", BVW)])]
    out += [("BV_CONCAT", [C("c0", BVW), C("c1", BVV)]), ("BV_CONCAT", [C("c0", BVW), S("y", BVV)]),
            ("BV_CONCAT", [S("x", BVW), C("c1", BVV)]), ("BV_CONCAT", [S("x", BVW), S("y", BVV)])]
    for op in BV_UN:
        out += [(op, [C("c0", BVW)]), (op, [S("x", BVW)])]
    # bit-string folds and arithmetic shift: concrete small widths, symbolic value
    for W in (1, 2, 3, 4):
        bw = ("BV", W)
        for st in range(W):
            for en in range(st, W):
                out.append(("BV_EXTRACT", [C("c0", bw)], {"start": st, "end": en}))
        for k in range(0, W + 1):
            out.append(("BV_ROL", [C("c0", bw)], {"steps": k}))
            out.append(("BV_ROR", [C("c0", bw)], {"steps": k}))
        for k in (0, 1, 2):
            out.append(("BV_ZEXT", [C("c0", bw)], {"increase": k}))
            out.append(("BV_SEXT", [C("c0", bw)], {"increase": k}))
        for sh in range(0, min(1 << W, W + 2)):
            out.append(("BV_ASHR", [C("c0", bw), L(sh, bw)]))
    out += [("BV_EXTRACT", [S("x", ("BV", 4))], {"start": 1, "end": 2}), ("BV_ROL", [S("x", ("BV", 4))], {"steps": 1}),
            ("BV_ROR", [S("x", ("BV", 4))], {"steps": 3}), ("BV_ZEXT", [S("x", ("BV", 3))], {"increase": 2}),
            ("BV_SEXT", [S("x", ("BV", 3))], {"increase": 2})]
    # Boolean connectives
    p, q, r = S("p", BOOL), S("q", BOOL), S("r", BOOL)
    T, F = L(True, BOOL), L(False, BOOL)
    np_ = A("Not", p)
    bool_menu = [T, F, p, q, np_]
    for op in ("AND", "OR"):
        for a, b in itertools.product(bool_menu, repeat=2):
            out.append((op, [a, b]))
        out.append((op, [p, ("same", 0)]))
        out += [(op, [p, q, r]), (op, [p, T, q]), (op, [p, F, q]), (op, [p, q, np_]), (op, [np_, q, p]),
                (op, [p, A("And", q, r)]), (op, [p, A("Or", q, r)]), (op, [A("And", p, q), A("And", np_, r)]),
                (op, [A("Or", p, q), A("Or", np_, r)]), (op, [A("Or", q, np_), p]), (op, [A("And", q, np_), p]),
                (op, [p, A("Or", np_, q)]), (op, [p, A("And", np_, q)]), (op, [T, T]), (op, [F, F, p])]
    for a in (T, F, p, np_, A("And", p, q)):
        out.append(("NOT", [a]))
    for op in ("IMPLIES", "IFF"):
        for a, b in itertools.product([T, F, p, q], repeat=2):
            out.append((op, [a, b]))
        out.append((op, [p, ("same", 0)]))
        out.append((op, [p, np_]))
    x, y = S("x", INT), S("y", INT)
    for c in (T, F, p):
        out += [("ITE", [c, x, y]), ("ITE", [c, x, ("same", 1)]), ("ITE", [c, q, r]),
                ("ITE", [c, S("a", BVW), S("b", BVW)]), ("ITE", [c, C("c0", INT), C("c1", INT)])]
    # arithmetic, both sorts
    for sort, nm in ((INT, "i"), (REAL, "r")):
        x, y, z = S("x" + nm, sort), S("y" + nm, sort), S("z" + nm, sort)
        c0, c1 = C("c0", sort), C("c1", sort)
        zero, one = L(0, sort), L(1, sort)
        for op in ("MINUS", "DIV", "LE", "LT", "EQUALS"):
            out += [(op, [c0, c1]), (op, [c0, x]), (op, [x, c1]), (op, [x, y]), (op, [x, ("same", 0)]),
                    (op, [x, zero]), (op, [zero, x]), (op, [x, one])]
        out += [("LE", [zero, A("Minus", x, y)]), ("LE", [A("Minus", x, y), zero]),
                ("LT", [zero, A("Minus", x, y)]), ("LT", [A("Minus", x, y), zero])]
        for op in ("PLUS", "TIMES"):
            out += [(op, [c0, c1]), (op, [c0, x]), (op, [x, c1]), (op, [x, y]), (op, [x, ("same", 0)]),
                    (op, [x, zero]), (op, [zero, x]), (op, [x, one]), (op, [one, x]), (op, [x, y, c0]),
                    (op, [c0, x, c1]), (op, [x, A("Plus", y, z)]), (op, [x, A("Minus", y, z)]),
                    (op, [x, A("Times", y, c0)]), (op, [A("Times", x, c0), A("Times", y, c1)]),
                    (op, [A("Minus", x, y), A("Minus", y, z)]), (op, [x, A("Times", y, L(-1, sort))]),
                    (op, [A("Times", x, L(-1, sort)), A("Times", y, L(-2, sort))]), (op, [c0, zero]),
                    (op, [x, A("Times", y, z)])]
    out += [("TOREAL", [C("c0", INT)]), ("TOREAL", [S("xi", INT)])]
    out += [("POW", [C("c0", REAL), L(2, REAL)]), ("POW", [S("xr", REAL), L(2, REAL)]),
            ("POW", [S("xi", INT), L(2, INT)])]
    out += [("EQUALS", [C("c0", BVW), C("c1", BVW)]), ("EQUALS", [S("a", BVW), ("same", 0)]),
            ("EQUALS", [S("a", BVW), C("c1", BVW)]), ("EQUALS", [S("a", BVW), S("b", BVW)])]
    # strings: literal operands (string folds are computed with Python primitives on literals)
    strs = ["", "a", "abc", "ab12", "12", "-5", "1_0", " 7"]
    idxs = [-2, -1, 0, 1, 2, 5]
    for s in strs:
        out += [("STR_LENGTH", [L(s, STRING)]), ("STR_TO_INT", [L(s, STRING)])]
    for i in [-3, 0, 7, 12]:
        out.append(("INT_TO_STR", [L(i, INT)]))
    for s in ["abc", ""]:
        for i in idxs:
            out.append(("STR_CHARAT", [L(s, STRING), L(i, INT)]))
            for j in [-1, 0, 1, 2, 9]:
                out.append(("STR_SUBSTR", [L(s, STRING), L(i, INT), L(j, INT)]))
    for s, t in [("abcabc", "c"), ("abc", ""), ("abc", "x"), ("", "")]:
        for i in idxs + [3, 4, 6, 7]:
            out.append(("STR_INDEXOF", [L(s, STRING), L(t, STRING), L(i, INT)]))
        out += [("STR_CONTAINS", [L(s, STRING), L(t, STRING)]), ("STR_PREFIXOF", [L(t, STRING), L(s, STRING)]),
                ("STR_SUFFIXOF", [L(t, STRING), L(s, STRING)]), ("STR_PREFIXOF", [L(s, STRING), L(t, STRING)]),
                ("STR_REPLACE", [L(s, STRING), L(t, STRING), L("ZZ", STRING)]),
                ("STR_CONCAT", [L(s, STRING), L(t, STRING)]), ("STR_CONCAT", [L(s, STRING), L(t, STRING), L("k", STRING)])]
    out += [("STR_LENGTH", [S("s", STRING)]), ("STR_CONCAT", [S("s", STRING), L("a", STRING)]),
            ("STR_CHARAT", [S("s", STRING), L(0, INT)]), ("STR_TO_INT", [S("s", STRING)]),
            ("STR_PREFIXOF", [L("a", STRING), L("abc", STRING)]), ("STR_SUFFIXOF", [L("bc", STRING), L("abc", STRING)]),
            ("STR_SUFFIXOF", [L("abc", STRING), L("bc", STRING)])]
    return out


_CACHE = {}


def all_verdicts(tier="quick"):
    key = tier
    if key in _CACHE:
        return _CACHE[key]
    from ..common import parallel_map
    cfgs = configs(tier)
    outs = parallel_map(_one, cfgs)
    res = [(c[0], c[1], vs) for c, vs in zip(cfgs, outs)]
    _CACHE[key] = res
    return res


def _one(cfg):
    op, specs = cfg[0], cfg[1]
    vs = sc.analyse(SIMPLIFIER, op, specs, payload_kwargs=cfg[2] if len(cfg) > 2 else None)
    for v in vs:
        v.detail = str(v.detail) if not isinstance(v.detail, str) else v.detail
    return vs


def run(ctx):
    repo, ops, ht = get_repo(), get_ops(), get_tables()
    tab = ht.table(SIMPLIFIER)
    res = all_verdicts(ctx.tier)
    ctx.analysed["operand_configurations"] = len(res)

    want3 = ctx.want("R3")
    want8 = ctx.want("R8")
    if not (want3 or want8):
        return
    rs3 = ctx.rule("R3", "extracted rewrite rules / constant folds are valid (reference semantics, small domains)")
    rs8 = ctx.rule("R8", "every result has the sort of the simplified formula")
    rsr = ctx.rule("R3r", "no handler raises on well-typed operands")
    seen = set()
    for op, specs, vs in res:
        h = tab[ops.id(op)]
        for v in vs:
            key = "%s.%s|%s|%s" % (h.cls, h.name, v.config, v.cond_str())
            if key in seen:
                continue
            seen.add(key)
            loc = method_loc(repo, h.cls, h.func)
            if v.kind == "valid":
                rs3.ok({"rule": "%s if %s => %s" % (v.config, v.cond_str(), v.result), "checked": v.detail})
                rs8.ok(None)
                rsr.ok(None)
            elif v.kind == "invalid":
                ctx.finding(rs3, key, "simplification rule of %s is wrong: %s, when %s, is rewritten to %s, but %s"
                            % (h.name, v.config, v.cond_str(), v.result, v.detail), loc)
            elif v.kind == "sort":
                ctx.finding(rs8, key, "%s changes the sort: %s when %s gives %s; %s"
                            % (h.name, v.config, v.cond_str(), v.result, v.detail), loc)
            elif v.kind == "raises":
                ctx.finding(rsr, key, "%s raises on well-typed operands: %s when %s: %s"
                            % (h.name, v.config, v.cond_str(), v.detail), loc)
            elif v.kind in ("unsupported", "nosem"):
                rs3.unrec("%s [%s]: %s" % (v.config, v.cond_str()[:60], str(v.detail)[:90]))
            # vacuous paths are not obligations
    rs3.exhaustive = False
    rs3.notes.append("each rule is decided for all bit-vector values at widths 1..4 (fewer for >2 variables), "
                     "Int in {-3,-1,0,1,2,7}, Real in {-2,-1/2,0,1,3/2}, all Boolean valuations")
    ctx.floor(rs3, 400)
