"""C01 rule R4: array folds.  Simplifier.simplify is interpreted on terms over constant arrays (array values with
explicit assignments), stores and selects at constant and symbolic indices, and equalities between array values; the
result must denote, under every assignment of the symbols (array symbols range over a few array values), what the
input denotes - arrays are compared as functions (default element + exceptions)."""
from ..common import parallel_map
from .. import proc, refsem
from ..proc import Shape, S, BOOL, INT
from .. import simpcheck as sc

ARR = ("ARRAY", INT, INT)


def shapes():
    def L(v):
        return ("lit", v, INT)

    def AV(default, *pairs):
        return ("Array", ("type", INT), L(default), ("dict",) + tuple((L(i), L(v)) for i, v in pairs))
    a = S("m", ARR)
    i, j, x = S("i", INT), S("j", INT), S("x", INT)
    sh = []
    consts = [AV(0), AV(0, (1, 5)), AV(7, (1, 5), (2, 7)), AV(0, (1, 0))]
    for c in consts:
        for k in (0, 1, 2):
            sh.append(("Equals", ("Select", c, L(k)), x))
            for v in (0, 5, 7):
                sh.append(("Equals", ("Select", ("Store", c, L(k), L(v)), j), x))
                sh.append(("Equals", ("Store", c, L(k), L(v)), a))
        sh.append(("Equals", ("Select", c, i), x))
        sh.append(("Equals", ("Store", c, i, x), a))
    for c, d in [(consts[0], consts[0]), (consts[0], consts[3]), (consts[1], consts[2]), (consts[1], AV(0, (1, 5))),
                 (AV(0, (1, 5), (2, 6)), AV(0, (2, 6), (1, 5))), (consts[1], ("Store", consts[0], L(1), L(5))),
                 (consts[0], ("Store", consts[1], L(1), L(0)))]:
        sh.append(("Equals", c, d))
        sh.append(("Not", ("Equals", c, d)))
    sh += [("Equals", ("Select", ("Store", a, L(1), L(5)), L(1)), x), ("Equals", ("Select", ("Store", a, L(1), L(5)), L(2)), x),
           ("Equals", ("Select", ("Store", a, i, x), i), x), ("Equals", ("Select", ("Store", a, i, x), j), x),
           ("Equals", ("Store", ("Store", a, L(1), L(5)), L(1), L(6)), a),
           ("Equals", ("Store", ("Store", a, L(1), L(5)), L(2), L(6)), ("Store", ("Store", a, L(2), L(6)), L(1), L(5))),
           ("Equals", ("Store", a, i, ("Select", a, i)), a)]
    # finite index sorts (BV{1}, Bool): once every index has an explicit entry the default is irrelevant, so one array
    # has several array-value spellings; equal arrays may be different nodes
    BV1, BV8 = ("BV", 1), ("BV", 8)

    def FV(idx, el, default, *pairs):
        return ("Array", ("type", idx), ("lit", default, el),
                ("dict",) + tuple((("lit", i, idx), ("lit", v, el)) for i, v in pairs))
    fin = [(FV(BV1, BV8, 0, (0, 1), (1, 1)), FV(BV1, BV8, 1)),
           (FV(BV1, BV8, 0, (0, 1)), FV(BV1, BV8, 1, (1, 0))),
           (FV(BV1, BV8, 0, (0, 1)), FV(BV1, BV8, 1)),
           (FV(BV1, BV8, 0), FV(BV1, BV8, 0)),
           (FV(BV1, INT, 3, (1, 4)), FV(BV1, INT, 4, (0, 3))),
           (FV(BOOL, INT, 3, (True, 4)), FV(BOOL, INT, 4, (False, 3))),
           (FV(BOOL, INT, 3, (True, 4)), FV(BOOL, INT, 4)),
           (FV(("BV", 2), INT, 0, (0, 1), (1, 1), (2, 1), (3, 1)), FV(("BV", 2), INT, 1)),
           (FV(("BV", 2), INT, 0, (0, 1), (1, 1), (2, 1)), FV(("BV", 2), INT, 1))]
    fa = S("fm", ("ARRAY", BV1, BV8))
    fx = S("fx", BV8)
    for c, d in fin:
        sh.append(("Equals", c, d))
        sh.append(("Not", ("Equals", c, d)))
        sh.append(("Iff", ("Equals", c, d), S("q", BOOL)))
    sh += [("Equals", ("Store", fin[0][1], ("lit", 0, BV1), ("lit", 1, BV8)), fin[0][1]),
           ("Equals", ("Store", ("Store", fin[3][0], ("lit", 0, BV1), ("lit", 1, BV8)), ("lit", 1, BV1), ("lit", 1, BV8)), fin[0][1]),
           ("Equals", ("Select", fin[1][0], ("lit", 1, BV1)), fx),
           ("Equals", ("Store", fin[1][0], ("lit", 1, BV1), ("lit", 1, BV8)), fa)]
    # a bound variable that occurs only inside an array value (default or stored value): the quantifier is not vacuous
    B2 = ("BV", 2)
    xq, iq, jq = S("xq", B2), S("iq", B2), S("jq", B2)
    one2 = ("lit", 1, B2)
    sh += [("forall", [("xq", B2)], ("Equals", ("Select", ("Array", ("type", B2), xq), iq), one2)),
           ("exists", [("xq", B2)], ("Equals", ("Select", ("Array", ("type", B2), ("lit", 0, B2), ("dict", (one2, xq))), iq), jq)),
           ("forall", [("xq", B2)], ("exists", [("iq", B2)], ("Equals", ("Select", ("Store", ("Array", ("type", B2), xq), iq, jq), iq), xq))),
           ("And", ("Equals", iq, jq), ("exists", [("xq", B2)], ("Not", ("Equals", ("Array", ("type", B2), xq), ("Array", ("type", B2), jq)))))]
    out = [Shape(t) for t in sh]
    # two simplifications in one environment: a store over an array value, then another store over the same value
    AV2 = AV(0, (1, 10))
    p_ = S("p", INT)
    for first, second in [(("Equals", ("Store", AV2, L(2), p_), a), ("Equals", ("Store", AV2, L(3), L(30)), a)),
                          (("Equals", ("Store", AV2, L(2), L(20)), a), ("Equals", ("Select", ("Store", AV2, L(3), L(30)), L(2)), x)),
                          (("Equals", ("Select", ("Store", AV2, i, x), j), x), ("Equals", ("Store", AV2, j, L(5)), a)),
                          (("Equals", ("Store", AV2, L(1), L(11)), a), ("Equals", ("Select", AV2, L(1)), x))]:
        out.append(Shape(("after", first, second)))
    return out


def _job(shape, world_cls=None):
    seq = isinstance(shape.t, tuple) and shape.t[0] == "after"
    if seq:
        first_t, second_t = shape.t[1], shape.t[2]
        shape = Shape(second_t)
        shape.tag = "%s after simplify(%s)" % (proc.shape_str(second_t), proc.shape_str(first_t))

    def call(w, it, f):
        if seq:
            it.call(it.getattr(proc.build_shape(w, first_t), "simplify"), [])
            return it.call(it.getattr(f, "simplify"), [])
        simp = w.new_walker("pysmt.simplifier.Simplifier", w.env)
        return it.call(it.getattr(simp, "simplify"), [f])

    def post(w, f, r, facts):
        if not w.is_node(r):
            return proc.ProcResult(shape, "invalid", "simplify returned %r" % (r,))
        n = 0
        for asg in sc.assignments(w, [f, r], facts):
            try:
                want, got = sc.nodeval(w, f, asg), sc.nodeval(w, r, asg)
            except refsem.Undefined:
                continue
            except (refsem.NoSemantics, sc.Malformed) as e:
                return proc.ProcResult(shape, "unsupported", str(e))
            n += 1
            if want != got:
                return proc.ProcResult(shape, "invalid", "simplifies to %s, which under %s denotes %r; the input denotes %r"
                                       % (sc.node_str(w, r), sc._show(asg), got, want), sc.node_str(w, r))
        if n == 0:
            return proc.ProcResult(shape, "vacuous", "no assignment evaluated")
        return proc.ProcResult(shape, "valid", "%d assignments" % n, sc.node_str(w, r))
    res = proc.run_proc(shape, call, post=post, services="full", world_cls=world_cls)
    return [(getattr(shape, "tag", None) or repr(shape), r.kind, str(r.detail), r.result) for r in res]


def run(ctx):
    if not ctx.want("R4"):
        return
    rs = ctx.rule("R4", "array folds: simplify preserves the denotation of terms over constant arrays, stores and selects")
    for res in parallel_map(_job, shapes()):
        for shape, kind, detail, result in res:
            if kind == "valid":
                rs.ok({"term": shape, "result": (result or "")[:120], "checked": detail})
            elif kind == "invalid":
                ctx.finding(rs, "array-fold|%s" % shape, "simplify(%s): %s" % (shape, detail), "pysmt/simplifier.py")
            elif kind == "raises":
                ctx.finding(rs, "array-fold|%s|raises" % shape, "simplify(%s) raises %s" % (shape, detail), "pysmt/simplifier.py")
            elif kind != "vacuous":
                rs.unrec("%s: %s" % (shape, detail[:160]))
    ctx.floor(rs, 60)
