"""C07 -- SMT-LIB export is well-formed and denotes the same thing as the formula."""
from ..common import get_repo, get_ops, get_tables, dispatch_rule
from ..tables import smtlib as T

TREE = "pysmt.smtlib.printers.SmtPrinter"
DAGP = "pysmt.smtlib.printers.SmtDagPrinter"
CMD = "pysmt.smtlib.script.SmtLibCommand"

EXPLANATION = (
    "Abstract interpretation of the export path - smtlibscript_from_formula (logic detection by the "
    "oracles, sort and symbol declarations), SmtLibScript.serialize / SmtLibCommand.serialize, SmtPrinter, "
    "SmtDagPrinter and to_smtlib, with typing.as_smtlib and utils.quote - on ~125 concrete operator "
    "skeletons in tree and let-DAG form: every operator, constants of every kind (negative, rational, "
    "integer-valued Real, bit-vectors of width 1/8/9, strings with quotes), arrays and constant arrays, "
    "uninterpreted functions, plain and parametric user sorts, quantifiers with sharing across the binder, "
    "symbol / sort names that need quoting, are reserved words or collide with the printer's own let names. "
    "The text the interpreted printer wrote is read by an independent reader of SMT-LIB 2.6 (sa/refsmt.py, "
    "written from the standard): it must be well-formed - every sort and symbol declared before use and once, "
    "well-sorted, simultaneous let, binder scoping - and its single assertion must denote the skeleton: "
    "structurally equal after let-expansion, or equal in value under every assignment over small domains "
    "(R9).  Every script of the import corpus (~120, with push / pop, definitions, re-declarations after a pop), "
    "written again by the interpreted SmtLibScript.serialize in both forms, is well-formed for the independent reader "
    "- which forgets declarations at a pop - and has the live assertions of the original (R8).  Exhaustive dispatch of both printers over the operator universe (R0).")
NOT_DECIDED = ["formulas outside the skeleton menu (deeper nesting, other constants): the rule decides the menu, "
               "which covers every operator, every constant kind and every naming hazard listed above",
               "denotation of array-valued terms is compared structurally only (no array model in the evaluator)"]

# names equal to function symbols of the SMT-LIB theories cannot be declared at all (quoting does not help:
# |and| is the symbol and); exporting them needs a renaming scheme pySMT does not have
THEORY_NAME_SHAPES = ("And(and, Or(and, a), Not(Or(and, a)))", "And(true, Or(true, a), Not(Or(true, a)))")


def run(ctx):
    repo, ops, ht = get_repo(), get_ops(), get_tables()
    ctx.analysed["modules"] = ["pysmt/smtlib/printers.py", "pysmt/smtlib/script.py", "pysmt/typing.py", "pysmt/utils.py",
                               "pysmt/oracles.py", "pysmt/logics.py", "pysmt/walkers/tree.py", "pysmt/walkers/dag.py"]

    if ctx.want("R0"):
        rs = ctx.rule("R0", "exhaustive dispatch of both printers")
        dispatch_rule(ctx, rs, TREE, exempt=T.EXEMPT_PRINT)
        dispatch_rule(ctx, rs, DAGP, exempt=T.EXEMPT_PRINT)
        ctx.floor(rs, 120)

    if ctx.want("R8"):
        rs = ctx.rule("R8", "scripts written by SmtLibScript.serialize (commands incl. push / pop and re-declarations) are well-formed for the independent reader and keep the live assertions")
        from . import text_deep as td
        for r in td.import_results(repo, ctx.tier):
            re_ = r.get("reexport")
            if re_ is None:
                continue
            if re_[0] == "valid":
                rs.ok({"script": r["name"], "result": re_[1]})
            elif re_[0] == "invalid":
                ctx.finding(rs, "script-export|%s" % r["name"], "script %s: %s" % (r["name"], re_[1]), "pysmt/smtlib/script.py")
            else:
                rs.unrec("%s: %s" % (r["name"], re_[1][:160]))
        ctx.floor(rs, 60)

    if ctx.want("R9"):
        rs = ctx.rule("R9", "exported text read by the independent reader: well-formed and denotes the skeleton")
        from . import text_deep as td
        res = td.export_results(repo, ctx.tier)
        covered = set()
        for r in res:
            form = "let-DAG" if r["dag"] else "tree"
            kind, detail = r["c07"]
            covered |= set(r.get("ops", []))
            if kind == "valid":
                rs.ok({"skeleton": r["shape"], "form": form, "checked": detail})
            elif kind in ("invalid", "raises"):
                ctx.finding(rs, "export|%s" % r["shape"],
                            "export of %s (%s form): %s%s" % (r["shape"], form, detail,
                                                             (" [text: %s]" % r["text"].replace("\n", " ")[:300]) if r["text"] else ""),
                            "pysmt/smtlib/printers.py")
            else:
                rs.unrec("%s (%s): %s" % (r["shape"], form, detail[:160]))
        missing = [ops.name(o) for o in ops if ops.name(o) not in covered and ops.name(o) not in T.EXEMPT_PRINT]
        ctx.analysed["operators_covered_by_skeletons"] = len(covered)
        if missing:
            rs.unrec("operators not exercised by any skeleton: %s" % missing)
        ctx.floor(rs, 200)
