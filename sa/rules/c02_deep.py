"""C02 deep rule R5: EagerModel interpreted on operator skeletons with a model that assigns *symbolic*
constants to the free symbols (so one run stands for every value of the model).

  get_value(f)                  must be a constant whose value is the reference value of f under the model,
                                on every path and for every value of the model's constants (small domains,
                                bit-vectors exhaustively);
  satisfies(f)                  True exactly when that value is true (Boolean skeletons);
  model[f], get_py_value(f)     agree with get_value;
  completion                    with an empty model and model_completion=True the value is the one under the
                                documented defaults (false, 0, zero bit-vector); with model_completion=False the
                                call raises or returns a value that holds under every completion.
"""
from ..absint import AbsRaise, AObj, ClassRef, Unsupported, SymInt, SymBool
from ..common import get_repo, parallel_map
from .. import proc, refsem
from ..proc import Shape, S, BOOL, INT, REAL
from .. import simpcheck as sc

EAGER = "pysmt.solvers.eager.EagerModel"


def shapes():
    a, b, c = S("a"), S("b"), S("c")
    x, y, z = S("x", INT), S("y", INT), S("z", INT)
    r, s_ = S("r", REAL), S("s", REAL)
    B3 = ("BV", 3)
    u, v = S("u", B3), S("v", B3)

    def L(vv, so):
        return ("lit", vv, so)
    sh = [
        ("And", a, ("Or", b, ("Not", c))), ("Iff", a, ("Implies", b, c)), ("Ite", a, b, ("Not", a)),
        ("LT", ("Plus", x, y), z), ("LE", ("Times", L(2, INT), x), ("Minus", y, z)), ("Equals", ("Ite", a, x, y), z),
        ("Equals", ("Times", x, y), z), ("LT", ("Plus", r, ("ToReal", x)), s_), ("Equals", ("Div", r, L(2, REAL)), s_),
        ("And", ("LT", x, y), ("Or", a, ("Equals", y, z))), ("Implies", ("LE", x, L(0, INT)), ("LT", ("Minus", x, L(1, INT)), L(0, INT))),
        ("BVULT", ("BVAdd", u, v), u), ("Equals", ("BVMul", u, v), ("BVNot", u)), ("BVSLE", ("BVNeg", u), v),
        ("Equals", ("BVExtract", u, 0, 1), ("BVExtract", v, 1, 2)), ("Equals", ("BVConcat", u, v), ("BVZExt", u, 3)),
        ("Equals", ("BVUDiv", u, v), ("BVURem", u, v)), ("Equals", ("BVLShl", u, v), ("BVLShr", u, v)),
        ("Equals", ("BVToNatural", u), x), ("BVSLT", ("BVSExt", u, 1), ("BVSExt", v, 1)),
        # terms (non Boolean)
        ("Plus", x, ("Times", L(3, INT), y)), ("Ite", a, r, s_), ("BVXor", u, ("BVRol", v, 1)), ("Minus", ("ToReal", x), r),
    ]
    # every bit-vector operator, operands of unequal widths where the operator allows it, signed operators on both
    # signs, division / remainder with zero and negative divisors, rotations and extensions by several steps
    B2 = ("BV", 2)
    p2, q2 = S("p2", B2), S("q2", B2)
    w5 = S("w5", ("BV", 5))
    for ctor in ("BVAnd", "BVOr", "BVXor", "BVAdd", "BVSub", "BVMul", "BVUDiv", "BVURem", "BVLShl", "BVLShr"):
        sh.append(("Equals", (ctor, u, v), u))
    # signed division / remainder fork on both signs: one operand is a constant of either sign
    for ctor in ("BVSDiv", "BVSRem"):
        for k_ in (2, 5, 7):
            sh.append(("Equals", (ctor, u, L(k_, B3)), v))
            sh.append(("Equals", (ctor, L(k_, B3), u), v))
    for ctor in ("BVULT", "BVULE", "BVSLT", "BVSLE", "BVUGT", "BVUGE", "BVSGT", "BVSGE"):
        sh.append((ctor, u, v))
    sh += [("Equals", ("BVConcat", u, p2), w5), ("Equals", ("BVConcat", p2, u), w5), ("Equals", ("BVConcat", p2, ("BVConcat", q2, L(1, ("BV", 1)))), w5),
           ("Equals", ("BVZExt", p2, 3), w5), ("Equals", ("BVSExt", p2, 3), w5), ("Equals", ("BVSExt", u, 2), w5),
           ("Equals", ("BVExtract", w5, 1, 3), u), ("Equals", ("BVExtract", w5, 3, 4), p2), ("Equals", ("BVExtract", w5, 0, 4), w5),
           ("Equals", ("BVRol", u, 1), v), ("Equals", ("BVRol", u, 2), v), ("Equals", ("BVRor", u, 1), v), ("Equals", ("BVRor", w5, 3), w5),
           ("Equals", ("BVComp", u, v), L(1, ("BV", 1))), ("Equals", ("BVNeg", u), ("BVAdd", ("BVNot", u), L(1, B3))),
           ("Equals", ("BVSDiv", u, L(0, B3)), v), ("Equals", ("BVSRem", u, L(0, B3)), v), ("Equals", ("BVUDiv", u, L(0, B3)), v),
           ("Equals", ("BVURem", u, L(0, B3)), v), ("Equals", ("BVAShr", u, L(1, B3)), v), ("Equals", ("BVAShr", u, L(7, B3)), v),
           ("Equals", ("BVLShl", u, L(3, B3)), v), ("Equals", ("BVToNatural", ("BVConcat", p2, u)), x),
           ("Equals", ("BVSMod", u, v), u) if False else ("Equals", ("BVXnor", u, v), u) if False else ("Equals", ("BVNand", u, v), u) if False else ("Equals", ("BVNot", ("BVAnd", u, v)), u)]
    # arithmetic: integer division by constants of both signs (the theory's rounding), products of constants, real
    # division, powers, mixed Int / Real terms, comparisons at the boundary
    from fractions import Fraction as F
    sh += [("Equals", ("Div", x, L(3, INT)), y), ("Equals", ("Div", x, L(-3, INT)), y), ("Equals", ("Div", x, L(1, INT)), y), ("Equals", ("Div", x, L(-1, INT)), y),
           ("Equals", ("Div", ("Plus", x, y), L(2, INT)), z), ("Equals", ("Div", r, L(F(-2), REAL)), s_), ("Equals", ("Div", r, L(F(1, 3), REAL)), s_),
           ("Equals", ("Times", L(-2, INT), x, L(3, INT)), y), ("LE", ("Times", r, L(F(1, 2), REAL)), s_), ("LT", ("Minus", L(0, INT), x), y),
           ("Equals", ("Pow", r, L(F(2), REAL)), s_), ("Equals", ("Pow", x, L(2, INT)), y), ("LE", ("ToReal", ("Plus", x, y)), ("Plus", r, L(F(1, 2), REAL))),
           ("Equals", ("Ite", ("LT", x, y), ("Minus", y, x), ("Minus", x, y)), z), ("Iff", ("LE", x, y), ("Not", ("LT", y, x))),
           ("Equals", ("Plus", x, x, x), ("Times", L(3, INT), x)), ("Equals", ("Minus", ("Minus", x, y), z), ("Minus", x, ("Plus", y, z)))]
    # comparisons against the ends of the signed / unsigned range and other shapes whose value may or may not depend
    # on the symbol: what a partial model (no completion) may answer is decided by the skeleton's meaning alone
    for w_ in (3, 1):
        bw = ("BV", w_)
        t = S("t%d" % w_, bw)
        top, smin, smax = (1 << w_) - 1, 1 << (w_ - 1), (1 << (w_ - 1)) - 1
        for k_ in sorted(set((0, 1, smax, smin, top))):
            for ctor in ("BVSLE", "BVSLT", "BVULE", "BVULT"):
                sh.append((ctor, t, L(k_, bw)))
                sh.append((ctor, L(k_, bw), t))
        sh += [("Equals", ("BVAnd", t, L(0, bw)), L(0, bw)), ("Equals", ("BVOr", t, L(top, bw)), L(top, bw)), ("Equals", ("BVMul", t, L(0, bw)), L(0, bw)),
               ("Equals", ("BVUDiv", t, t), L(1, bw)), ("Equals", ("BVURem", t, t), L(0, bw)), ("Equals", ("BVSub", t, t), L(0, bw)),
               ("BVULE", t, t), ("BVSLT", t, t), ("Equals", ("BVXor", t, t), L(0, bw))]
    sh += [("LE", ("Times", x, L(0, INT)), L(0, INT)), ("LE", ("Minus", x, x), L(0, INT)), ("Or", a, ("Not", a)), ("Equals", ("Times", r, L(0, REAL)), L(0, REAL)),
           ("LE", x, x), ("LT", x, x), ("Equals", ("Ite", a, x, x), x), ("Implies", a, a), ("And", a, L(False, BOOL)), ("Or", L(True, BOOL), a)]
    # arrays and functions over model values
    arr = S("arr", ("ARRAY", INT, INT))
    sh += [("Equals", ("Select", ("Store", ("Array", ("type", INT), L(0, INT)), x, y), z), y),
           ("Equals", ("Select", ("Store", ("Store", ("Array", ("type", INT), L(7, INT)), L(1, INT), x), L(2, INT), y), L(1, INT)), x),
           ("Equals", ("Select", ("Store", ("Store", ("Array", ("type", INT), L(7, INT)), L(1, INT), x), L(2, INT), y), L(3, INT)), z),
           ("Equals", ("Select", ("Store", ("Array", ("type", INT), L(0, INT)), x, y), x), y),
           ("Equals", ("Select", ("Store", ("Store", ("Array", ("type", INT), L(0, INT)), x, y), x, z), x), z),
           ("Equals", ("Select", ("Array", ("type", INT), L(5, INT)), x), y),
           # array values whose default / stored values are terms over the model's symbols
           ("Equals", ("Select", ("Array", ("type", INT), x, ("dict", (L(1, INT), y), (L(2, INT), ("Plus", z, L(3, INT))))), L(2, INT)), ("Plus", z, L(3, INT))),
           ("Equals", ("Select", ("Array", ("type", INT), x, ("dict", (L(1, INT), y))), L(1, INT)), y),
           ("LT", ("Select", ("Array", ("type", INT), x), L(4, INT)), ("Plus", x, L(1, INT))),
           ("Or", a, ("Equals", ("Select", ("Array", ("type", INT), L(0, INT), ("dict", (L(1, INT), y))), L(1, INT)), y)),
           # ... symbols that occur nowhere else
           ("Equals", ("Select", ("Array", ("type", INT), L(7, INT), ("dict", (L(1, INT), y), (L(2, INT), ("Plus", z, L(3, INT))))), x), L(2, INT)),
           ("LT", ("Select", ("Array", ("type", INT), y), L(4, INT)), L(1, INT)),
           ("Equals", ("Select", ("Store", ("Array", ("type", INT), L(0, INT), ("dict", (L(1, INT), y))), L(2, INT), z), L(1, INT)), L(0, INT))]
    # stores of the default element over array values with explicit entries, at indices the model decides
    av15 = ("Array", ("type", INT), L(0, INT), ("dict", (L(1, INT), L(5, INT))))
    sh += [("Equals", ("Select", ("Store", av15, x, L(0, INT)), L(1, INT)), y), ("Equals", ("Select", ("Store", av15, x, L(0, INT)), x), y),
           ("Equals", ("Select", ("Store", ("Store", ("Array", ("type", INT), L(0, INT)), L(1, INT), L(5, INT)), x, L(0, INT)), L(1, INT)), y),
           ("Equals", ("Select", ("Store", av15, ("Plus", x, y), L(0, INT)), L(1, INT)), z)]
    return [Shape(t) for t in sh]


def _bool_syms(t, out=None):
    out = [] if out is None else out
    if isinstance(t, tuple):
        if t[0] == "sym":
            if t[2] == BOOL and t[1] not in out:
                out.append(t[1])
        else:
            for x in t[1:]:
                _bool_syms(x, out)
    return out


def _model_job(job):
    shape_t, mode, bvals = job
    shape = Shape(shape_t)
    bmap = dict(zip(sorted(_bool_syms(shape_t)), bvals))

    def call(w, it, f):
        syms = sorted(w.free_symbols(f), key=lambda n: w.npayload(n)[0])
        asg = {}
        if mode == "full":
            for i, sy in enumerate(syms):
                so = w.nsort(sy)
                nm = "m%d" % i
                if so == refsem.BOOL:
                    asg[sy] = w.bool_const(bmap[w.npayload(sy)[0]])     # Boolean part of the model: enumerated
                else:
                    asg[sy] = sc.build(w, ("const", nm, so), [])
        model = it.instantiate(ClassRef(EAGER), [asg, w.env], {})
        out = {"syms": syms, "asg": asg}
        for api in (("get_value", True), ("get_value", False), ("satisfies", None), ("getitem", None), ("py", None)):
            name, comp = api
            try:
                if name == "get_value":
                    out[api] = ("ret", it.call(it.getattr(model, "get_value"), [f], {"model_completion": comp}))
                elif name == "satisfies":
                    if w.nsort(f) != refsem.BOOL:
                        continue
                    out[api] = ("ret", it.call(it.getattr(model, "satisfies"), [f]))
                elif name == "getitem":
                    out[api] = ("ret", it.call(it.getattr(model, "__getitem__"), [f]))
                else:
                    out[api] = ("ret", it.call(it.getattr(model, "get_py_value"), [f]))
            except AbsRaise as ex:
                out[api] = ("raise", ex.cls_name)
        return out

    def post(w, f, out, facts):
        syms, asg = out["syms"], out["asg"]
        problems, checked = [], 0
        undefined = 0
        # assignments of the symbolic constants; the symbols take the constants' values
        nodes = [f] + list(asg.values()) + [v[1] for k, v in out.items() if isinstance(k, tuple) and v[0] == "ret" and w.is_node(v[1])]
        uses_arrays = "Store" in repr(shape_t) or "Select" in repr(shape_t)
        lits = set()

        def _lits(t_):
            if isinstance(t_, tuple):
                if t_ and t_[0] == "lit" and isinstance(t_[1], int) and not isinstance(t_[1], bool):
                    lits.add(t_[1])
                for x_ in t_[1:]:
                    _lits(x_)
        _lits(shape_t)
        for a in sc.assignments(w, nodes, facts):
            if not sc.facts_hold(facts, a):
                continue
            if uses_arrays:
                # array folds compare index *nodes*: two model constants are two nodes, so this run stands for the
                # models that give them different values (equal values are covered by the skeletons that use one
                # symbol at both positions)
                cvals = [(k_, v_) for k_, v_ in a.items() if not k_.startswith("sym:") and not k_.startswith("fun:")]
                if len(set(map(repr, [v_ for _k, v_ in cvals]))) != len(cvals):
                    continue
                if any(v_ in lits for _k, v_ in cvals):
                    continue            # ... nor the value of a literal of the skeleton (another node again)
            env = dict(a)
            try:
                for sy in syms:
                    nm = "sym:" + w.npayload(sy)[0]
                    if sy in asg:
                        env[nm] = sc.nodeval(w, asg[sy], a)
                    else:
                        so = sc.sort_conc(w.nsort(sy), a)
                        env[nm] = False if so == refsem.BOOL else (0 if so[0] in ("INT", "BV") else 0)
                        if so == refsem.REAL:
                            from fractions import Fraction
                            env[nm] = Fraction(0)
                want = sc.nodeval(w, f, env)
            except refsem.Undefined:
                undefined += 1
                continue
            except (refsem.NoSemantics, sc.Malformed) as e:
                return proc.ProcResult(shape, "unsupported", str(e))
            checked += 1
            for api, (st, val) in [(k, v) for k, v in out.items() if isinstance(k, tuple)]:
                name, comp = api
                if mode == "empty" and name == "get_value" and comp is False:
                    continue      # handled below
                if st == "raise":
                    if mode == "empty" and name in ("satisfies",):
                        continue
                    problems.append("%s%s raises %s under %s" % (name, "" if comp is None else "(model_completion=%s)" % comp, val, sc._show(a)))
                    continue
                try:
                    if name in ("get_value", "getitem"):
                        if not w.is_node(val) or not w.opname(val).endswith("_CONSTANT"):
                            problems.append("%s returns the non-constant %s" % (name, sc.node_str(w, val) if w.is_node(val) else val))
                            continue
                        got = sc.nodeval(w, val, a)
                    elif name == "satisfies":
                        got = sc.ev(val, a) if isinstance(val, (SymInt, SymBool)) else val
                        if not isinstance(got, bool):
                            problems.append("satisfies returns %r" % (val,))
                            continue
                    else:
                        got = sc.ev(val, a) if isinstance(val, (SymInt, SymBool)) else val
                except (refsem.NoSemantics, sc.Malformed) as e:
                    return proc.ProcResult(shape, "unsupported", str(e))
                if got != want and not (name == "py" and _same_py(got, want)):
                    problems.append("%s gives %r under the model %s; the formula denotes %r"
                                    % (name if comp is None else "%s(model_completion=%s)" % (name, comp), got, sc._show(a), want))
            if problems:
                break
        if mode == "empty":
            # without completion: an error, or a value that holds under every completion
            st, val = out[("get_value", False)]
            if st == "ret" and syms:
                if not (w.is_node(val) and w.opname(val).endswith("_CONSTANT")):
                    problems.append("get_value(model_completion=False) returns the non-constant %s" % (sc.node_str(w, val) if w.is_node(val) else val,))
                else:
                    for a in sc.assignments(w, [f, val], facts):
                        try:
                            if sc.nodeval(w, f, a) != sc.nodeval(w, val, a):
                                problems.append("get_value(model_completion=False) on an empty model returns %s, but under the "
                                                "completion %s the formula denotes %r" % (sc.node_str(w, val), sc._show(a), sc.nodeval(w, f, a)))
                                break
                        except (refsem.Undefined, refsem.NoSemantics, sc.Malformed):
                            continue
        if problems:
            return proc.ProcResult(shape, "invalid", problems[0])
        if checked == 0:
            return proc.ProcResult(shape, "vacuous", "no assignment evaluated")
        return proc.ProcResult(shape, "valid", "%d model valuations" % checked)
    res = proc.run_proc(shape, call, post=post, services="full", max_paths=64)
    tag = repr(shape) + ("" if not bvals else " with " + ", ".join("%s=%s" % kv for kv in sorted(bmap.items())))
    return [(tag, mode, r.kind, str(r.detail)) for r in res]


def string_shapes():
    """Skeletons over String (and Int) symbols: decided with *concrete* models, every assignment of a small domain."""
    STRING = ("STRING",)
    st, tt = S("st", STRING), S("tt", STRING)
    x = S("x", INT)

    def L(vv, so):
        return ("lit", vv, so)
    sh = [("Equals", ("StrLength", ("StrConcat", st, tt)), ("Plus", ("StrLength", st), ("StrLength", tt))),
          ("StrContains", ("StrConcat", st, L("a", STRING), tt), tt), ("StrPrefixOf", st, ("StrConcat", st, tt)), ("StrSuffixOf", tt, st),
          ("Equals", ("StrIndexOf", st, tt, x), x), ("Equals", ("StrReplace", st, tt, L("zz", STRING)), st),
          ("Equals", ("StrSubstr", st, x, L(1, INT)), ("StrCharAt", st, x)), ("Equals", ("StrToInt", st), x), ("Equals", ("IntToStr", x), st),
          ("Equals", ("StrCharAt", ("StrConcat", st, tt), L(1, INT)), L("b", STRING)), ("LT", ("StrLength", st), x),
          ("Equals", ("StrSubstr", ("StrConcat", st, tt), L(1, INT), x), tt),
          # terms
          ("StrConcat", st, L("-", STRING), tt), ("StrLength", ("StrReplace", st, L("a", STRING), tt)), ("StrIndexOf", st, L("b", STRING), L(0, INT))]
    # reals that differ by less than a double can tell (concrete models: 1, 10**30, 2**53, 1/3)
    from fractions import Fraction as F
    r = S("r", REAL)
    tiny, one = L(F(1, 10**20), REAL), L(F(1), REAL)
    sh += [("LT", r, ("Plus", r, tiny)), ("Equals", ("Plus", r, tiny), r), ("Minus", ("Plus", r, one), r), ("Plus", r, tiny),
           ("LT", ("Times", r, L(F(3), REAL)), ("Plus", L(F(1), REAL), tiny)), ("Equals", ("Plus", r, one), ("Plus", one, r))]
    # arrays under concrete models: here an index given by the model may coincide with an explicit entry of an array value
    # (the symbolic-constant runs stand for the models in which it does not)
    y, z = S("y", INT), S("z", INT)
    av15 = ("Array", ("type", INT), L(0, INT), ("dict", (L(1, INT), L(5, INT))))
    av2 = ("Array", ("type", INT), L(2, INT), ("dict", (L(0, INT), L(1, INT)), (L(1, INT), L(2, INT))))
    for av in (av15, av2):
        for v_ in (L(0, INT), L(2, INT), y):
            sh += [("Equals", ("Select", ("Store", av, x, v_), L(1, INT)), z), ("Equals", ("Select", ("Store", av, x, v_), x), z),
                   ("Equals", ("Select", ("Store", ("Store", av, x, v_), y, L(1, INT)), L(1, INT)), z)]
        sh += [("Equals", ("Select", av, x), y), ("Select", ("Store", av, ("Plus", x, y), L(0, INT)), L(1, INT))]
    return [Shape(t) for t in sh]


def _string_job(shape_t):
    shape = Shape(shape_t)
    from fractions import Fraction as F
    doms = {("STRING",): ["", "a", "ab", "12"], INT: [-1, 0, 1, 2], REAL: [F(1), F(10**30), F(2**53), F(1, 3)]}

    def call(w, it, f):
        import itertools as _it
        syms = sorted(w.free_symbols(f), key=lambda n: w.npayload(n)[0])
        out = []
        for combo in _it.product(*[doms[w.nsort(sy)] for sy in syms]):
            asg = dict((sy, w.str_const(v) if isinstance(v, str) else (w.int_const(v) if isinstance(v, int) else w.real_const(v)))
                       for sy, v in zip(syms, combo))
            model = it.instantiate(ClassRef(EAGER), [asg, w.env], {})
            res = {}
            for api in ("get_value", "py", "satisfies"):
                if api == "satisfies" and w.nsort(f) != refsem.BOOL:
                    continue
                try:
                    res[api] = ("ret", it.call(it.getattr(model, {"py": "get_py_value"}.get(api, api)), [f]))
                except AbsRaise as ex:
                    res[api] = ("raise", ex.cls_name)
            out.append((dict((w.npayload(sy)[0], v) for sy, v in zip(syms, combo)), res))
        return out

    def post(w, f, out, facts):
        n = 0
        for vals, res in out:
            env = dict(("sym:" + k, v) for k, v in vals.items())
            try:
                want = sc.nodeval(w, f, env)
            except refsem.Undefined:
                continue
            except (refsem.NoSemantics, sc.Malformed) as e:
                return proc.ProcResult(shape, "unsupported", str(e))
            for api, (st_, val) in res.items():
                if st_ == "raise":
                    return proc.ProcResult(shape, "invalid", "%s raises %s under the model %s" % (api, val, vals))
                if api == "get_value":
                    if not w.is_node(val) or not w.opname(val).endswith("_CONSTANT"):
                        return proc.ProcResult(shape, "invalid", "get_value returns the non-constant %s under the model %s"
                                               % (sc.node_str(w, val) if w.is_node(val) else val, vals))
                    got = sc.nodeval(w, val, {})
                else:
                    got = val
                if got != want:
                    return proc.ProcResult(shape, "invalid", "%s gives %r under the model %s; the formula denotes %r" % (api, got, vals, want))
            n += 1
        if not n:
            return proc.ProcResult(shape, "vacuous", "no model evaluated")
        return proc.ProcResult(shape, "valid", "%d concrete models" % n)
    res = proc.run_proc(shape, call, post=post, services="full", max_paths=8, interp_kwargs={"max_steps": 4000000})
    return [(repr(shape), "concrete", r.kind, str(r.detail)) for r in res]


def _same_py(a, b):
    try:
        return a == b
    except Exception:
        return False


def run(ctx):
    if not ctx.want("R5"):
        return
    rs = ctx.rule("R5", "EagerModel: get_value / satisfies / [] / get_py_value equal the reference value under every model (symbolic model constants)")
    import itertools
    jobs = []
    for sh in shapes():
        nb = len(_bool_syms(sh.t))
        for bv in itertools.product((False, True), repeat=nb):
            jobs.append((sh.t, "full", bv))
        jobs.append((sh.t, "empty", ()))
    for res in parallel_map(_model_job, jobs) + parallel_map(_string_job, [sh.t for sh in string_shapes()]):
        for shape, mode, kind, detail in res:
            what = {"full": "total model", "concrete": "concrete models over small domains"}.get(mode, "empty model (completion)")
            if kind == "valid":
                rs.ok({"skeleton": shape, "model": what, "checked": detail})
            elif kind == "invalid":
                ctx.finding(rs, "model|%s|%s" % (shape, mode), "%s, %s: %s" % (shape, what, detail), "pysmt/solvers/eager.py")
            elif kind == "raises":
                ctx.finding(rs, "model|%s|%s|raises" % (shape, mode), "%s, %s: raises %s" % (shape, what, detail), "pysmt/solvers/eager.py")
            elif kind == "vacuous":
                continue
            else:
                rs.unrec("%s (%s): %s" % (shape, what, detail[:160]))
    ctx.floor(rs, 30)
