"""C02 deep rule R5: EagerModel interpreted on operator skeletons with a model that assigns *symbolic*
constants to the free symbols (so one run stands for every value of the model).

  get_value(f)                  must be a constant whose value is the reference value of f under the model,
                                on every path and for every value of the model's constants (small domains,
                                bit-vectors exhaustively);
  satisfies(f)                  True exactly when that value is true (Boolean skeletons);
  model[f], get_py_value(f)     agree with get_value;
  completion                    with an empty model and model_completion=True the value is the one under the
                                documented defaults (false, 0, zero bit-vector); with model_completion=False the
                                call raises or returns a value that holds under every completion.
"""
from ..absint import AbsRaise, AObj, ClassRef, Unsupported, SymInt, SymBool
from ..common import get_repo, parallel_map
from .. import proc, refsem
from ..proc import Shape, S, BOOL, INT, REAL
from .. import simpcheck as sc

EAGER = "pysmt.solvers.eager.EagerModel"


def shapes():
    a, b, c = S("a"), S("b"), S("c")
    x, y, z = S("x", INT), S("y", INT), S("z", INT)
    r, s_ = S("r", REAL), S("s", REAL)
    B3 = ("BV", 3)
    u, v = S("u", B3), S("v", B3)

    def L(vv, so):
        return ("lit", vv, so)
    sh = [
        ("And", a, ("Or", b, ("Not", c))), ("Iff", a, ("Implies", b, c)), ("Ite", a, b, ("Not", a)),
        ("LT", ("Plus", x, y), z), ("LE", ("Times", L(2, INT), x), ("Minus", y, z)), ("Equals", ("Ite", a, x, y), z),
        ("Equals", ("Times", x, y), z), ("LT", ("Plus", r, ("ToReal", x)), s_), ("Equals", ("Div", r, L(2, REAL)), s_),
        ("And", ("LT", x, y), ("Or", a, ("Equals", y, z))), ("Implies", ("LE", x, L(0, INT)), ("LT", ("Minus", x, L(1, INT)), L(0, INT))),
        ("BVULT", ("BVAdd", u, v), u), ("Equals", ("BVMul", u, v), ("BVNot", u)), ("BVSLE", ("BVNeg", u), v),
        ("Equals", ("BVExtract", u, 0, 1), ("BVExtract", v, 1, 2)), ("Equals", ("BVConcat", u, v), ("BVZExt", u, 3)),
        ("Equals", ("BVUDiv", u, v), ("BVURem", u, v)), ("Equals", ("BVLShl", u, v), ("BVLShr", u, v)),
        ("Equals", ("BVToNatural", u), x), ("BVSLT", ("BVSExt", u, 1), ("BVSExt", v, 1)),
        # terms (non Boolean)
        ("Plus", x, ("Times", L(3, INT), y)), ("Ite", a, r, s_), ("BVXor", u, ("BVRol", v, 1)), ("Minus", ("ToReal", x), r),
    ]
    return [Shape(t) for t in sh]


def _bool_syms(t, out=None):
    out = [] if out is None else out
    if isinstance(t, tuple):
        if t[0] == "sym":
            if t[2] == BOOL and t[1] not in out:
                out.append(t[1])
        else:
            for x in t[1:]:
                _bool_syms(x, out)
    return out


def _model_job(job):
    shape_t, mode, bvals = job
    shape = Shape(shape_t)
    bmap = dict(zip(sorted(_bool_syms(shape_t)), bvals))

    def call(w, it, f):
        syms = sorted(w.free_symbols(f), key=lambda n: w.npayload(n)[0])
        asg = {}
        if mode == "full":
            for i, sy in enumerate(syms):
                so = w.nsort(sy)
                nm = "m%d" % i
                if so == refsem.BOOL:
                    asg[sy] = w.bool_const(bmap[w.npayload(sy)[0]])     # Boolean part of the model: enumerated
                else:
                    asg[sy] = sc.build(w, ("const", nm, so), [])
        model = it.instantiate(ClassRef(EAGER), [asg, w.env], {})
        out = {"syms": syms, "asg": asg}
        for api in (("get_value", True), ("get_value", False), ("satisfies", None), ("getitem", None), ("py", None)):
            name, comp = api
            try:
                if name == "get_value":
                    out[api] = ("ret", it.call(it.getattr(model, "get_value"), [f], {"model_completion": comp}))
                elif name == "satisfies":
                    if w.nsort(f) != refsem.BOOL:
                        continue
                    out[api] = ("ret", it.call(it.getattr(model, "satisfies"), [f]))
                elif name == "getitem":
                    out[api] = ("ret", it.call(it.getattr(model, "__getitem__"), [f]))
                else:
                    out[api] = ("ret", it.call(it.getattr(model, "get_py_value"), [f]))
            except AbsRaise as ex:
                out[api] = ("raise", ex.cls_name)
        return out

    def post(w, f, out, facts):
        syms, asg = out["syms"], out["asg"]
        problems, checked = [], 0
        undefined = 0
        # assignments of the symbolic constants; the symbols take the constants' values
        nodes = [f] + list(asg.values()) + [v[1] for k, v in out.items() if isinstance(k, tuple) and v[0] == "ret" and w.is_node(v[1])]
        for a in sc.assignments(w, nodes, facts):
            if not sc.facts_hold(facts, a):
                continue
            env = dict(a)
            try:
                for sy in syms:
                    nm = "sym:" + w.npayload(sy)[0]
                    if sy in asg:
                        env[nm] = sc.nodeval(w, asg[sy], a)
                    else:
                        so = sc.sort_conc(w.nsort(sy), a)
                        env[nm] = False if so == refsem.BOOL else (0 if so[0] in ("INT", "BV") else 0)
                        if so == refsem.REAL:
                            from fractions import Fraction
                            env[nm] = Fraction(0)
                want = sc.nodeval(w, f, env)
            except refsem.Undefined:
                undefined += 1
                continue
            except (refsem.NoSemantics, sc.Malformed) as e:
                return proc.ProcResult(shape, "unsupported", str(e))
            checked += 1
            for api, (st, val) in [(k, v) for k, v in out.items() if isinstance(k, tuple)]:
                name, comp = api
                if mode == "empty" and name == "get_value" and comp is False:
                    continue      # handled below
                if st == "raise":
                    if mode == "empty" and name in ("satisfies",):
                        continue
                    problems.append("%s%s raises %s under %s" % (name, "" if comp is None else "(model_completion=%s)" % comp, val, sc._show(a)))
                    continue
                try:
                    if name in ("get_value", "getitem"):
                        if not w.is_node(val) or not w.opname(val).endswith("_CONSTANT"):
                            problems.append("%s returns the non-constant %s" % (name, sc.node_str(w, val) if w.is_node(val) else val))
                            continue
                        got = sc.nodeval(w, val, a)
                    elif name == "satisfies":
                        got = sc.ev(val, a) if isinstance(val, (SymInt, SymBool)) else val
                        if not isinstance(got, bool):
                            problems.append("satisfies returns %r" % (val,))
                            continue
                    else:
                        got = sc.ev(val, a) if isinstance(val, (SymInt, SymBool)) else val
                except (refsem.NoSemantics, sc.Malformed) as e:
                    return proc.ProcResult(shape, "unsupported", str(e))
                if got != want and not (name == "py" and _same_py(got, want)):
                    problems.append("%s gives %r under the model %s; the formula denotes %r"
                                    % (name if comp is None else "%s(model_completion=%s)" % (name, comp), got, sc._show(a), want))
            if problems:
                break
        if mode == "empty":
            # without completion: an error, or a value that holds under every completion
            st, val = out[("get_value", False)]
            if st == "ret" and syms:
                if not (w.is_node(val) and w.opname(val).endswith("_CONSTANT")):
                    problems.append("get_value(model_completion=False) returns the non-constant %s" % (sc.node_str(w, val) if w.is_node(val) else val,))
                else:
                    for a in sc.assignments(w, [f, val], facts):
                        try:
                            if sc.nodeval(w, f, a) != sc.nodeval(w, val, a):
                                problems.append("get_value(model_completion=False) on an empty model returns %s, but under the "
                                                "completion %s the formula denotes %r" % (sc.node_str(w, val), sc._show(a), sc.nodeval(w, f, a)))
                                break
                        except (refsem.Undefined, refsem.NoSemantics, sc.Malformed):
                            continue
        if problems:
            return proc.ProcResult(shape, "invalid", problems[0])
        if checked == 0:
            return proc.ProcResult(shape, "vacuous", "no assignment evaluated")
        return proc.ProcResult(shape, "valid", "%d model valuations" % checked)
    res = proc.run_proc(shape, call, post=post, services="full", max_paths=64)
    tag = repr(shape) + ("" if not bvals else " with " + ", ".join("%s=%s" % kv for kv in sorted(bmap.items())))
    return [(tag, mode, r.kind, str(r.detail)) for r in res]


def _same_py(a, b):
    try:
        return a == b
    except Exception:
        return False


def run(ctx):
    if not ctx.want("R5"):
        return
    rs = ctx.rule("R5", "EagerModel: get_value / satisfies / [] / get_py_value equal the reference value under every model (symbolic model constants)")
    import itertools
    jobs = []
    for sh in shapes():
        nb = len(_bool_syms(sh.t))
        for bv in itertools.product((False, True), repeat=nb):
            jobs.append((sh.t, "full", bv))
        jobs.append((sh.t, "empty", ()))
    for res in parallel_map(_model_job, jobs):
        for shape, mode, kind, detail in res:
            what = "total model" if mode == "full" else "empty model (completion)"
            if kind == "valid":
                rs.ok({"skeleton": shape, "model": what, "checked": detail})
            elif kind == "invalid":
                ctx.finding(rs, "model|%s|%s" % (shape, mode), "%s, %s: %s" % (shape, what, detail), "pysmt/solvers/eager.py")
            elif kind == "raises":
                ctx.finding(rs, "model|%s|%s|raises" % (shape, mode), "%s, %s: raises %s" % (shape, what, detail), "pysmt/solvers/eager.py")
            elif kind == "vacuous":
                continue
            else:
                rs.unrec("%s (%s): %s" % (shape, what, detail[:160]))
    ctx.floor(rs, 30)
