"""C20 rule R1d: the interpreted call depth of the formula core does not grow with the nesting depth of the term.

Every FNode method that can be called without further arguments (accessors such as bv_width, the services reached
through the node: get_type, get_free_variables, get_atoms, simplify, size, serialize, ...) is interpreted on
operator towers of nesting depth 4 and 8: linear nests through each operand position, and the DAG tower whose
operands are all the same node.  The analyser records the deepest interpreted call stack (function frames and
running generators).  A traversal that uses an explicit stack reaches the same depth on both towers; one that
recurses over the nesting reaches a deeper stack on the deeper tower - whichever way the recursion is written
(direct, through aliases, through a helper or another class)."""
from ..absint import AbsRaise, Unsupported
from ..common import get_repo, parallel_map
from .. import proc
from ..proc import Shape, S, BOOL, INT, REAL

FNODE = "pysmt.fnode.FNode"
B3 = ("BV", 3)
ARR = ("ARRAY", INT, INT)
DEPTHS = (4, 8)


def families():
    c, a = S("c"), S("a")
    y, x0 = S("y", B3), S("x", B3)
    i, j = S("i", INT), S("j", INT)
    ar = S("m", ARR)
    fam = {
        "ite-then": (x0, lambda t: ("Ite", c, t, y)),
        "ite-else": (x0, lambda t: ("Ite", c, y, t)),
        "ite-both": (x0, lambda t: ("Ite", c, t, t)),
        "ite-cond": (a, lambda t: ("Ite", t, a, c)),
        "and-left": (a, lambda t: ("And", t, c)),
        "and-right": (a, lambda t: ("And", c, t)),
        "implies-both": (("Or", a, c), lambda t: ("Implies", t, t)),
        "plus-left": (i, lambda t: ("Plus", t, j)),
        "plus-right": (i, lambda t: ("Plus", j, t)),
        "times-const": (i, lambda t: ("Times", ("lit", 2, INT), ("Plus", t, j))),
        "bvadd-left": (x0, lambda t: ("BVAdd", t, y)),
        "bvadd-both": (x0, lambda t: ("BVXor", t, ("BVNot", t))),
        "bvconcat": (x0, lambda t: ("BVExtract", ("BVConcat", t, y), 0, 2)),
        "store": (ar, lambda t: ("Store", t, i, j)),
        "select-store": (i, lambda t: ("Select", ("Store", ar, t, j), t)),
        "function": (i, lambda t: ("fun", "f", INT, (INT,), t)),
        "toreal": (i, lambda t: ("Plus", ("lit", 1, INT), ("Ite", c, t, j))),
        "atom-nest": (a, lambda t: ("Iff", ("LT", i, j), ("Not", ("And", t, c)))),
    }
    return fam


def tower(name, d):
    base, step = families()[name]
    t = base
    for _ in range(d):
        t = step(t)
    return t


def entry_points(repo):
    """FNode methods callable with the node alone."""
    ci = repo.classes[FNODE]
    out = []
    for nm in ci.order:
        f = ci.own_func(nm)
        if f is None:
            continue
        a = f.args
        pos = a.posonlyargs + a.args
        required = len(pos) - len(a.defaults) - 1
        if required != 0 or any(d is None for d in a.kw_defaults):
            continue
        decos = [getattr(d, "id", getattr(d, "attr", "")) for d in f.decorator_list]
        if "staticmethod" in decos or "classmethod" in decos:
            continue
        if nm in ("__init__", "__hash__", "__getstate__", "__invert__", "__neg__", "__bool__", "__nonzero__"):
            if nm in ("__init__", "__hash__", "__getstate__"):
                continue
        out.append(nm)
    return out


def _job(job):
    meth, fam = job
    depths = []
    for d in DEPTHS:
        shape = Shape(tower(fam, d))

        def call(w, it, f):
            it.max_depth = it.depth
            base = it.depth
            try:
                if meth == "@substitute(value)":
                    # the tower is the *replacement*: v[v := tower], through the node's own entry point
                    v = w.symbol("subst_target", w.nsort(f))
                    it.call(it.getattr(v, "substitute"), [{v: f}])
                elif meth == "@substitute(key)":
                    # the tower is the key of the map (and the formula): tower[tower := v]
                    v = w.symbol("subst_target", w.nsort(f))
                    it.call(it.getattr(f, "substitute"), [{f: v}])
                elif meth == "@in manager":
                    it.contains(w.mgr, f)
                else:
                    it.call(it.getattr(f, meth), [])
            except AbsRaise as ex:
                return ("raise", ex.cls_name)
            return ("ret", it.max_depth - base)

        def post(w, f, val, facts):
            return proc.ProcResult(shape, "valid", val)
        try:
            r = proc.run_proc(shape, call, post=post, services="full", max_paths=8,
                              interp_kwargs={"max_loop": 20000, "max_steps": 3000000})
        except Unsupported as e:
            return (meth, fam, "unsupported", str(e))
        ok = [x for x in r if x.kind == "valid"]
        if not ok:
            return (meth, fam, "unsupported", "; ".join("%s %s" % (x.kind, str(x.detail)[:160]) for x in r[:2]))
        vals = set(x.detail for x in ok)
        if any(v[0] == "raise" for v in vals):
            return (meth, fam, "n/a", sorted(v[1] for v in vals if v[0] == "raise")[0])
        depths.append(max(v[1] for v in vals))
    return (meth, fam, "ok", depths)


def results(tier):
    repo = get_repo()
    eps = entry_points(repo) + ["@substitute(value)", "@substitute(key)", "@in manager"]
    fams = sorted(families())
    jobs = [(m, f) for m in eps for f in fams]
    return eps, parallel_map(_job, jobs)


def run(ctx):
    if not ctx.want("R1d"):
        return
    rs = ctx.rule("R1d", "interpreted call depth of FNode methods is independent of the nesting depth of the term")
    eps, res = results(ctx.tier)
    ctx.analysed["fnode_entry_points"] = eps
    ctx.analysed["tower_families"] = sorted(families())
    n_na = 0
    for meth, fam, kind, detail in res:
        if kind == "ok":
            d4, d8 = detail
            # a traversal that recurses over the nesting adds at least one frame per level: four more levels, four more
            # frames.  A smaller shift (a helper reached only on the larger term) is not growth with the nesting.
            if d8 - d4 >= DEPTHS[1] - DEPTHS[0]:
                ctx.finding(rs, "FNode.%s|depth-grows|%s" % (meth, fam),
                            "FNode.%s: on the %s tower the deepest interpreted call stack is %d frames at nesting depth %d "
                            "and %d frames at nesting depth %d: the call stack grows with the nesting of the term, a "
                            "deeply nested term exceeds the interpreter's recursion limit"
                            % (meth, fam, d4, DEPTHS[0], d8, DEPTHS[1]), "pysmt/fnode.py")
            else:
                rs.ok({"method": meth, "tower": fam, "max_call_depth": detail})
        elif kind == "n/a":
            n_na += 1          # the accessor does not apply to this kind of node (raises)
        else:
            rs.unrec("FNode.%s on %s: %s" % (meth, fam, str(detail)[:160]))
    ctx.analysed["not_applicable_pairs"] = n_na
    ctx.floor(rs, 300)
