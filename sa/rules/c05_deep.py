"""C05 deep rule R7: both substituters interpreted on (skeleton, map) pairs; the result is compared
with the documented replacement (most-general: look the original node up, else rebuild from the
rewritten children; most-specific: rebuild, then look the rebuilt node up; under a binder the keys
mentioning a bound variable are dropped), computed by an independent reference on the abstract term,
and - for symbol maps - with the substitution lemma by exhaustive valuation."""
from ..common import get_repo, parallel_map
from ..absint import ClassRef, AbsRaise
from .. import proc, refsem
from ..proc import Shape, S, BOOL, INT
from .. import simpcheck as sc

MG = "pysmt.substituter.MGSubstituter"
MS = "pysmt.substituter.MSSubstituter"


def ref_subst(w, n, m, mode):
    """reference replacement on abstract nodes; m: dict node -> node"""
    op = w.opname(n)
    if mode == "mg" and n in m:
        return m[n]
    if op in ("FORALL", "EXISTS"):
        qv = set(w.npayload(n))
        m2 = dict((k, v) for k, v in m.items() if not (w.free_symbols(k) & qv))
        body = ref_subst(w, w.nargs(n)[0], m2, mode)
        new = w.mk_node(w.ntype(n), (body,), w.npayload(n))
    else:
        new_args = tuple(ref_subst(w, a, m, mode) for a in w.nargs(n))
        if new_args == tuple(w.nargs(n)):
            new = n
        else:
            new = w.mk_node(w.ntype(n), new_args, w.npayload(n))
    if mode == "ms":
        return m.get(new, new)
    return new


def cases():
    a, b, c, d = S("a"), S("b"), S("c"), S("d")
    x, y, z = S("x", INT), S("y", INT), S("z", INT)
    one, three, zero = ("lit", 1, INT), ("lit", 3, INT), ("lit", 0, INT)
    qa = [("a", BOOL)]
    qx = [("x", INT)]
    out = []
    # (formula shape, [(key shape, value shape)...])
    out.append((("And", a, b), [(a, c), (("And", c, b), d), (("And", a, b), c)]))          # documented example
    out.append((("And", a, ("Or", b, a)), [(a, b), (b, a)]))                                    # simultaneous swap
    out.append((("Implies", ("And", a, b), ("Or", a, c)), [(a, ("And", b, c))]))
    out.append((("Iff", a, ("Not", b)), [(("Not", b), c), (b, d)]))
    out.append((("Or", ("And", a, b), ("And", a, c)), [(("And", a, b), d), (a, c)]))
    out.append((("LT", ("Plus", x, y), z), [(x, ("Plus", y, one)), (z, x)]))
    out.append((("LT", ("Plus", x, y), z), [(("Plus", x, y), zero)]))
    out.append((("LT", ("Plus", x, y), z), [(("Plus", x, y), z), (y, x)]))
    out.append((("Ite", a, b, c), [(a, ("lit", True, BOOL)), (c, a)]))
    # binders
    out.append((("And", a, ("exists", qa, ("Or", a, b))), [(a, c)]))                             # bound occurrences stay
    out.append((("And", a, ("exists", qa, ("Or", a, b))), [(b, c)]))
    out.append((("And", a, ("exists", qa, ("Or", a, b))), [(b, c), (a, d)]))
    out.append((("forall", qa, ("exists", [("b", BOOL)], ("Iff", a, ("Or", b, c)))), [(c, d), (b, a)]))
    out.append((("exists", qx, ("Equals", ("Plus", x, y), three)), [(("Plus", x, y), zero)]))  # key mixes bound and free
    out.append((("exists", qx, ("Equals", ("Plus", x, y), three)), [(y, z)]))
    out.append((("forall", qx, ("LT", three, x)), [(three, y)]))                                # constant key under a binder
    out.append((("Or", ("exists", qa, ("And", a, b)), ("forall", qa, ("Or", a, b))), [(b, ("Not", c)), (a, c)]))
    out.append((("exists", qa, ("forall", qa, ("Or", a, b))), [(a, c), (b, c)]))               # shadowing
    out.append((("And", ("exists", qa, ("Or", a, b)), ("Or", a, b)), [(("Or", a, b), c)]))      # same term bound and free
    # the body of a quantifier also occurs outside it (one node, reached free and bound), either side first; the key is the bound variable
    ob = ("Or", a, b)
    out.append((("And", ("forall", qa, ob), ob), [(a, ("Not", b))]))
    out.append((("And", ob, ("forall", qa, ob)), [(a, ("Not", b))]))
    out.append((("Or", ("exists", qa, ob), ("And", ob, c)), [(a, c), (b, d)]))
    out.append((("And", ("Or", ob, c), ("exists", qa, ("forall", [("b", BOOL)], ob)), ob), [(a, d), (b, c)]))
    out.append((("And", ("exists", qx, ("LT", ("Plus", x, y), z)), ("LT", ("Plus", x, y), z)), [(x, three), (y, x)]))
    out.append((("Iff", ("LT", ("Plus", x, y), z), ("forall", qx, ("LT", ("Plus", x, y), z))), [(x, z)]))
    # an entry that maps a term to itself is an entry: under the most-general order it shields the keys inside it
    out.append((("And", a, b), [(("And", a, b), ("And", a, b)), (a, c)]))
    out.append((("Or", ("Not", a), ("And", a, b)), [(("Not", a), ("Not", a)), (a, c)]))
    out.append((("LT", ("Plus", x, y), z), [(("Plus", x, y), ("Plus", x, y)), (x, three)]))
    out.append((("forall", [("z", INT)], ("LT", ("Plus", x, y), z)), [(("Plus", x, y), ("Plus", x, y)), (x, three)]))
    out.append((("And", a, b), [(a, a), (b, c)]))
    # array values whose default / stored values are terms: every child is rewritten
    ARR = ("ARRAY", INT, INT)
    m_ = S("m", ARR)
    two = ("lit", 2, INT)
    av1 = ("Array", ("type", INT), zero, ("dict", (one, x), (two, ("Plus", x, y))))
    av2 = ("Array", ("type", INT), y, ("dict", (three, x)))
    out.append((("Equals", m_, av1), [(x, three)]))
    out.append((("Equals", ("Select", av1, one), z), [(x, three), (y, z)]))
    out.append((("Equals", m_, av2), [(x, one), (y, two)]))
    out.append((("Equals", m_, av2), [(("Plus", x, y), z), (x, y)]))
    out.append((("Equals", m_, av1), [(("Plus", x, y), z)]))
    out.append((("exists", qx, ("Equals", m_, av2)), [(y, z), (x, z)]))
    # a key that is an array value mentioning a variable the quantifier binds: left alone under the binder
    B2 = ("BV", 2)
    xb, ab = S("xb", B2), S("ab", ("ARRAY", B2, B2))
    kx = ("Array", ("type", B2), xb)
    kc = ("Array", ("type", B2), ("lit", 0, B2), ("dict", (("lit", 1, B2), xb)))
    qxb = [("xb", B2)]
    out.append((("forall", qxb, ("Equals", ("Select", kx, ("lit", 0, B2)), xb)), [(kx, ab)]))
    out.append((("And", ("Equals", ("Select", kx, ("lit", 1, B2)), xb), ("exists", qxb, ("Equals", ("Select", kx, ("lit", 0, B2)), ("lit", 2, B2)))), [(kx, ab)]))
    out.append((("forall", qxb, ("Equals", ("Select", kc, ("lit", 1, B2)), xb)), [(kc, ab), (xb, ("lit", 3, B2))]))
    return [(Shape(f), [(Shape(k), Shape(v)) for k, v in m]) for f, m in out]


def interp_cases():
    """(formula, interpretations {f: (formals, body)}): f applied to rewritten actuals is replaced by the body
    with the formals bound, in order, to those actuals."""
    x, y, z = S("x", INT), S("y", INT), S("z", INT)
    p, q = S("p", INT), S("q", INT)
    a = S("a")
    one = ("lit", 1, INT)
    two_, three_ = ("lit", 2, INT), ("lit", 3, INT)
    F2 = ("f", INT, (INT, INT))
    G1 = ("g", INT, (INT,))
    P1 = ("pr", BOOL, (INT,))

    def f(s, t):
        return ("fun",) + F2 + (s, t)

    def g(s):
        return ("fun",) + G1 + (s,)

    def pr(s):
        return ("fun",) + P1 + (s,)
    out = [
        (("Equals", f(x, y), z), {F2: ([p, q], ("Minus", p, q))}),                      # order of the formals matters
        (("Equals", f(y, x), z), {F2: ([p, q], ("Minus", p, q))}),
        (("Equals", f(g(x), y), z), {F2: ([p, q], ("Plus", p, ("Times", q, ("lit", 2, INT))))}),   # g left alone
        (("Equals", f(g(x), y), z), {G1: ([p], ("Plus", p, one))}),                   # inner only
        (("Equals", f(g(x), g(y)), z), {G1: ([p], ("Plus", p, one)), F2: ([p, q], ("Minus", p, q))}),  # nested: actuals rewritten first
        (("And", pr(f(x, x)), a), {P1: ([p], ("LT", p, one)), F2: ([q, p], ("Minus", p, q))}),
        (("LT", g(g(x)), y), {G1: ([p], ("Times", p, ("lit", 2, INT)))}),
        (("Equals", f(x, y), f(y, x)), {F2: ([p, q], p)}),                               # projection
        # the formals are symbols of the same environment: actuals that mention a formal bound later (simultaneous binding)
        (("Equals", f(y, x), z), {F2: ([x, y], ("Minus", x, y))}),
        (("Equals", f(("Plus", y, one), ("lit", 7, INT)), z), {F2: ([x, y], ("Minus", x, y))}),
        (("Equals", f(x, y), z), {F2: ([x, y], ("Minus", x, y))}),
        (("Equals", f(y, y), f(x, x)), {F2: ([y, x], ("Minus", x, y))}),
        (("Equals", ("fun", "h", INT, (INT, INT, INT), y, z, x), one),
         {("h", INT, (INT, INT, INT)): ([x, y, z], ("Plus", x, ("Times", two_, y), ("Times", three_, z)))}),
        # applications inside an array value
        (("Equals", S("m", ("ARRAY", INT, INT)), ("Array", ("type", INT), ("lit", 0, INT), ("dict", (one, g(y))))), {G1: ([p], ("Plus", p, one))}),
    ]
    return [(Shape(fm), ip) for fm, ip in out]


def _ref_interp(w, n, interps):
    """reference: bottom-up; an application of an interpreted symbol becomes body[formals := rewritten actuals]"""
    op = w.opname(n)
    new_args = tuple(_ref_interp(w, a, interps) for a in w.nargs(n))
    if op == "FUNCTION":
        fsym = w.npayload(n) if not isinstance(w.npayload(n), tuple) else w.npayload(n)
        for fs, (formals, body) in interps.items():
            if fs is fsym or (w.is_node(fsym) and w.node_eq(fs, fsym)):
                return ref_subst(w, body, dict(zip(formals, new_args)), "mg")
    if new_args == tuple(w.nargs(n)):
        return n
    return w.mk_node(w.ntype(n), new_args, w.npayload(n))


def _interp_job(job):
    cls, shape, ip = job
    FI = "pysmt.substituter.FunctionInterpretation"
    entry = None
    if cls.startswith("entry:"):         # the public wrappers, called with interpretations only (no map / None / an empty map)
        entry, cls = cls[6:], MG

    def call(w, it, f):
        sub = w.new_walker(cls, w.env)
        w.env.attrs["_substituter"] = sub
        interps, ref = {}, {}
        for (name, ret, params), (formals, body) in ip.items():
            fs = w.symbol(name, ("FUN", ret, tuple(params)))
            fo = [proc.build_shape(w, x) for x in formals]
            bo = proc.build_shape(w, body)
            interps[fs] = w.new_walker(FI, fo, bo)
            ref[fs] = (fo, bo)
        if entry == "shortcuts.substitute(f, interpretations=I)":
            return (ref, it.call(it.module_global(w.repo.modules["pysmt.shortcuts"], "substitute"), [f], {"interpretations": interps}))
        if entry == "shortcuts.substitute(f, {}, I)":
            return (ref, it.call(it.module_global(w.repo.modules["pysmt.shortcuts"], "substitute"), [f, {}, interps]))
        if entry == "shortcuts.substitute(f, None, I)":
            return (ref, it.call(it.module_global(w.repo.modules["pysmt.shortcuts"], "substitute"), [f, None, interps]))
        if entry == "f.substitute(interpretations=I)":
            return (ref, it.call(it.getattr(f, "substitute"), [], {"interpretations": interps}))
        if entry == "f.substitute({}, I)":
            return (ref, it.call(it.getattr(f, "substitute"), [{}, interps]))
        return (ref, it.call(it.getattr(sub, "substitute"), [f], {"interpretations": interps}))

    def post(w, f, r, facts):
        ref, res = r
        if not w.is_node(res):
            return proc.ProcResult(shape, "unsupported", "substitute returned %r" % (res,))
        exp = _ref_interp(w, f, ref)
        rs = sc.node_str(w, res)
        if exp is not res:
            v = sc.validate(w, exp, res, facts, repr(shape))
            if v.kind != "valid":
                return proc.ProcResult(shape, "invalid", "applying the interpretations to the rewritten actuals, formals "
                                       "bound in order, gives %s (%s)" % (sc.node_str(w, exp), v.detail), rs)
        return proc.ProcResult(shape, "valid", "= body[formals := rewritten actuals]", rs)
    res = proc.run_proc(shape, call, post=post, services="full", world_cls=proc.TypedWorld)
    istr = "{%s}" % ", ".join("%s(%s) := %s" % (k[0], ", ".join(proc.shape_str(x) for x in v[0]), proc.shape_str(v[1]))
                              for k, v in ip.items())
    return [(entry or cls.split(".")[-1], "%r with %s" % (shape, istr), r.kind, str(r.detail), r.result) for r in res]


def _map_reuse_job(job):
    """The substitution map belongs to the caller: after a call - one that fails inside the body of a quantifier, or one that
    succeeds - it holds what it held, and a later call with the same map object answers like a call with a fresh copy."""
    cls, case = job
    shape = Shape(("lit", True, BOOL))

    def call(w, it, f0):
        sub = w.new_walker(cls, w.env)
        w.env.attrs["_substituter"] = sub
        x, y, z = w.symbol("x", INT), w.symbol("y", INT), w.symbol("z", INT)
        rr = w.symbol("rr", ("REAL",))
        three, five = w.int_const(3), w.int_const(5)
        eq0 = w.app("Equals", w.app("Plus", x, y), w.int_const(0))
        first = {"forall, ill-typed replacement in the body": (w.app("ForAll", [y], eq0), {y: three, z: five, x: rr}),
                 "exists under a conjunction, ill-typed replacement": (w.app("And", w.app("LT", z, x), w.app("Exists", [y], eq0)), {y: three, z: five, x: rr}),
                 "nested binders, ill-typed replacement": (w.app("ForAll", [y], w.app("Exists", [z], w.app("LT", w.app("Plus", x, y), z))), {y: three, z: five, x: rr}),
                 "forall, well-typed": (w.app("ForAll", [y], eq0), {y: three, z: five, x: w.app("Plus", z, w.int_const(1))}),
                 "compound key over the bound variable": (w.app("ForAll", [y], eq0), {w.app("Plus", x, y): five, y: three, x: rr})}[case]
        f, m = first
        before = dict(m)
        try:
            r = it.call(it.getattr(sub, "substitute"), [f, m])
            out1 = "returns"
        except AbsRaise as ex:
            out1 = "raises " + ex.cls_name
        problems = []
        if set(m) != set(before) or any(m[k] is not before[k] for k in before if k in m):
            gone = [sc.node_str(w, k) for k in before if k not in m]
            problems.append("after the call (%s) the caller's map has lost the entries for %s" % (out1, ", ".join(gone) or "(changed values)"))
        later = w.app("LT", w.app("Plus", w.app("Times", y, z), w.int_const(1)), w.symbol("lim", INT))
        m_ok = dict((k, v) for k, v in before.items() if v is not rr)
        for k in list(m):
            if m[k] is rr:
                del m[k]              # the caller repairs the map and uses it again
        got = it.call(it.getattr(sub, "substitute"), [later, m])
        want = it.call(it.getattr(w.new_walker(cls, w.env), "substitute"), [later, dict(m_ok)])
        if got is not want:
            problems.append("a later substitution with the same map gives %s, with a fresh copy of it %s" % (sc.node_str(w, got), sc.node_str(w, want)))
        return (out1, problems)

    def post(w, f, val, facts):
        return proc.ProcResult(shape, "valid", val)
    res = proc.run_proc(shape, call, post=post, services="full", world_cls=proc.TypedWorld, max_paths=4)
    if len(res) != 1 or res[0].kind != "valid":
        return (cls, case, "unsupported", "%s %s" % (res[0].kind, str(res[0].detail)[:200]))
    out1, problems = res[0].detail
    return (cls, case, "bad" if problems else "ok", problems[0] if problems else out1)


MAP_CASES = ["forall, ill-typed replacement in the body", "exists under a conjunction, ill-typed replacement", "nested binders, ill-typed replacement",
             "forall, well-typed", "compound key over the bound variable"]


def map_reuse_results():
    return [_map_reuse_job((c, k)) for c in (MG, MS) for k in MAP_CASES]


def _interp_cost_job(cls):
    """Cost of applying function interpretations to a nest f(f(...f(a))) of depth 8 / 16 / 32 - with an interpretation whose body
    mentions another interpreted function (as the definitions solvers print do): linear in the depth."""
    FI = "pysmt.substituter.FunctionInterpretation"
    shape = Shape(("lit", True, BOOL))
    depths = (8, 16, 32)

    def call(w, it, f0):
        fs = w.symbol("f", ("FUN", INT, (INT,)))
        gs = w.symbol("g", ("FUN", INT, (INT,)))
        xs, ys, a_ = w.symbol("px", INT), w.symbol("py", INT), w.symbol("a0", INT)
        out = {}
        for variant in ("body over the formals", "body over another interpreted function"):
            costs = []
            for d in depths:
                sub = w.new_walker(cls, w.env)
                if variant == "body over the formals":
                    fi = w.new_walker(FI, [xs], w.app("Plus", xs, w.int_const(1)))
                else:
                    fi = it.instantiate(ClassRef(FI), [[xs], w.app("Plus", w.app("Function", gs, [xs]), w.int_const(1))], {"allow_free_vars": True})
                interps = {fs: fi, gs: w.new_walker(FI, [ys], w.app("Times", w.int_const(2), ys))}
                t = a_
                for _ in range(d):
                    t = w.app("Function", fs, [t])
                t = w.app("LT", t, w.symbol("lim%d" % d, INT))
                c0 = it.cost()
                it.call(it.getattr(sub, "substitute"), [t], {"interpretations": interps})
                costs.append(it.cost() - c0)
            out[variant] = costs
        return out

    def post(w, f, val, facts):
        return proc.ProcResult(shape, "valid", val)
    res = proc.run_proc(shape, call, post=post, services="full", world_cls=proc.TypedWorld, max_paths=4,
                        interp_kwargs={"max_steps": 20000000, "max_loop": 200000})
    if len(res) != 1 or res[0].kind != "valid":
        return (cls, "unsupported", "%s %s" % (res[0].kind, str(res[0].detail)[:200]))
    return (cls, "ok", res[0].detail)


def interp_cost_results():
    return [_interp_cost_job(MG), _interp_cost_job(MS)]


ENTRIES = ["shortcuts.substitute(f, interpretations=I)", "shortcuts.substitute(f, {}, I)", "shortcuts.substitute(f, None, I)",
           "f.substitute(interpretations=I)", "f.substitute({}, I)"]


def _job(job):
    cls, shape, mp = job
    via_method = cls == "FNode.substitute"      # the entry point on the node (environment's substituter, most-general)
    if via_method:
        cls = MG
    mode = "mg" if cls == MG else "ms"

    def call(w, it, f):
        sub = w.new_walker(cls, w.env)
        w.env.attrs["_substituter"] = sub
        m = {}
        for k, v in mp:
            m[proc.build_shape(w, k.t)] = proc.build_shape(w, v.t)
        if via_method:
            return (dict(m), it.call(it.getattr(f, "substitute"), [m]))
        return (m, it.call(it.getattr(sub, "substitute"), [f, m]))

    def post(w, f, r, facts):
        m, res = r
        if not w.is_node(res):
            return proc.ProcResult(shape, "unsupported", "substitute returned %r" % (res,))
        exp = ref_subst(w, f, m, mode)
        rs = sc.node_str(w, res)
        if exp is not res:
            # equal up to commutativity / normalising constructors?  fall back to the semantic comparison
            v = sc.validate(w, exp, res, facts, repr(shape))
            if v.kind != "valid":
                return proc.ProcResult(shape, "invalid", "documented %s replacement gives %s"
                                       % ("most-general" if mode == "mg" else "most-specific", sc.node_str(w, exp)), rs)
        # substitution lemma for symbol keys whose replacement mentions no bound variable
        if all(w.opname(k) == "SYMBOL" for k in m):
            n_ok = 0
            for asg in sc.assignments(w, [f, res] + list(m.values()), facts):
                try:
                    upd = dict(asg)
                    for k, t in m.items():
                        upd["sym:" + w.npayload(k)[0]] = sc.nodeval(w, t, asg)
                    lhs = sc.nodeval(w, res, asg)
                    rhs = sc.nodeval(w, f, upd)
                except (refsem.NoSemantics, refsem.Undefined, sc.Malformed):
                    n_ok = None
                    break
                if lhs != rhs:
                    return proc.ProcResult(shape, "invalid", "substitution lemma fails under %s: result denotes %r, the "
                                           "original under the updated interpretation %r" % (sc._show(asg), lhs, rhs), rs)
                n_ok += 1
        return proc.ProcResult(shape, "valid", "= reference %s" % ("MGS" if mode == "mg" else "MSS"), rs)
    res = proc.run_proc(shape, call, post=post, services="full", world_cls=proc.TypedWorld)
    mstr = "{%s}" % ", ".join("%r: %r" % (k, v) for k, v in mp)
    return [("FNode.substitute" if via_method else cls.split(".")[-1], "%r with %s" % (shape, mstr), r.kind, str(r.detail), r.result) for r in res]


def run(ctx):
    if not ctx.want("R7"):
        return
    rs = ctx.rule("R7", "substituters agree with the documented replacement and the substitution lemma (per skeleton, map)")
    jobs = []
    for shape, mp in cases():
        jobs.append((MG, shape, mp))
        jobs.append((MS, shape, mp))
        jobs.append(("FNode.substitute", shape, mp))
    ijobs = [(c, shape, ip) for shape, ip in interp_cases() for c in (MG, MS)]
    ijobs += [("entry:" + e, shape, ip) for shape, ip in interp_cases()[:6:2] for e in ENTRIES]
    for res in parallel_map(_job, jobs) + parallel_map(_interp_job, ijobs):
        for name, case, kind, detail, result in res:
            if kind == "valid":
                rs.ok({"substituter": name, "case": case, "result": result})
            elif kind == "invalid":
                ctx.finding(rs, "%s|%s" % (name, case), "%s on %s returns %s: %s" % (name, case, result, detail),
                            "pysmt/substituter.py")
            elif kind == "raises":
                ctx.finding(rs, "%s|%s|raises" % (name, case), "%s on %s raises %s" % (name, case, detail), "pysmt/substituter.py")
            elif kind != "vacuous":
                rs.unrec("%s on %s: %s" % (name, case, detail[:120]))
    ctx.floor(rs, 30)
