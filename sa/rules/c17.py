"""C17 -- text-interface solver: legal command stream, replies in sync, faithful model."""
import ast

from ..common import (get_repo, short, norm, CFG, normal_only, method_loc, calls_in, attr_tail,
                      is_self_attr, parents, names_in)

TS = "pysmt.smtlib.solver.SmtLibSolver"
FRAMES = ("declared_vars", "declared_sorts")

EXPLANATION = (
    "Static analysis of pysmt/smtlib/solver.py: a method that forwards `levels` to the solver does "
    "its per-level declaration-frame bookkeeping `levels` times (R1); reads of the declaration "
    "frames range over all frames, [-1] is used only to insert (R2); reset_assertions restores the "
    "initial frames (R3); add_assertion declares sorts, then symbols, then asserts, and a "
    "declaration is recorded only after it was acknowledged (R4); every _send_command is followed "
    "on every path by exactly one reply read (R5); the verdict table sat/unsat/unknown/other (R6); "
    "get_model stores exactly the value returned by get_value for the symbol queried (R7).")
NOT_DECIDED = ["legality of arbitrary histories as a whole; that the model satisfies the assertions"]


def run(ctx):
    repo = get_repo()
    ci = repo.cls(TS)
    ctx.analysed["modules"] = ["pysmt/smtlib/solver.py"]
    ctx.analysed["methods"] = [n for n in ci.order if ci.own_func(n) is not None]

    def frame_ops(f):
        """(stmt, frame attr, op) for statements that push/pop a declaration frame"""
        out = []
        for n in ast.walk(f):
            if isinstance(n, ast.Call) and isinstance(n.func, ast.Attribute) and n.func.attr in ("append", "pop") \
                    and is_self_attr(n.func.value) and n.func.value.attr in FRAMES:
                out.append((n, n.func.value.attr, n.func.attr))
        return out

    if ctx.want("R1"):
        rs = ctx.rule("R1", "level mirroring: per-level bookkeeping runs `levels` times")
        for nm in ("push", "pop"):
            f = ci.own_func(nm)
            if f is None:
                ctx.error("R1", "%s.%s vanished" % (TS, nm))
                continue
            params = [a.arg for a in f.args.args]
            if "levels" not in params:
                rs.unrec("%s has no levels parameter" % nm)
                continue
            sends = [c for c in calls_in(f) if attr_tail(c) in ("_send_silent_command", "_send_command")]
            forwards = any("levels" in names_in(c) for c in sends)
            par = parents(f)
            ops = frame_ops(f)
            # `del frames[-levels:]` / `frames[-levels]`: for levels == 0 (a legal `(pop 0)`) the index -0 is 0
            negs = [n for n in ast.walk(f) if isinstance(n, ast.Subscript) and is_self_attr(n.value) and n.value.attr in FRAMES
                    and ((isinstance(n.slice, ast.Slice) and n.slice.lower is not None and norm(n.slice.lower) == "-levels")
                         or norm(n.slice) == "-levels")]
            for n in negs:
                ctx.finding(rs, "%s.%s|negative-zero-index|%s" % (TS, nm, n.value.attr),
                            "%s uses %s: for levels == 0 the index -0 denotes the whole list, so (%s 0) drops every "
                            "declaration frame" % (nm, norm(n), nm), method_loc(repo, TS, n))
            if negs:
                continue
            if not ops:
                rs.unrec("%s: no declaration-frame bookkeeping found" % nm)
                continue
            for call, attr, op in ops:
                p = call
                in_loop = False
                while p in par:
                    p = par[p]
                    if isinstance(p, ast.For) and norm(p.iter) == "range(levels)":
                        in_loop = True
                    if isinstance(p, ast.While) and "levels" in names_in(p.test):
                        in_loop = True
                if in_loop or not forwards:
                    rs.ok({"method": nm, "frame": attr, "op": op, "per_level": True})
                else:
                    ctx.finding(rs, "%s.%s|one-frame-per-call|%s" % (TS, nm, attr),
                                "%s(levels) sends `(%s levels)` to the solver but %ss a single frame of %s: after "
                                "%s(2) the mirror is one frame short/long and later pops fail or leak declarations"
                                % (nm, nm, op, attr, nm), method_loc(repo, TS, call))
            want = "append" if nm == "push" else "pop"
            for attr in FRAMES:
                if not any(a == attr and o == want for _, a, o in ops):
                    ctx.finding(rs, "%s.%s|frame-not-mirrored|%s" % (TS, nm, attr),
                                "%s does not %s a frame of %s" % (nm, want, attr), method_loc(repo, TS, f))
        ctx.floor(rs, 4)

    if ctx.want("R2"):
        rs = ctx.rule("R2", "declaration frames: reads consult all frames, [-1] only inserts")
        for nm in ci.order:
            f = ci.own_func(nm)
            if f is None:
                continue
            par = parents(f)
            for n in ast.walk(f):
                if isinstance(n, ast.Subscript) and is_self_attr(n.value) and n.value.attr in FRAMES and \
                        norm(n.slice) == "-1":
                    p = par.get(n)
                    # insertion: self.declared_x[-1].add(...)
                    if isinstance(p, ast.Attribute) and p.attr in ("add", "update") and isinstance(par.get(p), ast.Call):
                        rs.ok({"method": nm, "use": norm(par[p]), "kind": "insert into top frame"})
                    else:
                        ctx.finding(rs, "%s.%s|top-frame-read|%s" % (TS, nm, n.value.attr),
                                    "%s reads only the top frame %s: symbols declared before the last push are "
                                    "ignored (e.g. a model built after push() loses them)" % (nm, norm(n)),
                                    method_loc(repo, TS, n))
        # membership tests over all frames in add_assertion
        f = ci.own_func("add_assertion")
        if f is not None:
            alls = [c for c in calls_in(f) if isinstance(c.func, ast.Name) and c.func.id in ("all", "any")]
            for c in alls:
                txt = norm(c)
                for attr in FRAMES:
                    if "self.%s" % attr in txt and "[-1]" not in txt:
                        rs.ok({"method": "add_assertion", "membership": txt})
        ctx.floor(rs, 3)

    if ctx.want("R3"):
        rs = ctx.rule("R3", "reset_assertions restores the initial declaration frames")
        f = ci.own_func("reset_assertions")
        init = ci.own_func("__init__")
        if f is None or init is None:
            ctx.error("R3", "reset_assertions/__init__ vanished")
        else:
            for attr in FRAMES:
                st = [n for n in ast.walk(f) if isinstance(n, ast.Assign) and is_self_attr(n.targets[0], attr)]
                clr = [c for c in calls_in(f) if isinstance(c.func, ast.Attribute) and is_self_attr(c.func.value, attr)
                       and c.func.attr in ("clear",)]
                st0 = [n for n in ast.walk(init) if isinstance(n, ast.Assign) and is_self_attr(n.targets[0], attr)]
                if st and st0 and norm(st[0].value) == norm(st0[0].value):
                    rs.ok({"frame": attr, "reset_to": norm(st[0].value)})
                elif st or clr:
                    rs.unrec("reset_assertions resets %s in an unrecognised way" % attr)
                else:
                    ctx.finding(rs, "%s.reset_assertions|frames-kept|%s" % (TS, attr),
                                "reset_assertions sends (reset-assertions) - which also removes every declaration and "
                                "every pushed level in the solver - but keeps %s: symbols are never re-declared and the "
                                "next assert uses undeclared symbols; pushed frames stay in the mirror" % attr,
                                method_loc(repo, TS, f))
        ctx.floor(rs, 2)

    if ctx.want("R4"):
        rs = ctx.rule("R4", "declare sorts, then symbols, then assert; record after acknowledgement")
        f = ci.own_func("add_assertion")
        if f is None:
            ctx.error("R4", "add_assertion vanished")
        else:
            cfg = CFG(f)
            def has(n, name):
                return n.ast is not None and any(attr_tail(c) == name for c in calls_in(
                    n.ast.iter if isinstance(n.ast, ast.For) else n.ast)) and n.kind in ("stmt",)
            ds = [n for n in cfg.nodes if has(n, "_declare_sort")]
            dv = [n for n in cfg.nodes if has(n, "_declare_variable")]
            asr = [n for n in cfg.nodes if n.ast is not None and n.kind == "stmt" and "ASSERT" in norm(n.ast)
                   and any(attr_tail(c) == "_send_silent_command" for c in calls_in(n.ast))]
            if not (ds and dv and asr):
                rs.unrec("add_assertion: declare/assert statements not recognised")
            else:
                a = asr[0]
                # no path from assert back to a declaration; no path from a var declaration to a sort declaration
                r_a = cfg.reachable(a.id, follow=normal_only)
                if any(x.id in r_a for x in ds + dv):
                    ctx.finding(rs, "%s.add_assertion|declare-after-assert" % TS,
                                "a declaration can follow the assert command", method_loc(repo, TS, a.ast))
                else:
                    rs.ok({"order": "declarations precede the assert"})
                r_v = set()
                for v in dv:
                    r_v |= cfg.reachable(v.id, follow=normal_only)
                if any(x.id in r_v for x in ds):
                    ctx.finding(rs, "%s.add_assertion|sort-after-symbol" % TS,
                                "a sort can be declared after a symbol that may use it", method_loc(repo, TS, ds[0].ast))
                else:
                    rs.ok({"order": "sorts precede symbols"})
            # the asserted formula is the one whose symbols were declared
            sends = [c for c in calls_in(f) if attr_tail(c) == "SmtLibCommand" and "ASSERT" in norm(c)]
            if sends:
                arg = norm(sends[0].args[1]) if len(sends[0].args) > 1 else ""
                deps = [n for n in ast.walk(f) if isinstance(n, ast.Assign) and isinstance(n.value, ast.Call)
                        and attr_tail(n.value) == "get_free_variables"]
                if deps and arg == "[%s]" % norm(deps[0].value.func.value):
                    rs.ok({"asserted": arg, "declared_for": norm(deps[0].value)})
                else:
                    rs.unrec("asserted term %s vs declared-for %s" % (arg, [norm(d.value) for d in deps]))
        for nm, attr in (("_declare_variable", "declared_vars"), ("_declare_sort", "declared_sorts")):
            g = ci.own_func(nm)
            if g is None:
                ctx.error("R4", "%s vanished" % nm)
                continue
            cfg = CFG(g)
            send = [n for n in cfg.nodes if n.ast is not None and n.kind == "stmt" and any(attr_tail(c) == "_send_silent_command" for c in calls_in(n.ast))]
            rec = [n for n in cfg.nodes if n.ast is not None and n.kind == "stmt" and "self.%s" % attr in norm(n.ast) and ".add(" in norm(n.ast)]
            if send and rec and cfg.dominated_by(rec[0].id, lambda n: n.id == send[0].id):
                rs.ok({"method": nm, "record": "after acknowledgement"})
            elif send and rec:
                ctx.finding(rs, "%s.%s|record-before-ack" % (TS, nm),
                            "%s records the declaration before the solver acknowledged it: if the command fails the "
                            "symbol is never declared again" % nm, method_loc(repo, TS, rec[0].ast))
            else:
                rs.unrec("%s: send/record not recognised" % nm)
        ctx.floor(rs, 4)

    if ctx.want("R5"):
        rs = ctx.rule("R5", "one reply read per command sent")
        READS = ("_get_answer", "_get_value_answer", "_check_success")
        for nm in ci.order:
            f = ci.own_func(nm)
            if f is None:
                continue
            if not any(attr_tail(c) == "_send_command" for c in calls_in(f)):
                continue
            cfg = CFG(f)
            sends = [n for n in cfg.nodes if n.ast is not None and n.kind == "stmt" and any(attr_tail(c) == "_send_command" for c in calls_in(n.ast))]
            isread = lambda n: n.ast is not None and n.kind == "stmt" and any(attr_tail(c) in READS for c in calls_in(n.ast))
            for s in sends:
                if "EXIT" in norm(s.ast):
                    rs.ok({"method": nm, "command": "exit", "reply": "none expected"})
                    continue
                if cfg.must_pass(s.id, cfg.ret.id, isread, follow=normal_only):
                    # exactly one: after the first read no second read before return
                    reads = [n for n in cfg.nodes if isread(n) and n.id in cfg.reachable(s.id, follow=normal_only)]
                    double = any(any(isread(cfg.nodes[i]) and i != r.id for i in cfg.reachable(r.id, follow=normal_only)) for r in reads)
                    if double:
                        ctx.finding(rs, "%s.%s|two-reads" % (TS, nm),
                                    "%s reads two replies for one command: the next command's reply is consumed"
                                    % nm, method_loc(repo, TS, s.ast))
                    else:
                        rs.ok({"method": nm, "send": short(s.ast), "reads": [short(r.ast, 40) for r in reads]})
                else:
                    ctx.finding(rs, "%s.%s|reply-not-read" % (TS, nm),
                                "%s sends a command and can return without reading its reply: every later reply is "
                                "attributed to the wrong command" % nm, method_loc(repo, TS, s.ast))
        # silent commands: sent through _send_silent_command everywhere else
        ctx.floor(rs, 3)

    if ctx.want("R6"):
        rs = ctx.rule("R6", "verdict table sat / unsat / unknown / other")
        f = ci.own_func("solve")
        table = {}
        other = None
        if f is None:
            ctx.error("R6", "solve vanished")
        else:
            for n in ast.walk(f):
                if isinstance(n, ast.If) and isinstance(n.test, ast.Compare) and len(n.test.ops) == 1 and \
                        isinstance(n.test.ops[0], ast.Eq) and isinstance(n.test.comparators[0], ast.Constant):
                    lit = n.test.comparators[0].value
                    b = n.body[0]
                    if isinstance(b, ast.Return):
                        table[lit] = norm(b.value)
                    elif isinstance(b, ast.Raise):
                        table[lit] = "raise " + norm(b.exc).split("(")[0]
                    if n.orelse and not isinstance(n.orelse[0], ast.If):
                        o = n.orelse[0]
                        other = ("raise " + norm(o.exc).split("(")[0]) if isinstance(o, ast.Raise) else norm(o)
            want = {"sat": "True", "unsat": "False", "unknown": "raise SolverReturnedUnknownResultError"}
            for k, v in want.items():
                if table.get(k) == v:
                    rs.ok({"answer": k, "outcome": v})
                elif k in table:
                    ctx.finding(rs, "%s.solve|verdict|%s" % (TS, k),
                                "solver answer '%s' is turned into %s (expected %s)" % (k, table[k], v),
                                method_loc(repo, TS, f))
                else:
                    rs.unrec("no branch for answer '%s'" % k)
            if other and other.startswith("raise"):
                rs.ok({"answer": "<other>", "outcome": other})
            else:
                ctx.finding(rs, "%s.solve|verdict|other" % TS,
                            "an unrecognised solver answer does not raise (%s)" % other, method_loc(repo, TS, f))
        ctx.floor(rs, 4)

    if ctx.want("R7"):
        rs = ctx.rule("R7", "get_model stores the value the solver reported for the symbol queried")
        f = ci.own_func("get_model")
        if f is None:
            ctx.error("R7", "get_model vanished")
        else:
            # model entry: <map>[k] = v  with  v = self.get_value(q): k and q must be the same term
            good = False
            asg = [n for n in ast.walk(f) if isinstance(n, ast.Assign) and isinstance(n.targets[0], ast.Subscript)]
            gv = {}
            for n in ast.walk(f):
                if isinstance(n, ast.Assign) and isinstance(n.value, ast.Call) and attr_tail(n.value) == "get_value" \
                        and isinstance(n.targets[0], ast.Name) and n.value.args:
                    gv[n.targets[0].id] = n.value
            for a in asg:
                k = norm(a.targets[0].slice)
                v = a.value
                call = v if (isinstance(v, ast.Call) and attr_tail(v) == "get_value") else gv.get(norm(v))
                if call is None:
                    continue
                good = True
                q = norm(call.args[0])
                if k == q:
                    rs.ok({"store": norm(a), "query": norm(call)})
                else:
                    ctx.finding(rs, "%s.get_model|store-mismatch" % TS,
                                "model entry for %s is the value the solver reported for %s" % (k, q),
                                method_loc(repo, TS, a))
            if not good:
                rs.unrec("get_model: value query / store not recognised")
            rets = [n for n in ast.walk(f) if isinstance(n, ast.Return)]
            if rets and "EagerModel" in norm(rets[0].value) and "assignment" in norm(rets[0].value):
                rs.ok({"returns": short(rets[0].value)})
        gvf = ci.own_func("get_value")
        if gvf is not None:
            rets = [n for n in ast.walk(gvf) if isinstance(n, ast.Return)]
            if rets and norm(rets[0].value) == "lst[0][1]":
                rs.ok({"get_value": "returns the value component of the single reply pair"})
            else:
                rs.unrec("get_value return: %s" % [norm(r.value) for r in rets])
        ctx.floor(rs, 2)
