"""C17 -- text-interface solver: legal command stream, replies in sync, faithful model."""
from ..common import get_repo

TS = "pysmt.smtlib.solver.SmtLibSolver"

EXPLANATION = (
    "Abstract interpretation of pysmt/smtlib/solver.py (with the Solver base class, the clear_pending_pop "
    "decorator, SmtLibCommand.serialize, the let-DAG printer and the interactive parser used for value "
    "replies): the solver process is replaced by a reference SMT-LIB solver written on the analysis side - it "
    "reads the command stream with the independent reader (sa/refsmt.py), checks every command against its "
    "assertion-stack state (declared before use, declared once while in scope, pops within the stack) and "
    "answers success / sat / value lists.  For every legal sequence of API calls up to a bounded length over "
    "assert (three formulas, one over an uninterpreted sort) | push 0/1/2 | pop 0/1/2 | reset_assertions | "
    "solve | is_sat | get_model | get_value the interpreted SmtLibSolver is run against it: the stream must "
    "be legal, no reply may stay unread and none may be awaited that no command causes, the solver's level "
    "must mirror the caller's, the verdict must be the one given, and the model must assign every symbol of "
    "the live assertions the value the solver reported (R8).  Verdict table: sat / unsat / unknown / anything "
    "else, for solve and is_sat (R6).  Values of 21 symbols (bit-vectors of widths 3 - 16 with every position of the hexadecimal "
    "digit b, rationals of both signs, negative integers) reported in four notations - z3's (#x.., (/ 1.0 3.0)), cvc5's (#b.., (/ (- 1) 3)), "
    "indexed literals (_ bvN w), plain - come back from get_value and get_model as the reported values (R9).  Created with each option of the base class "
    "(random_seed, generate_models, incremental, solver_options) against a process that - like z3 - is silent until :print-success is set, the "
    "constructor returns, every option command reaches the process, and assert / solve / get_value work (R10).")
NOT_DECIDED = ["API sequences longer than the bound (3 calls in the quick tier, 4 in the thorough tier)",
               "the factory shortcuts of pysmt/factory.py beyond Solver.is_sat (they construct real solver processes)"]


def run(ctx):
    repo = get_repo()
    ctx.analysed["modules"] = ["pysmt/smtlib/solver.py", "pysmt/solvers/solver.py", "pysmt/decorators.py",
                               "pysmt/smtlib/script.py", "pysmt/smtlib/printers.py", "pysmt/smtlib/parser/parser.py"]
    from . import solver_deep as sd

    if ctx.want("R8"):
        rs = ctx.rule("R8", "API sequences against the reference solver process: legal stream, replies in sync, levels mirrored, faithful model")
        res = sd.text_solver_results(repo, ctx.tier)
        ctx.analysed["api_sequences"] = len(res)
        for seq, kind, problems, ncmd in res:
            name = " ; ".join(sd.T_NAMES[x] for x in seq)
            if kind == "ok":
                rs.ok({"sequence": name, "commands_sent": ncmd})
            elif kind == "unsupported":
                rs.unrec("%s: %s" % (name, problems[0][:160]))
            else:
                ctx.finding(rs, "seq|%s" % name, "after [%s]: %s" % (name, problems[0]), "pysmt/smtlib/solver.py")
        ctx.floor(rs, 300)

    if ctx.want("R9"):
        rs = ctx.rule("R9", "model values in the notations solvers reply with (hexadecimal / binary / indexed bit-vector literals, ratios "
                            "of decimals or of numerals, negative numerals): get_value and get_model hand back the reported value")
        for dialect, kind, problems in sd.text_value_results(repo):
            dn = dialect or "plain"
            if kind != "ok":
                rs.unrec("%s: %s" % (dn, problems))
                continue
            bad = set()
            for key, what in problems:
                bad.add(key.split("|")[0])
                ctx.finding(rs, "values|%s|%s" % (dn, key), "replies in the notation of %s: %s" % (dn, what), "pysmt/smtlib/parser/parser.py")
            for nm in sorted(sd.VALUE_MODEL):
                if nm not in bad:
                    rs.ok({"notation": dn, "symbol": nm, "value": str(sd.VALUE_MODEL[nm])})
        ctx.floor(rs, 60)

    if ctx.want("R10"):
        rs = ctx.rule("R10", "solver options: created with each option the base class accepts, against a solver process that is silent until "
                             ":print-success is set, the constructor returns, every option reaches the process and the solver works")
        for tag, kind, problems in sd.text_options_results(repo):
            if kind != "ok":
                rs.unrec("%s: %s" % (tag, problems))
            elif problems:
                ctx.finding(rs, "options|%s" % tag, "SmtLibSolver created with [%s]: %s" % (tag, problems[0]), "pysmt/smtlib/solver.py")
            else:
                rs.ok({"options": tag})
        ctx.floor(rs, 6)

    if ctx.want("R6"):
        rs = ctx.rule("R6", "verdict table: sat / unsat / unknown / other, for solve and is_sat")
        for ans, api, want, got in sd._verdict_job(None):
            if got.startswith("unsupported"):
                rs.unrec(got)
            elif got == "does-not-terminate":
                ctx.finding(rs, "verdict|%s|eof-loop" % api,
                            "%s(): when the solver process ends without answering, the reply read never terminates "
                            "(end-of-file is read again and again)" % api, "pysmt/smtlib/solver.py")
            elif got == want:
                rs.ok({"answer": ans, "call": api, "outcome": got})
            else:
                ctx.finding(rs, "verdict|%s|%s" % (api, ans), "%s() on the answer %r gives %s, expected %s" % (api, ans, got, want),
                            "pysmt/smtlib/solver.py")
        ctx.floor(rs, 10)
