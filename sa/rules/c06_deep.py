def run(ctx):
    pass
