"""C06 deep rules R2-R8: every derived constructor / infix form is expanded by interpreting its
source on opaque operands (symbols of symbolic width, Python integer parameters as symbolic or small
concrete values); the resulting core term is compared with the mathematical function the name
denotes, for all operand values over small domains (bit-vectors exhaustively at widths 1..3/4)."""
import ast
import itertools
from fractions import Fraction

from ..common import get_repo, parallel_map
from .. import proc, refsem
from ..proc import S, BOOL, INT, REAL
from .. import simpcheck as sc
from ..absint import Interp, Explorer, Unsupported, AbsRaise, SymInt, AObj, ClassRef, Func

BVW = ("BV", "W")
FNODE = "pysmt.fnode.FNode"


def sgn(v, w):
    return refsem.to_signed(v, w)


# name -> (operand sorts, how to call, reference value function(values, widths) )
#   call kinds: ('mgr', ctor)            manager constructor on the operands
#               ('meth', name)           FNode method / dunder on operand 0 with the others as arguments
#               ('fn', module, name)     module-level function
def cases():
    c = []
    B = BOOL

    def bvcase(name, call, n, ref, extra=()):
        c.append((name, call, [BVW] * n, list(extra), ref))
    # comparisons
    for sort, nm in ((INT, "Int"), (REAL, "Real")):
        c.append(("GE[%s]" % nm, ("mgr", "GE"), [sort, sort], [], lambda v, W: v[0] >= v[1]))
        c.append(("GT[%s]" % nm, ("mgr", "GT"), [sort, sort], [], lambda v, W: v[0] > v[1]))
        c.append(("NotEquals[%s]" % nm, ("mgr", "NotEquals"), [sort, sort], [], lambda v, W: v[0] != v[1]))
        for k in (1, 2, 3, 4):
            c.append(("Min/%d[%s]" % (k, nm), ("mgr", "Min"), [sort] * k, [], lambda v, W: min(v)))
            c.append(("Max/%d[%s]" % (k, nm), ("mgr", "Max"), [sort] * k, [], lambda v, W: max(v)))
        c.append(("Abs[%s]" % nm, ("fn", "pysmt.shortcuts", "Abs"), [sort], [], lambda v, W: abs(v[0])))
        c.append(("infix >=[%s]" % nm, ("meth", "__ge__"), [sort, sort], [], lambda v, W: v[0] >= v[1]))
        c.append(("infix >[%s]" % nm, ("meth", "__gt__"), [sort, sort], [], lambda v, W: v[0] > v[1]))
        c.append(("infix <=[%s]" % nm, ("meth", "__le__"), [sort, sort], [], lambda v, W: v[0] <= v[1]))
        c.append(("infix <[%s]" % nm, ("meth", "__lt__"), [sort, sort], [], lambda v, W: v[0] < v[1]))
        c.append(("infix +[%s]" % nm, ("meth", "__add__"), [sort, sort], [], lambda v, W: v[0] + v[1]))
        c.append(("infix -[%s]" % nm, ("meth", "__sub__"), [sort, sort], [], lambda v, W: v[0] - v[1]))
        c.append(("infix *[%s]" % nm, ("meth", "__mul__"), [sort, sort], [], lambda v, W: v[0] * v[1]))
        c.append(("infix unary -[%s]" % nm, ("meth", "__neg__"), [sort], [], lambda v, W: -v[0]))
        c.append(("infix x+3[%s]" % nm, ("meth", "__add__"), [sort], [3], lambda v, W: v[0] + 3))
        c.append(("infix 3+x[%s]" % nm, ("meth", "__radd__"), [sort], [3], lambda v, W: 3 + v[0]))
        c.append(("infix 3-x[%s]" % nm, ("meth", "__rsub__"), [sort], [3], lambda v, W: 3 - v[0]))
        c.append(("infix 3*x[%s]" % nm, ("meth", "__rmul__"), [sort], [3], lambda v, W: 3 * v[0]))
        c.append(("infix x-3[%s]" % nm, ("meth", "__sub__"), [sort], [3], lambda v, W: v[0] - 3))
    # compound operands: n-ary products and sums with constants at every position, differences, nested forms
    from fractions import Fraction as F_
    for sort, nm, mk in ((INT, "Int", lambda k: ("lit", k, INT)), (REAL, "Real", lambda k: ("lit", F_(k), REAL))):
        x_, y_, z_ = proc.S("x", sort), proc.S("y", sort), proc.S("z", sort)
        terms = [("Times", x_, mk(-2), y_), ("Times", mk(-2), x_, y_), ("Times", x_, y_, mk(-1)), ("Times", x_, mk(-1)), ("Times", mk(-1), x_),
                 ("Times", x_, mk(-1), y_, z_), ("Times", x_, mk(3), mk(-1)), ("Minus", x_, y_), ("Plus", x_, mk(-3), y_), ("Minus", mk(0), x_),
                 ("Times", ("Plus", x_, mk(1)), mk(-1), y_), ("Ite", ("LT", x_, y_), ("Times", x_, mk(-2), y_), y_)]
        for t_ in terms:
            sh_ = ("shape", t_)
            tn = proc.shape_str(t_)
            c.append(("Abs(%s)[%s]" % (tn, nm), ("fn", "pysmt.shortcuts", "Abs"), [sh_], [], lambda v, W: abs(v[0])))
            c.append(("Min(%s, z)[%s]" % (tn, nm), ("mgr", "Min"), [sh_, sort], [], lambda v, W: min(v)))
            c.append(("Max(z, %s)[%s]" % (tn, nm), ("mgr", "Max"), [sort, sh_], [], lambda v, W: max(v)))
        c.append(("Min(x, 3, y, -2)[%s]" % nm, ("mgr", "Min"), [sort, ("shape", mk(3)), sort, ("shape", mk(-2))], [], lambda v, W: min(v)))
        c.append(("Max(-2, x, 3, y)[%s]" % nm, ("mgr", "Max"), [("shape", mk(-2)), sort, ("shape", mk(3)), sort], [], lambda v, W: max(v)))
        c.append(("GE(x*-2*y, x-y)[%s]" % nm, ("mgr", "GE"), [("shape", terms[0]), ("shape", terms[7])], [], lambda v, W: v[0] >= v[1]))
        c.append(("NotEquals(x*-1, 0-x)[%s]" % nm, ("mgr", "NotEquals"), [("shape", terms[3]), ("shape", terms[9])], [], lambda v, W: v[0] != v[1]))
    # the public wrappers of pysmt.shortcuts with the operands handed over as var-args, list, tuple and one-shot iterator
    nary = [("AtMostOne", B, lambda v, W: sum(map(bool, v)) <= 1), ("ExactlyOne", B, lambda v, W: sum(map(bool, v)) == 1),
            ("And", B, lambda v, W: all(v)), ("Or", B, lambda v, W: any(v)), ("AllDifferent", INT, lambda v, W: len(set(v)) == len(v)),
            ("Plus", INT, lambda v, W: sum(v)), ("Times", INT, lambda v, W: (v[0] * v[1] * (v[2] if len(v) > 2 else 1))),
            ("Min", INT, lambda v, W: min(v)), ("Max", INT, lambda v, W: max(v))]
    for fname, so_, ref_ in nary:
        for k in (2, 3):
            for fm in ("varargs", "list", "tuple", "iter"):
                c.append(("shortcuts.%s/%d as %s" % (fname, k, fm), ("fn", "pysmt.shortcuts", fname), [so_] * k,
                          [] if fm == "varargs" else ["form:" + fm], ref_))
            c.append(("mgr.%s/%d as iter" % (fname, k), ("mgr", fname), [so_] * k, ["form:iter"], ref_))
    # Python float literals on the right / left of an infix form: promoted to the Real constant of exactly that value
    from fractions import Fraction as F2_
    for lit in (0.1, 1e-7, 0.5, 0.3, 123456.789, -2.5e-9):
        fl = F2_(lit)
        c.append(("infix r+%r" % lit, ("meth", "__add__"), [REAL], [lit], (lambda fl: lambda v, W: v[0] + fl)(fl)))
        c.append(("infix %r-r" % lit, ("meth", "__rsub__"), [REAL], [lit], (lambda fl: lambda v, W: fl - v[0])(fl)))
        c.append(("infix r*%r" % lit, ("meth", "__mul__"), [REAL], [lit], (lambda fl: lambda v, W: v[0] * fl)(fl)))
        c.append(("infix r<%r" % lit, ("meth", "__lt__"), [REAL], [lit], (lambda fl: lambda v, W: v[0] < fl)(fl)))
        c.append(("infix r>=%r" % lit, ("meth", "__ge__"), [REAL], [lit], (lambda fl: lambda v, W: v[0] >= fl)(fl)))
        c.append(("method r.Equals(%r)" % lit, ("meth", "Equals"), [REAL], [lit], (lambda fl: lambda v, W: v[0] == fl)(fl)))
    c.append(("Xor", ("mgr", "Xor"), [B, B], [], lambda v, W: v[0] != v[1]))
    c.append(("NotEquals[Bool via EqualsOrIff]", ("mgr", "EqualsOrIff"), [B, B], [], lambda v, W: v[0] == v[1]))
    c.append(("EqualsOrIff[Int]", ("mgr", "EqualsOrIff"), [INT, INT], [], lambda v, W: v[0] == v[1]))
    c.append(("EqualsOrIff[BV]", ("mgr", "EqualsOrIff"), [BVW, BVW], [], lambda v, W: v[0] == v[1]))
    for k in range(0, 5):
        c.append(("AtMostOne/%d" % k, ("mgr", "AtMostOne"), [B] * k, [], lambda v, W: sum(map(bool, v)) <= 1))
        c.append(("ExactlyOne/%d" % k, ("mgr", "ExactlyOne"), [B] * k, [], lambda v, W: sum(map(bool, v)) == 1))
    for k in range(2, 5):
        c.append(("AllDifferent/%d[Int]" % k, ("mgr", "AllDifferent"), [INT] * k, [], lambda v, W: len(set(v)) == len(v)))
        c.append(("AllDifferent/%d[Bool]" % k, ("mgr", "AllDifferent"), [B] * k, [], lambda v, W: len(set(v)) == len(v)))
    # the same term at two positions
    c.append(("AllDifferent(x, x)", ("mgr", "AllDifferent"), [INT, INT], ["same:0:1"], lambda v, W: False))
    c.append(("AllDifferent(x, y, x)", ("mgr", "AllDifferent"), [INT, INT, INT], ["same:0:2"], lambda v, W: False))
    c.append(("AtMostOne(a, a)", ("mgr", "AtMostOne"), [B, B], ["same:0:1"], lambda v, W: not v[0]))
    c.append(("ExactlyOne(a, b, a)", ("mgr", "ExactlyOne"), [B, B, B], ["same:0:2"], lambda v, W: sum(map(bool, v)) == 1))
    c.append(("Min(x, x)", ("mgr", "Min"), [INT, INT], ["same:0:1"], lambda v, W: v[0]))
    c.append(("Xor(a, a)", ("mgr", "Xor"), [B, B], ["same:0:1"], lambda v, W: False))
    c.append(("EqualsOrIff(x, x)", ("mgr", "EqualsOrIff"), [INT, INT], ["same:0:1"], lambda v, W: True))
    c.append(("infix & [Bool]", ("meth", "__and__"), [B, B], [], lambda v, W: v[0] and v[1]))
    c.append(("infix | [Bool]", ("meth", "__or__"), [B, B], [], lambda v, W: v[0] or v[1]))
    c.append(("infix ^ [Bool]", ("meth", "__xor__"), [B, B], [], lambda v, W: v[0] != v[1]))
    c.append(("infix ~ [Bool]", ("meth", "__invert__"), [B], [], lambda v, W: not v[0]))
    for nm, f in (("Implies", lambda v, W: (not v[0]) or v[1]), ("Iff", lambda v, W: v[0] == v[1]),
                  ("And", lambda v, W: v[0] and v[1]), ("Or", lambda v, W: v[0] or v[1])):
        c.append(("method %s" % nm, ("meth", nm), [B, B], [], f))
    c.append(("method Ite", ("meth", "Ite"), [B, INT, INT], [], lambda v, W: v[1] if v[0] else v[2]))
    c.append(("method Equals", ("meth", "Equals"), [INT, INT], [], lambda v, W: v[0] == v[1]))
    c.append(("method NotEquals", ("meth", "NotEquals"), [INT, INT], [], lambda v, W: v[0] != v[1]))
    # bit-vectors
    M = lambda W: (1 << W) - 1
    bvcase("BVNand", ("mgr", "BVNand"), 2, lambda v, W: ~(v[0] & v[1]) & M(W))
    bvcase("BVNor", ("mgr", "BVNor"), 2, lambda v, W: ~(v[0] | v[1]) & M(W))
    bvcase("BVXnor", ("mgr", "BVXnor"), 2, lambda v, W: ~(v[0] ^ v[1]) & M(W))
    bvcase("BVUGT", ("mgr", "BVUGT"), 2, lambda v, W: v[0] > v[1])
    bvcase("BVUGE", ("mgr", "BVUGE"), 2, lambda v, W: v[0] >= v[1])
    bvcase("BVSGT", ("mgr", "BVSGT"), 2, lambda v, W: sgn(v[0], W) > sgn(v[1], W))
    bvcase("BVSGE", ("mgr", "BVSGE"), 2, lambda v, W: sgn(v[0], W) >= sgn(v[1], W))
    bvcase("BVSMod", ("mgr", "BVSMod"), 2, lambda v, W: refsem.bvsmod(v[0], v[1], W))
    bvcase("BVAnd/3", ("mgr", "BVAnd"), 3, lambda v, W: v[0] & v[1] & v[2])
    bvcase("BVOr/3", ("mgr", "BVOr"), 3, lambda v, W: v[0] | v[1] | v[2])
    bvcase("BVAdd/3", ("mgr", "BVAdd"), 3, lambda v, W: (v[0] + v[1] + v[2]) & M(W))
    bvcase("BVMul/3", ("mgr", "BVMul"), 3, lambda v, W: (v[0] * v[1] * v[2]) & M(W))
    bvcase("BVConcat/3", ("mgr", "BVConcat"), 3, lambda v, W: (v[0] << (2 * W)) | (v[1] << W) | v[2])
    bvcase("BVAnd/1", ("mgr", "BVAnd"), 1, lambda v, W: v[0])
    bvcase("MinBV unsigned/3", ("mgr", "MinBV"), 3, lambda v, W: min(v), extra=["pre:False"])
    bvcase("MaxBV unsigned/3", ("mgr", "MaxBV"), 3, lambda v, W: max(v), extra=["pre:False"])
    bvcase("MinBV signed/3", ("mgr", "MinBV"), 3, lambda v, W: min(v, key=lambda x: sgn(x, W)), extra=["pre:True"])
    bvcase("MaxBV signed/2", ("mgr", "MaxBV"), 2, lambda v, W: max(v, key=lambda x: sgn(x, W)), extra=["pre:True"])
    for k in (1, 2, 3):
        bvcase("BVRepeat x%d" % k, ("mgr", "BVRepeat"), 1,
               (lambda k: lambda v, W: sum(v[0] << (i * W) for i in range(k)))(k), extra=[k])
    for sh in (0, 1, 2, 3):
        bvcase("BVLShl by int %d" % sh, ("mgr", "BVLShl"), 1, (lambda s: lambda v, W: (v[0] << s) & M(W) if s < W else 0)(sh), extra=[sh])
        bvcase("BVLShr by int %d" % sh, ("mgr", "BVLShr"), 1, (lambda s: lambda v, W: (v[0] >> s) if s < W else 0)(sh), extra=[sh])
        bvcase("BVAShr by int %d" % sh, ("mgr", "BVAShr"), 1, (lambda s: lambda v, W: refsem.bvashr(v[0], s, W))(sh), extra=[sh])
        bvcase("shortcuts.BVLShl by int %d" % sh, ("fn", "pysmt.shortcuts", "BVLShl"), 1, (lambda s: lambda v, W: (v[0] << s) & M(W) if s < W else 0)(sh), extra=[sh])
        bvcase("shortcuts.BVLShr by int %d" % sh, ("fn", "pysmt.shortcuts", "BVLShr"), 1, (lambda s: lambda v, W: (v[0] >> s) if s < W else 0)(sh), extra=[sh])
        bvcase("shortcuts.BVAShr by int %d" % sh, ("fn", "pysmt.shortcuts", "BVAShr"), 1, (lambda s: lambda v, W: refsem.bvashr(v[0], s, W))(sh), extra=[sh])
        bvcase("infix << %d" % sh, ("meth", "__lshift__"), 1, (lambda s: lambda v, W: (v[0] << s) & M(W) if s < W else 0)(sh), extra=[sh])
        bvcase("infix >> %d" % sh, ("meth", "__rshift__"), 1, (lambda s: lambda v, W: (v[0] >> s) if s < W else 0)(sh), extra=[sh])
    for dn, f in (("__add__", lambda v, W: (v[0] + v[1]) & M(W)), ("__sub__", lambda v, W: (v[0] - v[1]) & M(W)),
                  ("__mul__", lambda v, W: (v[0] * v[1]) & M(W)), ("__and__", lambda v, W: v[0] & v[1]),
                  ("__or__", lambda v, W: v[0] | v[1]), ("__xor__", lambda v, W: v[0] ^ v[1]),
                  ("__div__", lambda v, W: refsem.bvudiv(v[0], v[1], W)), ("__truediv__", lambda v, W: refsem.bvudiv(v[0], v[1], W)),
                  ("__mod__", lambda v, W: refsem.bvurem(v[0], v[1], W)),
                  ("__lt__", lambda v, W: v[0] < v[1]), ("__le__", lambda v, W: v[0] <= v[1]),
                  ("__gt__", lambda v, W: v[0] > v[1]), ("__ge__", lambda v, W: v[0] >= v[1])):
        bvcase("infix %s [BV]" % dn, ("meth", dn), 2, f)
    bvcase("infix ~ [BV]", ("meth", "__invert__"), 1, lambda v, W: ~v[0] & M(W))
    bvcase("infix unary - [BV]", ("meth", "__neg__"), 1, lambda v, W: (-v[0]) & M(W))
    bvcase("infix 1 - x [BV]", ("meth", "__rsub__"), 1, lambda v, W: (1 - v[0]) & M(W), extra=[1])
    bvcase("infix x + 1 [BV]", ("meth", "__add__"), 1, lambda v, W: (v[0] + 1) & M(W), extra=[1])
    for nm, f in (("BVSGT", lambda v, W: sgn(v[0], W) > sgn(v[1], W)), ("BVUGE", lambda v, W: v[0] >= v[1]),
                  ("BVSMod", lambda v, W: refsem.bvsmod(v[0], v[1], W)), ("BVNand", lambda v, W: ~(v[0] & v[1]) & M(W)),
                  ("BVSRem", lambda v, W: refsem.bvsrem(v[0], v[1], W)), ("BVSDiv", lambda v, W: refsem.bvsdiv(v[0], v[1], W)),
                  ("BVComp", lambda v, W: 1 if v[0] == v[1] else 0), ("BVXnor", lambda v, W: ~(v[0] ^ v[1]) & M(W)),
                  ("BVAShr", lambda v, W: refsem.bvashr(v[0], v[1], W)), ("BVULT", lambda v, W: v[0] < v[1]),
                  ("BVSLE", lambda v, W: sgn(v[0], W) <= sgn(v[1], W)), ("BVUGT", lambda v, W: v[0] > v[1]),
                  ("BVSub", lambda v, W: (v[0] - v[1]) & M(W)), ("BVURem", lambda v, W: refsem.bvurem(v[0], v[1], W))):
        bvcase("method %s" % nm, ("meth", nm), 2, f)
    return c


def _job(idx):
    name, call, sorts, extra, ref = CASES[idx]

    def one(ex):
        it = Interp(ex)
        w = proc.setup_env(__import__("sa.world", fromlist=["World"]).World().attach(it))
        # an operand is a fresh symbol of the given sort, or a compound term given as a skeleton
        ops = [proc.build_shape(w, s[1]) if isinstance(s, tuple) and s and s[0] == "shape" else w.symbol("t%d" % i, sc._sort(w, s))
               for i, s in enumerate(sorts)]
        for e in extra:
            if isinstance(e, str) and e.startswith("same:"):      # operand j is the very same term as operand i
                _, i_, j_ = e.split(":")
                ops[int(j_)] = ops[int(i_)]
        pre = [e[4:] == "True" for e in extra if isinstance(e, str) and e.startswith("pre:")]
        form = [e[5:] for e in extra if isinstance(e, str) and e.startswith("form:")]
        post_args = [e for e in extra if not (isinstance(e, str) and (e.startswith("pre:") or e.startswith("same:") or e.startswith("form:")))]
        call_ops = ops
        if form:
            # how the operands are handed over: one list / tuple / one-shot iterator (as a generator expression is)
            from ..absint import ListIter
            call_ops = [{"list": list, "tuple": tuple, "iter": ListIter}[form[0]](ops)]
        if call[0] == "mgr":
            r = it.call(it.getattr(w.mgr, call[1]), pre + call_ops + post_args)
        elif call[0] == "meth":
            r = it.call(it.getattr(ops[0], call[1]), ops[1:] + post_args)
        else:
            r = it.call(it.module_global(w.repo.modules[call[1]], call[2]), call_ops + post_args)
        return (w, ops, r)
    try:
        paths = Explorer(max_paths=100).run(one)
    except Unsupported as e:
        return [(name, "unsupported", str(e))]
    out = []
    for p in paths:
        if p.kind == "unsupported":
            out.append((name, "unsupported", str(p.value)))
            continue
        if p.kind == "raise":
            # explicit rejections (PysmtValueError / PysmtTypeError) are not wrong answers; internal
            # errors on a feasible path are
            internal = p.value.cls_name in ("AssertionError", "AttributeError", "TypeError", "KeyError", "IndexError",
                                            "ZeroDivisionError", "UnboundLocalError", "NameError")
            feas = False
            if internal:
                facts = p.facts()
                vs = set()
                for f in facts:
                    sc.term_vars(f, vs)
                for wv in (1, 2, 3):
                    if sc.facts_hold(facts, dict((v, wv) for v in vs)):
                        feas = True
            if internal and feas:
                out.append((name, "raises", "%s %s" % (p.value.cls_name, [str(a)[:60] for a in p.value.exc_args])))
            continue
        w, ops, r = p.value
        if not w.is_node(r):
            out.append((name, "unsupported", "returned %r" % (r,)))
            continue
        rs = sc.node_str(w, r)
        n_ok = 0
        bad = None
        try:
            for asg in sc.assignments(w, ops + [r], p.facts(), max_w=3):
                if not sc.facts_hold(p.facts(), asg):
                    continue
                vals = [asg["sym:" + w.npayload(o)[0]] if w.opname(o) == "SYMBOL" else sc.nodeval(w, o, asg) for o in ops]
                W = asg.get("W")
                try:
                    exp = ref(vals, W)
                    got = sc.nodeval(w, r, asg)
                except refsem.Undefined:
                    continue
                if isinstance(exp, bool) or isinstance(got, bool):
                    same = bool(exp) == bool(got)
                else:
                    same = exp == got
                if not same:
                    bad = "for %s%s the expansion %s denotes %r, the name denotes %r" % (
                        vals, (" at width %d" % W) if W else "", rs[:160], got, exp)
                    break
                n_ok += 1
        except (refsem.NoSemantics, sc.Malformed) as e:
            out.append((name, "unsupported", "evaluation: %s" % e))
            continue
        if bad:
            out.append((name, "invalid", bad))
        elif n_ok:
            out.append((name, "valid", "%d operand assignments; expansion %s" % (n_ok, rs[:120])))
    return out


CASES = cases()


def _sbv_job(_):
    """SBV(value, width): two's complement for negatives, range check."""
    def one(ex):
        it = Interp(ex)
        w = __import__("sa.world", fromlist=["World"]).World().attach(it)
        v, wd = w.var("v", "int"), w.var("W", "width")
        r = it.call(it.getattr(w.mgr, "SBV"), [v, wd])
        return (w, r)
    out = []
    paths = Explorer(max_paths=100).run(one)
    for W in (1, 2, 3, 4):
        for v in range(-(1 << W) - 2, (1 << W) + 3):
            asg = {"v": v, "W": W}
            exp_ok = -(1 << (W - 1)) <= v <= (1 << (W - 1)) - 1
            for p in paths:
                if not sc.facts_hold(p.facts(), asg):
                    continue
                if p.kind == "unsupported":
                    return [("SBV", "unsupported", str(p.value))]
                if p.kind == "raise":
                    if exp_ok:
                        return [("SBV", "invalid", "SBV(%d, %d) raises %s although the value is representable" % (v, W, p.value.cls_name))]
                else:
                    w, r = p.value
                    if not exp_ok:
                        return [("SBV", "invalid", "SBV(%d, %d) is accepted although it is out of the signed range" % (v, W))]
                    got = sc.nodeval(w, r, asg)
                    if got != v % (1 << W) or sc.ev(w.nsort(r)[1], asg) != W:
                        return [("SBV", "invalid", "SBV(%d, %d) builds the constant %r" % (v, W, got))]
                break
    return [("SBV", "valid", "all values in [-2^W-2, 2^W+2] at widths 1..4")]


def _slice_job(_):
    """x[i:j], x[i:], x[:j], x[i] on a bit-vector: BVExtract(x, start=i or 0, end=j)."""
    out = []
    for start, stop in [(0, 0), (None, 0), (0, 2), (1, 2), (None, 2), (1, 3), (3, 3), (0, 3), (2, 2)]:
        def one(ex, start=start, stop=stop):
            it = Interp(ex)
            w = proc.setup_env(__import__("sa.world", fromlist=["World"]).World().attach(it))
            x = w.symbol("x", ("BV", 4))
            idx = AObj("builtins.slice", {"start": start, "stop": stop, "step": None})
            r = it.call(it.getattr(x, "__getitem__"), [idx])
            exp = w.mk_node(w.ops.id("BV_EXTRACT"), (x,), (stop - (start or 0) + 1, start or 0, stop))
            return (w, r, exp)
        for p in Explorer(max_paths=20).run(one):
            if p.kind == "return":
                w, r, exp = p.value
                if r is exp:
                    out.append(("slice x[%s:%s]" % (start, stop), "valid", "extract bits %s..%s" % (start or 0, stop)))
                else:
                    out.append(("slice x[%s:%s]" % (start, stop), "invalid",
                                "x[%s:%s] builds %s with payload %s; the slice denotes bits %s..%s"
                                % (start, stop, sc.node_str(w, r), w.npayload(r) if w.is_node(r) else None, start or 0, stop)))
            elif p.kind == "raise":
                out.append(("slice x[%s:%s]" % (start, stop), "raises", p.value.cls_name))
            else:
                out.append(("slice x[%s:%s]" % (start, stop), "unsupported", str(p.value)))
    for i in (0, 2, 3):
        def one(ex, i=i):
            it = Interp(ex)
            w = proc.setup_env(__import__("sa.world", fromlist=["World"]).World().attach(it))
            x = w.symbol("x", ("BV", 4))
            r = it.call(it.getattr(x, "__getitem__"), [i])
            exp = w.mk_node(w.ops.id("BV_EXTRACT"), (x,), (1, i, i))
            return (w, r, exp)
        for p in Explorer(max_paths=20).run(one):
            if p.kind == "return":
                w, r, exp = p.value
                out.append(("index x[%d]" % i, "valid" if r is exp else "invalid",
                            "bit %d" % i if r is exp else "x[%d] builds %s" % (i, sc.node_str(w, r))))
            else:
                out.append(("index x[%d]" % i, "unsupported" if p.kind == "unsupported" else "raises", str(p.value)))
    return out


def named_methods(repo):
    """Capitalised FNode methods (x.And(y), x.BVExtract(1, 2) ...) with their parameter kinds."""
    ci = repo.classes["pysmt.fnode.FNode"]
    out = []
    for nm in ci.order:
        f = ci.own_func(nm)
        if f is None or not nm[0].isupper():
            continue
        kinds = []
        for a in f.args.args[1:]:
            ann = a.annotation
            txt = (ann.value if isinstance(ann, ast.Constant) else (ann.id if isinstance(ann, ast.Name) else "")) if ann is not None else ""
            kinds.append("int" if txt == "int" else "node")
        out.append((nm, kinds))
    return out


def _named_job(job):
    """x.NAME(args) builds the node FormulaManager.NAME(x, args) builds: both interpreted, compared by identity.
    Operand sorts: the first family (Bool, Int, BV4, Array) the manager's constructor accepts."""
    nm, kinds = job
    World = __import__("sa.world", fromlist=["World"]).World
    fams = [("BOOL",), ("INT",), ("BV", 4), ("ARRAY", ("INT",), ("INT",))]
    for fam in fams:
        def one(ex, fam=fam):
            it = Interp(ex)
            w = proc.setup_env(World().attach(it))
            w.env.attrs["enable_infix_notation"] = True
            elem = ("INT",) if fam[0] == "ARRAY" else fam
            x = w.symbol("x", fam)
            args, ints = [], [1, 2, 1]
            for i, k in enumerate(kinds):
                if k == "int":
                    args.append(ints[i] if i < len(ints) else 1)
                elif nm == "Ite" or fam[0] != "ARRAY":
                    args.append(w.symbol("y%d" % i, ("INT",) if nm == "Ite" else fam))
                else:
                    args.append(w.symbol("y%d" % i, elem))
            if nm == "Ite":
                x = w.symbol("c", ("BOOL",))
            try:
                exp = w.app(nm, x, *args)
            except AbsRaise:
                return ("skip", None, None, None)
            r = it.call(it.getattr(x, nm), args)
            return ("done", w, r, exp)
        try:
            paths = Explorer(max_paths=20).run(one)
        except Unsupported as e:
            return [("method %s" % nm, "unsupported", str(e))]
        res = []
        skip = False
        for p in paths:
            if p.kind == "unsupported":
                res.append(("method %s" % nm, "unsupported", str(p.value)))
            elif p.kind == "raise":
                res.append(("method %s" % nm, "raises", "%s on %s operands" % (p.value.cls_name, fam[0])))
            else:
                st, w, r, exp = p.value
                if st == "skip":
                    skip = True
                    continue
                if r is exp or (w.is_node(r) and w.is_node(exp) and w.node_eq(r, exp)):
                    res.append(("method %s" % nm, "valid", "= FormulaManager.%s(self, ...) on %s operands" % (nm, fam[0])))
                else:
                    res.append(("method %s" % nm, "invalid", "x.%s(..) builds %s, FormulaManager.%s(x, ..) builds %s"
                                % (nm, sc.node_str(w, r) if w.is_node(r) else r, nm, sc.node_str(w, exp))))
        if res and not skip:
            return res
    return [("method %s" % nm, "unsupported", "no operand family accepted by FormulaManager.%s" % nm)]


def run(ctx):
    if not ctx.want("R2"):
        return
    rs = ctx.rule("R2", "derived constructors / infix forms denote the function their name states (expansion vs reference)")
    outs = parallel_map(_job, list(range(len(CASES))))
    outs.append(_sbv_job(None))
    outs.append(_slice_job(None))
    nmeth = named_methods(get_repo())
    outs += parallel_map(_named_job, nmeth)
    ctx.analysed["named_methods"] = [n for n, _ in nmeth]
    ctx.analysed["derived_forms"] = len(CASES) + 2 + len(nmeth)
    for res in outs:
        for name, kind, detail in res:
            if kind == "valid":
                rs.ok({"form": name, "checked": detail})
            elif kind == "invalid":
                ctx.finding(rs, "%s|wrong-expansion" % name, "%s: %s" % (name, detail), "pysmt/formula.py")
            elif kind == "raises":
                ctx.finding(rs, "%s|raises" % name, "%s raises on well-typed operands: %s" % (name, detail), "pysmt/formula.py")
            else:
                rs.unrec("%s: %s" % (name, detail[:120]))
    ctx.floor(rs, 120)
