"""C11 deep rules: the CNF converters and the Ackermannizer interpreted on operator skeletons over
opaque leaves; the clause set / result is decided model-by-model by enumeration of the leaves, the
freshly introduced symbols and (for Ackermannization) the function tables over tiny domains."""
import itertools

from ..common import get_repo, parallel_map
from .. import proc, refsem
from ..proc import Shape, S, BOOL, INT
from .. import simpcheck as sc

BV1 = ("BV", 1)


def _lits_ok(w, cnf):
    for cl in cnf:
        for lit in cl:
            if not w.is_node(lit):
                return "clause element %r is not a formula" % (lit,)
            n = lit
            if w.opname(n) == "NOT":
                n = w.nargs(n)[0]
            if not proc._is_atom(w, n):
                return "clause element %s is not a literal" % sc.node_str(w, lit)
    return None


def _cnf_post(shape):
    def post(w, f, cnf, facts):
        try:
            clauses = [list(cl) for cl in cnf]
        except TypeError:
            return proc.ProcResult(shape, "unsupported", "convert returned %r" % (cnf,))
        why = _lits_ok(w, clauses)
        if why:
            return proc.ProcResult(shape, "shape", why)
        nodes = [f] + [l for cl in clauses for l in cl]
        syms = sc.collect_symbols(w, nodes)
        orig = sc.collect_symbols(w, [f])
        fresh = sorted(set(syms) - set(orig))
        if len(fresh) > 12:
            return proc.ProcResult(shape, "unsupported", "%d fresh symbols" % len(fresh))
        n = 0
        for asg in sc.assignments(w, [f], facts):
            n += 1
            fv = bool(sc.nodeval(w, f, asg))
            sat_some = False
            for combo in itertools.product([False, True], repeat=len(fresh)):
                a2 = dict(asg)
                a2.update(("sym:" + k, v) for k, v in zip(fresh, combo))
                cv = all(any(bool(sc.nodeval(w, l, a2)) for l in cl) for cl in clauses)
                if cv and not fv:
                    return proc.ProcResult(shape, "invalid",
                                           "the clause set is satisfied by %s extended with %s, but the input is false there"
                                           % (sc._show(asg), dict(zip(fresh, combo))), _cnf_str(w, clauses))
                sat_some = sat_some or cv
            if fv and not sat_some:
                return proc.ProcResult(shape, "invalid",
                                       "the input is true under %s but no value of the introduced symbols %s satisfies the clause set"
                                       % (sc._show(asg), fresh), _cnf_str(w, clauses))
        return proc.ProcResult(shape, "valid", "%d valuations x 2^%d definitions" % (n, len(fresh)), _cnf_str(w, clauses))
    return post


def _cnf_str(w, clauses):
    return "{" + ", ".join("{" + ", ".join(sorted(sc.node_str(w, l) for l in cl)) + "}" for cl in clauses)[:300] + "}"


def _cnf_job(job):
    cls, shape = job

    def call(w, it, f):
        wk = w.new_walker(cls, w.env)
        return it.call(it.getattr(wk, "convert"), [f])
    res = proc.run_proc(shape, call, post=_cnf_post(shape), services="full", world_cls=proc.TypedWorld)
    return [(cls.split(".")[-1], repr(shape), r.kind, str(r.detail), r.result) for r in res]


def _has_fun(w, n):
    stack = [n]
    while stack:
        x = stack.pop()
        if w.opname(x) == "FUNCTION":
            return x
        stack.extend(w.nargs(x))
    return None


def _ack_job(job):
    shape, earlier = job[:2] if isinstance(job, tuple) else (job, None)
    chained = isinstance(job, tuple) and len(job) > 2

    def call(w, it, f):
        wk = w.new_walker("pysmt.rewritings.Ackermannizer", w.env)
        if chained:
            # incremental use: the input of a second Ackermannizer object contains the result of an earlier one
            r1 = it.call(it.getattr(wk, "do_ackermannization"), [proc.build_shape(w, earlier.t)])
            f2 = w.app("And", r1, f)
            wk2 = w.new_walker("pysmt.rewritings.Ackermannizer", w.env)
            return ("chained", f2, it.call(it.getattr(wk2, "do_ackermannization"), [f2]))
        if earlier is not None:
            # the same instance has served another formula (sharing applications with this one) before
            it.call(it.getattr(wk, "do_ackermannization"), [proc.build_shape(w, earlier.t)])
        return it.call(it.getattr(wk, "do_ackermannization"), [f])

    def post(w, f, r, facts):
        if isinstance(r, tuple) and len(r) == 3 and r[0] == "chained":
            f, r = r[1], r[2]
        if not w.is_node(r):
            return None
        leak = _has_fun(w, r)
        rs = sc.node_str(w, r)
        if leak is not None:
            return proc.ProcResult(shape, "shape", "the application %s survives Ackermannization" % sc.node_str(w, leak), rs)
        orig = sc.collect_symbols(w, [f])
        allr = sc.collect_symbols(w, [r])
        fresh = sorted(set(allr) - set(orig))
        funs = sorted(k for k, s in orig.items() if s[0] == "FUN")
        # (1) every model of the input extends to the fresh constants
        n = 0
        for asg in sc.assignments(w, [f], facts):
            n += 1
            if not sc.nodeval(w, f, asg):
                continue
            doms = [refsem.domain(allr[k]) for k in fresh]
            if not any(sc.nodeval(w, r, dict(asg, **dict(("sym:" + k, v) for k, v in zip(fresh, combo))))
                       for combo in itertools.product(*doms)):
                return proc.ProcResult(shape, "invalid", "a model of the input (%s) cannot be extended to the "
                                       "Ackermann constants" % sc._show_asg(asg) if hasattr(sc, "_show_asg") else str(asg), rs)
        # (2) every model of the result comes from some interpretation of the functions
        models_in = set()
        plain = sorted(k for k in orig if k not in funs)
        for asg in sc.assignments(w, [f], facts):
            if sc.nodeval(w, f, asg):
                models_in.add(tuple(asg["sym:" + k] for k in plain))
        for asg in sc.assignments(w, [r], facts):
            if sc.nodeval(w, r, asg):
                key = tuple(asg.get("sym:" + k) for k in plain)
                if None in key:
                    continue
                if key not in models_in:
                    return proc.ProcResult(shape, "invalid",
                                           "the result is satisfied with %s but no interpretation of %s satisfies the input "
                                           "with these values" % (dict(zip(plain, key)), funs), rs)
        return proc.ProcResult(shape, "valid", "%d interpretations" % n, rs)
    res = proc.run_proc(shape, call, post=post, services="full", world_cls=proc.TypedWorld)
    tag = repr(shape) if earlier is None else "%s on an instance that served %s before" % (repr(shape), repr(earlier))
    if chained:
        tag = "(result for %s) & %s on a second instance" % (repr(earlier), repr(shape))
    return [("Ackermannizer", tag, r.kind, str(r.detail), r.result) for r in res]


def ack_shapes():
    x, y = S("x", BV1), S("y", BV1)

    def f(t):
        return ("fun", "f", BV1, (BV1,), t)

    def g(t):
        return ("fun", "g", BV1, (BV1,), t)

    def pb(t):
        return ("fun", "p", BOOL, (BV1,), t)
    sh = [("Equals", f(x), f(y)), ("Not", ("Equals", f(x), f(y))),
          ("And", ("Equals", x, y), ("Not", ("Equals", f(x), f(y)))),
          ("Not", ("Equals", f(g(x)), f(g(y)))),
          ("And", ("Equals", x, y), ("Not", ("Equals", f(g(x)), f(g(y))))),
          ("And", ("Equals", x, y), ("Not", ("Equals", f(("BVNot", g(x))), f(("BVNot", g(y)))))),
          ("Iff", pb(x), ("Not", pb(y))), ("And", ("Equals", x, y), pb(x), ("Not", pb(y))),
          ("Equals", f(f(x)), x), ("And", ("Equals", f(x), y), ("Equals", f(y), x), ("Not", ("Equals", f(f(x)), x))),
          ("Equals", x, y)]
    # a binary function applied to constants: same constant / different constants in one position
    def f2(s_, t_):
        return ("fun", "f2", BV1, (BV1, BV1), s_, t_)
    k0, k1 = ("lit", 0, BV1), ("lit", 1, BV1)
    sh += [("And", ("Equals", x, y), ("Not", ("Equals", f2(k0, x), f2(k0, y)))),
           ("And", ("Equals", x, y), ("Not", ("Equals", f2(x, k1), f2(y, k1)))),
           ("Not", ("Equals", f2(k0, x), f2(k1, x))), ("And", ("Equals", x, k0), ("Not", ("Equals", f2(k0, x), f2(x, k0)))),
           ("Not", ("Equals", f(k0), f(k0))), ("And", ("Equals", x, k1), ("Not", ("Equals", f(x), f(k1))))]
    # applications stored in an array value (entry and default), next to the same application outside it
    av = ("Array", ("type", BV1), k0, ("dict", (k1, f(x))))
    sh += [("Not", ("Equals", ("Select", av, k1), f(x))), ("And", ("Equals", x, y), ("Not", ("Equals", ("Select", av, k1), f(y)))),
           ("Not", ("Equals", ("Select", ("Array", ("type", BV1), f(x)), y), f(x)))]
    return [Shape(t) for t in sh]


def ack_named_shapes():
    """input symbols spelled like the constants Ackermannization introduces (same sort, another sort); each is decided
    in an environment of its own (the same name carries different sorts in different shapes)"""
    x, y = S("x", BV1), S("y", BV1)

    def f(t):
        return ("fun", "f", BV1, (BV1,), t)

    def pb(t):
        return ("fun", "p", BOOL, (BV1,), t)
    sh = [("And", S("ack0"), ("Not", pb(x))), ("And", ("Iff", S("ack0"), pb(x)), ("Iff", S("ack1"), ("Not", pb(y))), S("ack0"), S("ack1")),
           ("And", ("Equals", S("ack0", BV1), x), ("Not", ("Equals", f(x), S("ack1", BV1)))),
           ("And", ("LT", S("ack0", INT), S("ack1", INT)), ("Not", ("Equals", f(x), f(y)))),
           ("And", S("FV0"), S("ack_0"), ("Not", pb(x)))]
    return [Shape(t) for t in sh]


def chained_pairs():
    x, y = S("x", BV1), S("y", BV1)

    def f(t):
        return ("fun", "f", BV1, (BV1,), t)

    def g2(s_, t_):
        return ("fun", "g2", BV1, (BV1, BV1), s_, t_)

    def pb(t):
        return ("fun", "p", BOOL, (BV1,), t)
    pairs = [(("And", ("Not", pb(x)), pb(y)), ("And", ("Equals", g2(x, y), x), ("Not", ("Equals", g2(y, x), x)))),
             (("Not", ("Equals", f(x), f(y))), ("And", pb(x), ("Not", pb(y)))),
             (("Not", ("Equals", f(x), f(y))), ("Not", ("Equals", g2(x, y), g2(y, x)))),
             (("And", pb(x), ("Not", pb(y))), ("And", pb(x), ("Not", pb(y))))]
    return [(Shape(b), Shape(a), "chained") for a, b in pairs]


def run(ctx):
    if not ctx.want("R1"):
        return
    rs = ctx.rule("R1", "CNF converters: the clause set is equisatisfiable with the input model-by-model (per skeleton)")
    shapes = proc.boolean_shapes()
    if ctx.tier == "thorough":
        shapes = [s_ for s_ in proc.in_contexts(shapes, limit=60) if "forall" not in repr(s_.t) and "exists" not in repr(s_.t)]
    a, b, c = S("a"), S("b"), S("c")
    shared = ("Or", a, b)
    shapes += [Shape(("And", shared, ("Iff", shared, c))), Shape(("Or", ("And", a, b), ("And", ("Not", a), c))),
               Shape(("Implies", ("Iff", a, b), ("Iff", b, a))), Shape(("Not", ("Not", a))), Shape(a),
               Shape(("lit", True, BOOL)), Shape(("lit", False, BOOL)), Shape(("And", a, ("Not", a)))]
    # sub-formulas that differ only deep down (below the depth at which the short printed form is cut off)
    d = S("d")

    def nest(t, n):
        for _ in range(n):
            t = ("Or", c, ("And", d, t))
        return t
    shapes += [Shape(("And", nest(a, 3), ("Not", nest(b, 3)))), Shape(("And", ("Not", nest(a, 3)), nest(b, 3)))]
    # both orientations of a non-commutative connective over the same operands
    shapes += [Shape(("Or", ("Implies", a, b), ("Implies", b, a))), Shape(("And", ("Implies", a, b), ("Not", ("Implies", b, a)))),
               Shape(("And", ("Ite", c, a, b), ("Not", ("Ite", c, b, a)))), Shape(("Iff", ("Ite", a, b, c), ("Ite", b, a, c))),
               Shape(("And", ("Or", ("Implies", a, b), c), ("Or", ("Implies", b, a), ("Not", c)))),
               Shape(("Or", ("And", a, b), ("And", b, a), ("Iff", a, b), ("Iff", b, a)))]
    # theory atoms where their complement is needed (the converters build it as Not(atom).simplify()): atoms with structure
    # the simplifier has rules for - differences compared with 0, equalities over an ite with constant branches, ...
    from ..proc import INT
    x_, y_ = S("x", INT), S("y", INT)
    zero_, one_, five_ = ("lit", 0, INT), ("lit", 1, INT), ("lit", 5, INT)
    B2_ = ("BV", 2)
    u_, v_ = S("u", B2_), S("v", B2_)
    atoms = [("LE", ("Minus", x_, y_), zero_), ("LE", zero_, ("Minus", x_, y_)), ("LT", ("Minus", x_, y_), zero_), ("LT", x_, y_),
             ("Equals", ("Ite", ("And", b, c), one_, zero_), one_), ("Equals", zero_, ("Ite", ("Or", b, c), five_, zero_)),
             ("Equals", ("Ite", b, one_, zero_), zero_), ("Equals", ("Ite", ("And", b, c), x_, y_), x_), ("Equals", x_, y_),
             ("BVULT", u_, v_), ("BVSLE", u_, ("lit", 2, B2_)), ("Equals", ("BVSub", u_, v_), ("lit", 0, B2_)), ("LE", x_, x_),
             ("Equals", ("Plus", x_, zero_), y_)]
    # Boolean atoms that are not relations: reads from arrays of Booleans (array symbol, store chain, array value with a formula inside)
    ab_ = S("ab", ("ARRAY", INT, ("BOOL",)))
    atoms += [("Select", ab_, x_), ("Select", ("Store", ab_, y_, b), x_), ("Select", ("Array", ("type", INT), ("And", b, c)), one_)]
    for at in atoms:
        shapes += [Shape(("Implies", at, a)), Shape(("Not", at)), Shape(("Iff", a, at)), Shape(("Ite", at, a, ("Not", a))),
                   Shape(("Or", ("Not", at), ("And", a, at)))]
    jobs = []
    for sh in shapes:
        jobs.append(("pysmt.rewritings.CNFizer", sh))
        jobs.append(("pysmt.rewritings.PolarityCNFizer", sh))
    outs = parallel_map(_cnf_job, jobs)
    rs3 = ctx.rule("R3d", "Ackermannization: no application left; models correspond (functions over 1-bit domains)")
    ash = ack_shapes()
    outs_a = parallel_map(_ack_job, [(sh, None) for sh in ash] + [(sh, ash[(i + 1) % len(ash)]) for i, sh in enumerate(ash)] +
                          [(sh, ash[0]) for sh in ash[1:6]] + chained_pairs() + [(sh, None) for sh in ack_named_shapes()])
    for which, outs_, rule in ((None, outs, rs), (None, outs_a, rs3)):
        for res in outs_:
            for name, shape, kind, detail, result in res:
                key = "%s|%s" % (name, shape)
                if kind == "valid":
                    rule.ok({"procedure": name, "shape": shape, "result": (result or "")[:160], "checked": detail})
                elif kind == "vacuous":
                    continue
                elif kind in ("invalid", "shape", "sort"):
                    ctx.finding(rule, key + "|" + kind, "%s(%s): %s [result %s]" % (name, shape, detail, (result or "")[:200]),
                                "pysmt/rewritings.py")
                elif kind == "raises":
                    if "NotImplementedError" in detail:
                        rule.unrec("%s(%s) raises %s" % (name, shape, detail))
                    else:
                        ctx.finding(rule, key + "|raises", "%s(%s) raises %s" % (name, shape, detail), "pysmt/rewritings.py")
                else:
                    rule.unrec("%s(%s): %s" % (name, shape, detail[:120]))
    ctx.floor(rs, 200)
    ctx.floor(rs3, 7)
