"""C04 -- hash-consing, faithful accessors, faithful copies."""
import ast

from ..common import (get_repo, get_ops, get_tables, short, norm, CFG, normal_only, attr_stores,
                      method_loc, calls_in, attr_tail, is_self_attr, dispatch_rule, names_in)
from .c03 import fnode_alloc_rule, construction_region, FM, FNODE

EXPLANATION = (
    "The real formula manager is interpreted from source - FormulaManager.__init__, create_node with whatever helpers "
    "it is split into, the hash-consing table and id counter, FNode, FNodeContent and the construction-time type "
    "check; nothing of it is modelled.  On it, ~60 pairwise structurally different applications (every operator "
    "family, payload-only differences such as extraction bounds, extension steps, bit-widths, constant values, bound "
    "variable lists, argument order) are requested twice, the second time in reverse order and between unrelated "
    "constructions: the two requests give the very same object, different structures give different objects with "
    "different ids that do not compare equal, hashes are stable, and the table holds one entry per object (R2).  "
    "FNode defines no __eq__ / __ne__ anywhere in its hierarchy (R3).  FNode is allocated, and the table and the "
    "id counter are written, only inside the construction region of create_node: create_node plus the private "
    "helpers that the package-wide call graph shows to be reachable only through it (R1, who-may-write).  "
    "Constructor / accessor agreement: a node built by the real constructor from symbolic parameters gives the "
    "parameter back through the real accessor; predicates with optional arguments mean what they document (R4).  "
    "A value that compares equal to a cached constant key but has another Python type (True / 1, Fraction(1) / 1, "
    "1+0j / 1) is treated as on a fresh manager (R7).  No class-level mutable container of a per-environment "
    "class is mutated through self (R8).  Rebuilding a formula from its structure - through the constructors, "
    "through IdentityDagWalker, through normalize into its own manager, through the documented spellings of "
    "constants - returns the very same object (R9).  Three real environments in one interpretation: formulas built in "
    "two source environments by the same number of constructions (so that corresponding nodes carry the same ids "
    "although they differ) are copied by FormulaManager.normalize into a third; each copy is structurally "
    "identical to its source, consists of nodes registered in the target manager only, and copying the first "
    "formula again returns the first copy (R6).")
NOT_DECIDED = ["structures outside the menus (the rule decides the menu: one representative per way two structures can differ)",
               "absence of collisions between distinct Python payloads that compare equal beyond the impostor values of R7"]


def run(ctx):
    repo = get_repo()
    ctx.analysed["modules"] = ["pysmt/formula.py", "pysmt/fnode.py", "pysmt/walkers/identitydag.py",
                               "whole package for who-may-write"]
    if ctx.want("R1"):
        rs = ctx.rule("R1", "one allocation region, one table writer")
        fnode_alloc_rule(ctx, rs)
        region = construction_region(repo)
        owners = {
            "formulae": region | {(FM, "__init__")},
            "_next_free_id": region | {(FM, "__init__")},
            "_content": {(FNODE, "__init__")},
            "_node_id": {(FNODE, "__init__")},
        }
        for attr, ok in sorted(owners.items()):
            sites = attr_stores(repo, attr)
            if not sites:
                ctx.error("R1", "anchor vanished: no store to .%s anywhere" % attr)
            for m, enc, st, kind in sites:
                if enc in ok:
                    rs.ok({"store": short(st), "in": "%s.%s" % enc})
                else:
                    ctx.finding(rs, "%s.%s|store:%s" % (enc[0] or m.name, enc[1], attr),
                                "%s is written outside its owner (%s): the hash-consing invariant "
                                "is no longer local to create_node" % (attr, short(st)),
                                repo.loc(m, st))
        ctx.floor(rs, 6)

    if ctx.want("R2"):
        rs = ctx.rule("R2", "real manager: one object per structure, whatever the order of construction; distinct structures, distinct objects and ids")
        from . import mgr_deep
        mgr_deep.report(ctx, rs, mgr_deep.identity_results(), "pysmt/formula.py", 55)

    if ctx.want("R3"):
        rs = ctx.rule("R3", "formula objects compare by identity")
        ci = repo.cls(FNODE)
        for bad in ("__eq__", "__ne__"):
            q, f = repo.find_method(FNODE, bad)
            if q is not None:
                ctx.finding(rs, "%s|defines-%s" % (FNODE, bad),
                            "FNode defines %s: equality no longer coincides with identity" % bad,
                            repo.loc(ci.module, f or ci.node))
            else:
                rs.ok({"FNode": "no %s in its class hierarchy" % bad})
        ctx.floor(rs, 2)

    if ctx.want("R6"):
        rs = ctx.rule("R6", "real managers: a formula copied into another environment is structurally identical, shares no object with its source, and copies from two sources whose node ids coincide do not mix")
        from . import mgr_deep
        mgr_deep.report(ctx, rs, mgr_deep.copy_results(), "pysmt/formula.py", 6)

    if ctx.want("R7"):
        rs = ctx.rule("R7", "real manager: a value that equals a cached constant key but has another Python type is treated as on a fresh manager")
        from . import mgr_deep
        mgr_deep.report(ctx, rs, mgr_deep.cache_results(), "pysmt/formula.py", 12)

    from . import c04_deep
    c04_deep.run(ctx)
