"""C04 -- hash-consing, faithful accessors, faithful copies."""
import ast

from ..common import (get_repo, get_ops, get_tables, short, norm, CFG, normal_only, attr_stores,
                      method_loc, calls_in, attr_tail, is_self_attr, dispatch_rule, names_in)
from .c03 import fnode_alloc_rule, FM, FNODE

EXPLANATION = (
    "Static analysis of formula.py/fnode.py: one allocation site for FNode and one writer of the "
    "hash-consing table and id counter (R1, who-may-write over the whole package); lookup-before-"
    "insert on the full (operator, children, payload) key with exactly one id advance per allocation "
    "(R2, CFG); identity equality and id hash (R3); payload layout agreement between constructors "
    "and accessors (R4); canonical constant-array ordering (R5); cross-environment copy rebuilds "
    "everything through the target manager (R6); value-keyed constant caches validate before "
    "lookup (R7).")
NOT_DECIDED = [
    "absence of collisions between distinct Python payloads that compare equal (needs values)",
]


def run(ctx):
    repo = get_repo()
    ctx.analysed["modules"] = ["pysmt/formula.py", "pysmt/fnode.py", "pysmt/walkers/identitydag.py",
                               "whole package for who-may-write"]
    if ctx.want("R1"):
        rs = ctx.rule("R1", "one allocation site, one table writer")
        fnode_alloc_rule(ctx, rs)
        allowed = {
            "formulae": {(FM, "__init__"), (FM, "create_node")},
            "_next_free_id": {(FM, "__init__"), (FM, "create_node")},
            "_content": {(FNODE, "__init__")},
            "_node_id": {(FNODE, "__init__")},
        }
        for attr, ok in sorted(allowed.items()):
            sites = attr_stores(repo, attr)
            if not sites:
                ctx.error("R1", "anchor vanished: no store to .%s anywhere" % attr)
            for m, enc, st, kind in sites:
                if enc in ok:
                    rs.ok({"store": short(st), "in": "%s.%s" % enc})
                else:
                    ctx.finding(rs, "%s.%s|store:%s" % (enc[0] or m.name, enc[1], attr),
                                "%s is written outside its owner (%s): the hash-consing invariant "
                                "is no longer local to create_node" % (attr, short(st)),
                                repo.loc(m, st))
        ctx.floor(rs, 6)

    if ctx.want("R2"):
        rs = ctx.rule("R2", "lookup-before-insert on the full key; one id per allocation")
        cls, fn = repo.method(FM, "create_node")
        params = [a.arg for a in fn.args.args[1:]]
        key_var = None
        key_call = None
        for n in ast.walk(fn):
            if isinstance(n, ast.Assign) and isinstance(n.value, ast.Call) and attr_tail(n.value) == "FNodeContent":
                key_var = n.targets[0].id if isinstance(n.targets[0], ast.Name) else None
                key_call = n.value
        if key_var is None:
            rs.unrec("create_node builds its key in an unrecognised way")
        else:
            used = [a.id for a in key_call.args if isinstance(a, ast.Name)] + \
                   [k.value.id for k in key_call.keywords if isinstance(k.value, ast.Name)]
            if used[:3] == params[:3] and len(used) == 3:
                rs.ok({"key": norm(key_call), "components": used})
            else:
                ctx.finding(rs, "%s.create_node|key-components" % FM,
                            "hash-consing key %s is not the triple (%s): structurally different "
                            "nodes may be merged or equal ones duplicated" % (norm(key_call), ", ".join(params[:3])),
                            method_loc(repo, cls, key_call))
            # membership test, hit returns stored object, miss stores under the same key
            cfg = CFG(fn)
            tests = [n for n in cfg.nodes if n.kind == "test" and isinstance(n.ast, ast.Compare)
                     and len(n.ast.ops) == 1 and isinstance(n.ast.ops[0], (ast.In, ast.NotIn))
                     and isinstance(n.ast.left, ast.Name) and n.ast.left.id == key_var
                     and is_self_attr(n.ast.comparators[0], "formulae")]
            if len(tests) != 1:
                rs.unrec("membership test on self.formulae not found in recognised form")
            else:
                t = tests[0]
                hit_lab = "T" if isinstance(t.ast.ops[0], ast.In) else "F"
                miss_lab = "F" if hit_lab == "T" else "T"
                hit = [y for (y, l) in cfg.succ[t.id] if l == hit_lab]
                miss = [y for (y, l) in cfg.succ[t.id] if l == miss_lab]
                is_alloc = lambda n: n.ast is not None and any(attr_tail(c) == "FNode" for c in calls_in(n.ast))
                is_store = lambda n: (n.kind == "stmt" and isinstance(n.ast, ast.Assign) and
                                      isinstance(n.ast.targets[0], ast.Subscript) and
                                      is_self_attr(n.ast.targets[0].value, "formulae"))
                is_inc = lambda n: (n.kind == "stmt" and isinstance(n.ast, (ast.AugAssign, ast.Assign)) and
                                    "_next_free_id" in norm(n.ast.target if isinstance(n.ast, ast.AugAssign) else n.ast.targets[0]))
                # hit path: no allocation, returns the stored object
                hit_reach = set()
                for y in hit:
                    hit_reach |= cfg.reachable(y, follow=normal_only)
                if any(is_alloc(cfg.nodes[i]) or is_store(cfg.nodes[i]) for i in hit_reach):
                    ctx.finding(rs, "%s.create_node|hit-allocates" % FM,
                                "the hit path of create_node allocates or stores a node: two objects "
                                "for one structure", method_loc(repo, cls, t.ast))
                else:
                    rets = [cfg.nodes[i] for i in hit_reach if isinstance(cfg.nodes[i].ast, ast.Return)]
                    good = False
                    for r in rets:
                        v = r.ast.value
                        src = None
                        if isinstance(v, ast.Name):
                            for i in hit_reach:
                                a = cfg.nodes[i].ast
                                if isinstance(a, ast.Assign) and isinstance(a.targets[0], ast.Name) and a.targets[0].id == v.id:
                                    src = a.value
                        else:
                            src = v
                        if src is not None and norm(src) == "self.formulae[%s]" % key_var:
                            good = True
                    if good:
                        rs.ok({"hit": "returns self.formulae[%s]" % key_var})
                    else:
                        ctx.finding(rs, "%s.create_node|hit-returns-other" % FM,
                                    "the hit path does not return the stored object self.formulae[%s]" % key_var,
                                    method_loc(repo, cls, t.ast))
                # miss path: every return passes alloc, store under same key, exactly one increment
                for y in miss:
                    for must, what in ((is_alloc, "allocation"), (is_store, "store"), (is_inc, "id advance")):
                        if not cfg.must_pass(y, cfg.ret.id, must, follow=normal_only) and not must(cfg.nodes[y]):
                            ctx.finding(rs, "%s.create_node|miss-skips-%s" % (FM, what.replace(" ", "-")),
                                        "a miss path of create_node returns without %s" % what,
                                        method_loc(repo, cls, t.ast))
                        else:
                            rs.ok({"miss": "passes " + what})
                    mreach = cfg.reachable(y, follow=normal_only)
                    stores = [cfg.nodes[i] for i in mreach if is_store(cfg.nodes[i])]
                    for s in stores:
                        k = s.ast.targets[0].slice
                        if isinstance(k, ast.Name) and k.id == key_var:
                            rs.ok({"store_key": key_var})
                        else:
                            ctx.finding(rs, "%s.create_node|store-key" % FM,
                                        "node stored under %s but looked up under %s" % (norm(k), key_var),
                                        method_loc(repo, cls, s.ast))
                    incs = [cfg.nodes[i] for i in mreach if is_inc(cfg.nodes[i])]
                    if len(incs) == 1 and isinstance(incs[0].ast, ast.AugAssign) and \
                            isinstance(incs[0].ast.op, ast.Add) and norm(incs[0].ast.value) == "1":
                        rs.ok({"id_advance": norm(incs[0].ast)})
                    elif incs:
                        rs.unrec("id advance in unrecognised form: %s" % [norm(i.ast) for i in incs])
                    # the id given to the node is the counter
                    for i in mreach:
                        a = cfg.nodes[i].ast
                        if a is not None and is_alloc(cfg.nodes[i]):
                            for c in calls_in(a):
                                if attr_tail(c) == "FNode":
                                    ids = [norm(x) for x in c.args[1:]] + [norm(k.value) for k in c.keywords if k.arg == "node_id"]
                                    if ids == ["self._next_free_id"]:
                                        rs.ok({"node_id": ids[0]})
                                    else:
                                        ctx.finding(rs, "%s.create_node|node-id" % FM,
                                                    "node id is %s, not the free-id counter: ids (the hash) may collide"
                                                    % ids, method_loc(repo, cls, c))
        ctx.floor(rs, 6)

    if ctx.want("R3"):
        rs = ctx.rule("R3", "identity equality, id hash, three-component content")
        ci = repo.cls(FNODE)
        for bad in ("__eq__", "__ne__"):
            q, f = repo.find_method(FNODE, bad)
            if q is not None:
                ctx.finding(rs, "%s|defines-%s" % (FNODE, bad),
                            "FNode defines %s: equality no longer coincides with identity" % bad,
                            repo.loc(ci.module, f or ci.node))
            else:
                rs.ok({"FNode": "no %s" % bad})
        q, h = repo.find_method(FNODE, "__hash__")
        if h is None:
            ctx.finding(rs, "%s|no-hash" % FNODE, "FNode has no __hash__", repo.loc(ci.module, ci.node))
        else:
            rets = [n for n in ast.walk(h) if isinstance(n, ast.Return)]
            if len(rets) == 1 and norm(rets[0].value) == "self._node_id":
                rs.ok({"__hash__": "self._node_id"})
            else:
                ctx.finding(rs, "%s.__hash__|not-id" % FNODE,
                            "__hash__ returns %s instead of the node id" % [norm(r.value) for r in rets],
                            repo.loc(ci.module, h))
        b = ci.module.ns.get("FNodeContent")
        good = False
        if b and b[0] == "assign":
            v = b[1].value
            if isinstance(v, ast.Call) and attr_tail(v) == "namedtuple" and len(v.args) == 2:
                try:
                    fields = ast.literal_eval(v.args[1])
                    if isinstance(fields, str):
                        fields = fields.replace(",", " ").split()
                    good = list(fields) == ["node_type", "args", "payload"]
                except Exception:
                    good = False
        if good:
            rs.ok({"FNodeContent": ["node_type", "args", "payload"]})
        else:
            ctx.finding(rs, "%s|content-fields" % FNODE,
                        "FNodeContent is not namedtuple(node_type, args, payload)", repo.loc(ci.module, ci.node))
        ctx.floor(rs, 4)

    if ctx.want("R7"):
        cache_rule(ctx, ctx.rule("R7", "value-keyed constant caches validate the value before lookup"), "C04")

    from . import c04_deep
    c04_deep.run(ctx)


VALIDATORS = {"is_pysmt_integer", "is_python_integer", "is_pysmt_fraction", "is_python_rational",
              "is_python_string", "isinstance", "type"}


def cache_rule(ctx, rs, prop):
    """In Int/Real/String (any FormulaManager method that reads a *_constants dict with a parameter
    as key): the return of a cached node must be dominated by a validation of that parameter."""
    repo = get_repo()
    ci = repo.cls(FM)
    n_sites = 0
    for name in ci.order:
        f = ci.own_func(name)
        if f is None:
            continue
        params = [a.arg for a in f.args.args[1:]]
        cfg = None
        for n in ast.walk(f):
            if isinstance(n, ast.Return) and isinstance(n.value, ast.Subscript) and \
                    isinstance(n.value.value, ast.Attribute) and n.value.value.attr.endswith("_constants") and \
                    isinstance(n.value.slice, ast.Name) and n.value.slice.id in params:
                n_sites += 1
                p = n.value.slice.id
                cfg = cfg or CFG(f)
                node = [x for x in cfg.nodes if x.ast is n][0]

                def validates(x, p=p):
                    if x.kind != "test":
                        return False
                    for c in calls_in(x.ast):
                        if attr_tail(c) in VALIDATORS and any(isinstance(a, ast.Name) and a.id == p for a in c.args):
                            return True
                    return False
                # validators used anywhere in the constructor: a cache keyed by `str` only is
                # type-exact (no builtin of another type compares equal to a str), so the order of
                # lookup and validation cannot change the answer there.
                used = set(attr_tail(c) for x in cfg.nodes if x.kind == "test" for c in calls_in(x.ast)
                           if attr_tail(c) in VALIDATORS and
                           any(isinstance(a, ast.Name) and a.id == p for a in c.args))
                if cfg.dominated_by(node.id, validates, follow=normal_only):
                    rs.ok({"constructor": name, "cache": norm(n.value.value), "validated_before_lookup": True})
                elif used == {"is_python_string"}:
                    rs.ok({"constructor": name, "cache": norm(n.value.value),
                           "note": "str-keyed cache: equality is type-exact, lookup order is harmless"})
                else:
                    ctx.finding(rs, "%s.%s|cache-before-validation" % (FM, name),
                                "%s(%s) returns a cached node before validating the Python type of '%s': "
                                "a value that merely compares equal to a cached key (1.0 == 1, True == 1) is "
                                "accepted or rejected depending on what was built earlier"
                                % (name, p, p), method_loc(repo, FM, n))
    if n_sites == 0:
        ctx.error(rs.rule, "anchor vanished: no value-keyed constant cache found in FormulaManager")
    ctx.floor(rs, 3)
