"""C14 rule R13: the stack of environments.  Environment.__enter__ / __exit__, push_env, pop_env and get_env are interpreted on a stack
of stand-in environments for every well-nested sequence of with-blocks over two environments (an environment may be entered again while
it is open further down): inside every block, and after leaving it, the current environment is the one the nesting says."""
import itertools

from ..absint import Interp, Explorer, AObj, Domain, AbsRaise, Unsupported, ClassRef
from ..common import get_repo

ENVQ = "pysmt.environment.Environment"


class _StackDomain(Domain):
    def __init__(self, stack):
        self.stack = stack

    def global_override(self, it, module, name):
        if module.name == "pysmt.environment" and name == "ENVIRONMENTS_STACK":
            return True, self.stack
        return False, None


def sequences(max_depth=4, max_len=8):
    """well-nested sequences of enter(A|B) / exit, as tuples of 'A', 'B', ')'"""
    out = []

    def rec(seq, depth):
        if seq:
            out.append(tuple(seq))
        if len(seq) >= max_len:
            return
        for e in "AB":
            if depth < max_depth:
                rec(seq + [e], depth + 1)
        if depth > 0:
            rec(seq + [")"], depth - 1)
    rec([], 0)
    return out


def _run(seq):
    repo = get_repo()
    em = repo.modules["pysmt.environment"]

    def one(ex):
        base = AObj(ENVQ, {}, tag="E0")
        stack = [base]
        it = Interp(ex, domain=_StackDomain(stack), max_steps=200000)
        envs = {"A": AObj(ENVQ, {}, tag="A"), "B": AObj(ENVQ, {}, tag="B")}
        ref = [base]
        for i, x in enumerate(seq):
            if x == ")":
                e = ref.pop()
                it.call(it.getattr(e, "__exit__"), [None, None, None])
            else:
                e = envs[x]
                r = it.call(it.getattr(e, "__enter__"), [])
                ref.append(e)
                if r is not e:
                    return "step %d: `with %s as e` binds %r" % (i, x, r)
            cur = it.call(it.module_global(em, "get_env"), [])
            if cur is not ref[-1]:
                return "after step %d of %s the current environment is %s; the nesting says %s" % (
                    i, " ".join(seq), getattr(cur, "tag", cur), ref[-1].tag)
            if len(stack) != len(ref) or any(a is not b for a, b in zip(stack, ref)):
                return "after step %d of %s the stack of environments is %s; the nesting says %s" % (
                    i, " ".join(seq), [getattr(a, "tag", a) for a in stack], [a.tag for a in ref])
        return None
    try:
        paths = Explorer(max_paths=2).run(one)
    except Unsupported as e:
        return ("unsupported", str(e))
    p = paths[0]
    if len(paths) != 1 or p.kind == "unsupported":
        return ("unsupported", "%s %s" % (p.kind, str(p.value)[:160]))
    if p.kind == "raise":
        return ("bad", "raises %s" % p.value.cls_name)
    return ("bad", p.value) if p.value else ("ok", "")


def run(ctx):
    if not ctx.want("R13"):
        return
    rs = ctx.rule("R13", "stack of environments: inside and after every with-block the current environment is the one the nesting says "
                         "(an environment may be entered again while it is open further down)")
    n = 0
    for seq in sequences():
        kind, detail = _run(seq)
        name = " ".join("with %s:" % x if x != ")" else "(leave)" for x in seq)
        if kind == "ok":
            rs.ok(None)
            n += 1
        elif kind == "bad":
            ctx.finding(rs, "envstack|%s" % "".join(seq), "%s: %s" % (name, detail), "pysmt/environment.py")
        else:
            rs.unrec("%s: %s" % (name, detail))
    rs.notes.append("%d well-nested sequences over two environments, depth <= 4, length <= 8" % n)
    ctx.floor(rs, 100)
