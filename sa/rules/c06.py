"""C06 -- derived constructors and infix operators denote what their names say."""
import ast

from ..common import (get_repo, short, norm, method_loc, calls_in, attr_tail, parents, names_in)

FNODE = "pysmt.fnode.FNode"
FM = "pysmt.formula.FormulaManager"

EXPLANATION = (
    "Abstract interpretation of fnode.py/formula.py/shortcuts.py: 166 derived constructors / infix forms "
    "are expanded by interpreting their source over opaque operands into core-operator terms and "
    "compared, for all operand values over small domains, with the function the name denotes: "
    "comparisons, min/max, cardinality encodings arity 0-4, AllDifferent, Abs, SBV with its range check, "
    "bvsmod, nand/nor/xnor, n-ary folds, repeat, shifts by a Python int, all infix and reflected forms on "
    "Bool / Int / Real / bit-vector operands, slices; every named FNode method x.NAME(..) builds the node "
    "FormulaManager.NAME(x, ..) builds (R2).")
NOT_DECIDED = ["values beyond the bounded domains of R2 (bit-vectors exhaustively up to width 3, Int/Real sampled)"]


def run(ctx):
    repo = get_repo()
    ci = repo.cls(FNODE)
    ctx.analysed["modules"] = ["pysmt/fnode.py", "pysmt/formula.py", "pysmt/shortcuts.py"]

    from . import c06_deep
    c06_deep.run(ctx)
