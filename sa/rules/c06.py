"""C06 -- derived constructors and infix operators denote what their names say."""
import ast

from ..common import (get_repo, short, norm, method_loc, calls_in, attr_tail, parents, names_in)

FNODE = "pysmt.fnode.FNode"
FM = "pysmt.formula.FormulaManager"

EXPLANATION = (
    "Static analysis of fnode.py/formula.py/shortcuts.py: the dispatch table of FNode's infix and "
    "named methods - (non-BV constructor, BV constructor, operand order incl. reflected forms) - "
    "equals the reference table (R1); 160 derived constructors / infix forms are expanded by the "
    "abstract interpreter over opaque operands into core-operator terms and compared, for all operand "
    "values over small domains, with the function the name denotes: comparisons, min/max, cardinality "
    "encodings arity 0-4, AllDifferent, Abs, SBV with its range check, bvsmod, nand/nor/xnor, n-ary "
    "folds, repeat, shifts by a Python int, all infix and reflected forms, slices (R2).")
NOT_DECIDED = ["values beyond the bounded domains of R2 (bit-vectors exhaustively up to width 3, Int/Real sampled)"]

# dunder -> (non-BV manager ctor, BV manager ctor, mode)   mode: 'lr' = (self, right)
INFIX = {
    "__add__": ("Plus", "BVAdd"), "__radd__": ("Plus", "BVAdd"),
    "__sub__": ("Minus", "BVSub"),
    "__mul__": ("Times", "BVMul"), "__rmul__": ("Times", "BVMul"),
    "__div__": ("Div", "BVUDiv"),
    "__gt__": ("GT", "BVUGT"), "__ge__": ("GE", "BVUGE"), "__lt__": ("LT", "BVULT"), "__le__": ("LE", "BVULE"),
    "__and__": ("And", "BVAnd"), "__rand__": ("And", "BVAnd"),
    "__or__": ("Or", "BVOr"), "__ror__": ("Or", "BVOr"),
    "__xor__": ("Xor", "BVXor"), "__rxor__": ("Xor", "BVXor"),
    "__lshift__": (None, "BVLShl"), "__rshift__": (None, "BVLShr"), "__mod__": (None, "BVURem"),
}
# reflected forms of commutative operators may keep (self, other) order
COMMUTATIVE = {"Plus", "BVAdd", "Times", "BVMul", "And", "BVAnd", "Or", "BVOr", "Xor", "BVXor"}

NAMED_VIA_INFIX = ["Implies", "Iff", "Equals", "NotEquals", "And", "Or", "BVAnd", "BVAdd", "BVAShr", "BVComp",
                   "BVConcat", "BVLShl", "BVLShr", "BVMul", "BVNand", "BVNor", "BVOr", "BVSDiv", "BVSGE",
                   "BVSGT", "BVSLE", "BVSLT", "BVSub", "BVSMod", "BVSRem", "BVUDiv", "BVUGE", "BVUGT",
                   "BVULE", "BVULT", "BVURem", "BVXor", "BVXnor"]
NAMED_DIRECT = {"BVExtract": ["start", "stop"], "BVRepeat": ["count"], "BVRol": ["steps"], "BVRor": ["steps"],
                "BVSExt": ["increase"], "BVZExt": ["increase"], "Select": ["index"], "Store": ["index", "value"],
                "Ite": ["then_", "else_"]}


def _mgr_attr(e):
    """`_mgr().X` -> 'X'"""
    if isinstance(e, ast.Attribute) and isinstance(e.value, ast.Call) and attr_tail(e.value) == "_mgr":
        return e.attr
    if isinstance(e, ast.Constant) and e.value is None:
        return None
    return "?" + norm(e)


def run(ctx):
    repo = get_repo()
    ci = repo.cls(FNODE)
    ctx.analysed["modules"] = ["pysmt/fnode.py", "pysmt/formula.py", "pysmt/shortcuts.py"]

    if ctx.want("R1"):
        rs = ctx.rule("R1", "infix / named-method dispatch table of FNode")
        for dn, (nonbv, bv) in sorted(INFIX.items()):
            f = ci.own_func(dn)
            if f is None:
                ctx.finding(rs, "%s.%s|missing" % (FNODE, dn), "infix method %s vanished" % dn, repo.loc(ci.module, ci.node))
                continue
            rets = [n for n in ast.walk(f) if isinstance(n, ast.Return)]
            if len(rets) != 1 or not isinstance(rets[0].value, ast.Call) or attr_tail(rets[0].value) != "_apply_infix":
                rs.unrec("%s: not a single _apply_infix return" % dn)
                continue
            c = rets[0].value
            params = [a.arg for a in f.args.args]
            if norm(c.func.value) != "self" or not c.args or norm(c.args[0]) != params[1]:
                ctx.finding(rs, "%s.%s|operands" % (FNODE, dn),
                            "%s applies the operator to (%s, %s) instead of (self, %s)"
                            % (dn, norm(c.func.value), norm(c.args[0]) if c.args else "?", params[1]),
                            method_loc(repo, FNODE, c))
                continue
            fn_e = c.args[1] if len(c.args) > 1 else None
            bv_e = c.args[2] if len(c.args) > 2 else None
            for k in c.keywords:
                if k.arg == "function":
                    fn_e = k.value
                if k.arg == "bv_function":
                    bv_e = k.value
            got_fn = _mgr_attr(fn_e) if fn_e is not None else None
            got_bv = _mgr_attr(bv_e) if bv_e is not None else got_fn
            if (got_fn, got_bv) == (nonbv, bv):
                rs.ok({"method": dn, "non_bv": nonbv, "bv": bv})
            else:
                ctx.finding(rs, "%s.%s|table" % (FNODE, dn),
                            "%s dispatches to (%s, %s); its Python meaning requires (%s, %s)"
                            % (dn, got_fn, got_bv, nonbv, bv), method_loc(repo, FNODE, c))
        # __truediv__ delegates to __div__
        f = ci.own_func("__truediv__")
        if f is not None and "self.__div__(right)" in norm(f):
            rs.ok({"method": "__truediv__", "delegates": "__div__"})
        else:
            rs.unrec("__truediv__ shape")
        # _apply_infix: BV branch on the type of self, operands in (self, right) order
        f = ci.own_func("_apply_infix")
        if f is None:
            ctx.error("R1", "_apply_infix vanished")
        else:
            rets = [n for n in ast.walk(f) if isinstance(n, ast.Return)]
            par = parents(f)
            okc = 0
            for r in rets:
                q = par.get(r)
                under_bv = isinstance(q, ast.If) and r in q.body and norm(q.test) == "self.get_type().is_bv_type()"
                callee = norm(r.value.func)
                args = [norm(a) for a in r.value.args]
                if args != ["self", "right"]:
                    ctx.finding(rs, "%s._apply_infix|operand-order" % FNODE,
                                "_apply_infix calls %s(%s)" % (callee, ", ".join(args)), method_loc(repo, FNODE, r))
                elif (under_bv and callee == "bv_function") or (not under_bv and callee == "function"):
                    okc += 1
                else:
                    ctx.finding(rs, "%s._apply_infix|branch" % FNODE,
                                "_apply_infix uses %s on the %s branch" % (callee, "bit-vector" if under_bv else "non-bit-vector"),
                                method_loc(repo, FNODE, r))
            if okc == 2:
                rs.ok({"_apply_infix": "bv_function(self, right) iff self is a bit-vector, else function(self, right)"})
        # named methods
        for nm in NAMED_VIA_INFIX:
            f = ci.own_func(nm)
            if f is None:
                ctx.finding(rs, "%s.%s|missing" % (FNODE, nm), "method %s vanished" % nm, repo.loc(ci.module, ci.node))
                continue
            rets = [n for n in ast.walk(f) if isinstance(n, ast.Return)]
            c = rets[0].value if rets else None
            if c is None or not isinstance(c, ast.Call) or attr_tail(c) != "_apply_infix" or len(c.args) < 2:
                rs.unrec("%s: shape" % nm)
                continue
            got = _mgr_attr(c.args[1])
            params = [a.arg for a in f.args.args]
            if got == nm and norm(c.args[0]) == params[1] and norm(c.func.value) == "self" and len(c.args) == 2:
                rs.ok({"method": nm, "constructor": got})
            else:
                ctx.finding(rs, "%s.%s|table" % (FNODE, nm),
                            "method %s builds %s(%s, %s)" % (nm, got, norm(c.func.value), norm(c.args[0])),
                            method_loc(repo, FNODE, c))
        for nm, extra in sorted(NAMED_DIRECT.items()):
            f = ci.own_func(nm)
            if f is None:
                ctx.finding(rs, "%s.%s|missing" % (FNODE, nm), "method %s vanished" % nm, repo.loc(ci.module, ci.node))
                continue
            calls = [c for c in calls_in(f) if _mgr_attr(c.func) == nm]
            if len(calls) != 1:
                rs.unrec("%s: constructor call not unique" % nm)
                continue
            c = calls[0]
            args = [norm(a) for a in c.args] + [norm(k.value) for k in c.keywords]
            if args == ["self"] + extra:
                rs.ok({"method": nm, "call": norm(c)})
            else:
                ctx.finding(rs, "%s.%s|arguments" % (FNODE, nm),
                            "method %s calls %s" % (nm, norm(c)), method_loc(repo, FNODE, c))
        # unary forms
        for dn, (nb, b) in (("__invert__", ("Not", "BVNot")), ("__neg__", (None, "BVNeg"))):
            f = ci.own_func(dn)
            if f is None:
                ctx.finding(rs, "%s.%s|missing" % (FNODE, dn), "%s vanished" % dn, repo.loc(ci.module, ci.node))
                continue
            par = parents(f)
            seen = {}
            for r in [n for n in ast.walk(f) if isinstance(n, ast.Return)]:
                q = par.get(r)
                under_bv = isinstance(q, ast.If) and r in q.body and norm(q.test) == "self.get_type().is_bv_type()"
                seen[under_bv] = r
            rb = seen.get(True)
            if rb is not None and _mgr_attr(rb.value.func) == b and [norm(a) for a in rb.value.args] == ["self"]:
                rs.ok({"method": dn, "bv": b})
            else:
                ctx.finding(rs, "%s.%s|bv" % (FNODE, dn), "%s on bit-vectors is not %s(self)" % (dn, b), method_loc(repo, FNODE, f))
            rn = seen.get(False)
            if dn == "__invert__":
                if rn is not None and _mgr_attr(rn.value.func) == nb and [norm(a) for a in rn.value.args] == ["self"]:
                    rs.ok({"method": dn, "non_bv": nb})
                else:
                    ctx.finding(rs, "%s.%s|nonbv" % (FNODE, dn), "~x on Booleans is not Not(self)", method_loc(repo, FNODE, f))
            else:
                if rn is not None and norm(rn.value) == "self._apply_infix(-1, _mgr().Times)":
                    rs.ok({"method": dn, "non_bv": "Times(self, -1)"})
                else:
                    ctx.finding(rs, "%s.%s|nonbv" % (FNODE, dn), "-x on numbers is %s, expected self * -1"
                                % (norm(rn.value) if rn is not None else None), method_loc(repo, FNODE, f))
        # __rsub__: left - self
        f = ci.own_func("__rsub__")
        if f is not None:
            txt = norm(f)
            bv_ok = "left._apply_infix(self, _mgr().BVSub)" in txt
            nb_ok = "minus_self = -self" in txt and "minus_self._apply_infix(left, _mgr().Plus)" in txt
            if bv_ok and nb_ok:
                rs.ok({"method": "__rsub__", "bv": "BVSub(left, self)", "non_bv": "Plus(-self, left)"})
            else:
                ctx.finding(rs, "%s.__rsub__|table" % FNODE,
                            "reflected subtraction is not (left - self): bv_ok=%s non_bv_ok=%s" % (bv_ok, nb_ok),
                            method_loc(repo, FNODE, f))
        # __getitem__: slice [start:stop] -> BVExtract(self, start=start, end=stop)
        f = ci.own_func("__getitem__")
        if f is not None:
            calls = [c for c in calls_in(f) if _mgr_attr(c.func) == "BVExtract"]
            if calls and [norm(a) for a in calls[0].args] == ["self"] and \
                    sorted((k.arg, norm(k.value)) for k in calls[0].keywords) == [("end", "end"), ("start", "start")]:
                txt = norm(f)
                if "end = idx.stop" in txt and "start = idx.start" in txt:
                    rs.ok({"method": "__getitem__", "call": norm(calls[0])})
                else:
                    ctx.finding(rs, "%s.__getitem__|bounds" % FNODE, "slice bounds are not (start=idx.start, end=idx.stop)",
                                method_loc(repo, FNODE, f))
            else:
                rs.unrec("__getitem__ shape")
        ctx.floor(rs, 50)

    from . import c06_deep
    c06_deep.run(ctx)
