"""C09 -- printing then parsing gives the formula back (SMT-LIB and human-readable)."""
import ast
import re

from ..common import (get_repo, get_ops, get_tables, short, norm, method_loc, calls_in, attr_tail,
                      parents, names_in)
from ..opsets import ConstEval, NotConst
from .. import ctors
from ..tables import smtlib as T
from .c07 import TREE, DAGP, CMD
from .c08 import PARSER

HRP = "pysmt.printers.HRPrinter"
HRL = "pysmt.parsing.HRLexer"

EXPLANATION = (
    "Abstract interpretation of both directions composed.  SMT-LIB: for ~190 concrete skeletons (every "
    "operator, constants of every kind, arrays, functions, parametric sorts, quantifiers, names that need "
    "quoting or collide with let names) the script written by the interpreted export path, in tree and in "
    "let-DAG form, is read back by the interpreted SmtLibParser and get_last_formula is the very same node "
    "(constant arrays: an equivalent store chain) (R5).  Human-readable: the text written by the interpreted "
    "HRSerializer is read by the interpreted Pratt parser of pysmt/parsing.py; the result has the same sort "
    "and, by structural comparison or exhaustive evaluation over small domains, the same meaning (R6).  "
    "Scripts: every script of the import corpus is re-serialised by the interpreted SmtLibScript.serialize - in "
    "tree form and in let-DAG form, where one printer serves all commands of the script - and read again; the "
    "command names agree and every assertion denotes the same thing (R7).  One script per "
    "command of the command set: re-serialised and read again it is the same command list; commands "
    "SmtLibCommand.serialize declines with NotImplementedError on the pinned tree are tabled (R3).  One human-readable parser object reads a formula over symbols spelled like keywords, type names and operators, then another formula: the second reading is what a fresh parser gives (R8).")
NOT_DECIDED = ["formulas and scripts outside the menus", "grouping of n-ary operators in the human-readable grammar "
               "(allowed by the property; the comparison is up to meaning)"]


def run(ctx):
    repo, ops, ht = get_repo(), get_ops(), get_tables()
    ctx.analysed["modules"] = ["pysmt/smtlib/printers.py", "pysmt/smtlib/parser/parser.py", "pysmt/smtlib/script.py",
                               "pysmt/printers.py", "pysmt/parsing.py", "pysmt/formula.py"]
    if ctx.want("R3"):
        rs = ctx.rule("R3", "every command: its script, re-serialised, is read again as the same command list (one script per command)")
        from . import c08_tokens
        c08_tokens.run_roundtrip(ctx, rs)

    if ctx.want("R5"):
        rs = ctx.rule("R5", "SMT-LIB round trip: parse(print(f)) is f, tree and let-DAG form, through the interpreted printer and parser")
        from . import text_deep as td
        for r in td.export_results(repo, ctx.tier):
            form = "let-DAG" if r["dag"] else "tree"
            kind, detail = r["c09"]
            if kind == "valid":
                rs.ok({"skeleton": r["shape"], "form": form, "result": detail})
            elif kind == "invalid":
                ctx.finding(rs, "roundtrip|%s" % r["shape"], "%s (%s form): %s%s" % (
                    r["shape"], form, detail, (" [text: %s]" % r["text"].replace("\n", " ")[:300]) if r["text"] else ""),
                    "pysmt/smtlib/parser/parser.py")
            else:
                rs.unrec("%s (%s): %s" % (r["shape"], form, detail[:160]))
        ctx.floor(rs, 200)

    if ctx.want("R6"):
        rs = ctx.rule("R6", "human-readable round trip: parse(serialize(f)) has the sort and the meaning of f")
        from . import text_deep as td
        for r in td.hr_results(repo, ctx.tier):
            if r["kind"] in ("valid", "outside"):
                rs.ok({"skeleton": r["shape"], "text": r["text"], "result": r["detail"]})
            elif r["kind"] in ("invalid", "rejected", "raises"):
                ctx.finding(rs, "hr|%s" % r["shape"], "%s: %s" % (r["shape"], r["detail"]), "pysmt/parsing.py")
            else:
                rs.unrec("%s: %s" % (r["shape"], r["detail"][:160]))
        ctx.floor(rs, 100)

    if ctx.want("R8"):
        rs = ctx.rule("R8", "a human-readable parser object that has read another formula (over symbols spelled like keywords) reads the next one as a fresh parser does")
        from . import text_deep as td
        for tag, kind, detail in td.hr_reuse_results(repo, ctx.tier):
            if kind == "valid":
                rs.ok({"case": tag, "result": detail})
            elif kind == "invalid":
                ctx.finding(rs, "hr-reuse|%s" % tag, "%s: %s" % (tag, detail), "pysmt/parsing.py")
            else:
                rs.unrec("%s: %s" % (tag, detail[:160]))
        ctx.floor(rs, 5)

    if ctx.want("R7"):
        rs = ctx.rule("R7", "scripts re-serialise to text pySMT reads as an equivalent command list")
        from . import text_deep as td
        for r in td.import_results(repo, ctx.tier):
            ag = r.get("again")
            if ag is None:
                continue
            if ag[0] == "valid":
                rs.ok({"script": r["name"], "result": ag[1]})
            elif ag[0] == "invalid":
                ctx.finding(rs, "reserialise|%s" % r["name"], "script %s: %s" % (r["name"], ag[1]), "pysmt/smtlib/script.py")
            else:
                rs.unrec("%s: %s" % (r["name"], ag[1][:160]))
        ctx.floor(rs, 60)

