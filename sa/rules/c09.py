"""C09 -- printing then parsing gives the formula back (SMT-LIB and human-readable)."""
import ast
import re

from ..common import (get_repo, get_ops, get_tables, short, norm, method_loc, calls_in, attr_tail,
                      parents, names_in)
from ..opsets import ConstEval, NotConst
from .. import ctors
from ..tables import smtlib as T
from .c07 import TREE, DAGP, CMD
from .c08 import token_table, PARSER

HRP = "pysmt.printers.HRPrinter"
HRL = "pysmt.parsing.HRLexer"

EXPLANATION = (
    "Abstract interpretation of both directions composed.  SMT-LIB: for ~130 concrete skeletons (every "
    "operator, constants of every kind, arrays, functions, parametric sorts, quantifiers, names that need "
    "quoting or collide with let names) the script written by the interpreted export path, in tree and in "
    "let-DAG form, is read back by the interpreted SmtLibParser and get_last_formula is the very same node "
    "(constant arrays: an equivalent store chain) (R5).  Human-readable: the text written by the interpreted "
    "HRSerializer is read by the interpreted Pratt parser of pysmt/parsing.py; the result has the same sort "
    "and, by structural comparison or exhaustive evaluation over small domains, the same meaning (R6).  "
    "Scripts: every script of the import corpus is re-serialised by the interpreted SmtLibScript.serialize "
    "and read again; the command names agree and every assertion denotes the same thing (R7).  Every command "
    "SmtLibCommand.serialize can write has a parser entry (R3).")
NOT_DECIDED = ["formulas and scripts outside the menus", "grouping of n-ary operators in the human-readable grammar "
               "(allowed by the property; the comparison is up to meaning)"]


def run(ctx):
    repo, ops, ht = get_repo(), get_ops(), get_tables()
    ctx.analysed["modules"] = ["pysmt/smtlib/printers.py", "pysmt/smtlib/parser/parser.py", "pysmt/smtlib/script.py",
                               "pysmt/printers.py", "pysmt/parsing.py", "pysmt/formula.py"]
    table, fix = token_table(repo)

    def token_ctors(tok):
        """manager constructors token `tok` can resolve to"""
        ent = table.get(tok)
        if ent is None:
            return None
        kind, name = ent
        if kind == "ctor":
            return {name}
        if kind == "self":
            if name in fix:
                return {fix[name]}
            outs = set()
            for t in adapter_targets(repo, PARSER, name):
                if t.startswith("self."):
                    outs.add(fix.get(t[5:], t))
                else:
                    outs.add(t)
            return outs
        return {"<" + name + ">"}

    if ctx.want("R3"):
        rs = ctx.rule("R3", "every command that can be serialised has a parser entry")
        cls, f = repo.method(CMD, "serialize")
        ce = ConstEval(repo)
        mod = repo.cls(CMD).module
        names = set()
        for n in ast.walk(f):
            if isinstance(n, ast.If) and isinstance(n.test, ast.Compare) and norm(n.test.left) == "self.name":
                raises = any(isinstance(s, ast.Raise) for s in n.body)
                if raises:
                    continue
                c = n.test.comparators[0]
                try:
                    v = ce.expr(mod, c)
                except NotConst:
                    continue
                if isinstance(v, str):
                    names.add(v)
                elif isinstance(v, (list, tuple, set, frozenset)) and len(v) < 12:
                    names |= set(v)
        pcls, init = repo.method(PARSER, "__init__")
        cmds = set()
        for n in ast.walk(init):
            if isinstance(n, ast.Assign) and norm(n.targets[0]) == "self.commands" and isinstance(n.value, ast.Dict):
                for k in n.value.keys:
                    try:
                        cmds.add(ce.expr(repo.cls(PARSER).module, k))
                    except NotConst:
                        pass
        if not names or not cmds:
            ctx.error("R3", "command tables not extracted (%d serialisable, %d parsable)" % (len(names), len(cmds)))
        for nm in sorted(names):
            if nm in cmds:
                rs.ok({"command": nm, "serialisable": True, "parsable": True})
            else:
                ctx.finding(rs, "%s.serialize|unparsable|%s" % (CMD, nm),
                            "command '%s' can be serialised but the parser has no entry for it" % nm,
                            method_loc(repo, cls, f))
        ctx.floor(rs, 20)

    if ctx.want("R5"):
        rs = ctx.rule("R5", "SMT-LIB round trip: parse(print(f)) is f, tree and let-DAG form, through the interpreted printer and parser")
        from . import text_deep as td
        for r in td.export_results(repo, ctx.tier):
            form = "let-DAG" if r["dag"] else "tree"
            kind, detail = r["c09"]
            if kind == "valid":
                rs.ok({"skeleton": r["shape"], "form": form, "result": detail})
            elif kind == "invalid":
                ctx.finding(rs, "roundtrip|%s" % r["shape"], "%s (%s form): %s%s" % (
                    r["shape"], form, detail, (" [text: %s]" % r["text"].replace("\n", " ")[:300]) if r["text"] else ""),
                    "pysmt/smtlib/parser/parser.py")
            else:
                rs.unrec("%s (%s): %s" % (r["shape"], form, detail[:160]))
        ctx.floor(rs, 200)

    if ctx.want("R6"):
        rs = ctx.rule("R6", "human-readable round trip: parse(serialize(f)) has the sort and the meaning of f")
        from . import text_deep as td
        for r in td.hr_results(repo, ctx.tier):
            if r["kind"] == "valid":
                rs.ok({"skeleton": r["shape"], "text": r["text"], "result": r["detail"]})
            elif r["kind"] in ("invalid", "rejected", "raises"):
                ctx.finding(rs, "hr|%s" % r["shape"], "%s: %s" % (r["shape"], r["detail"]), "pysmt/parsing.py")
            else:
                rs.unrec("%s: %s" % (r["shape"], r["detail"][:160]))
        ctx.floor(rs, 100)

    if ctx.want("R7"):
        rs = ctx.rule("R7", "scripts re-serialise to text pySMT reads as an equivalent command list")
        from . import text_deep as td
        for r in td.import_results(repo, ctx.tier):
            ag = r.get("again")
            if ag is None:
                continue
            if ag[0] == "valid":
                rs.ok({"script": r["name"], "result": ag[1]})
            elif ag[0] == "invalid":
                ctx.finding(rs, "reserialise|%s" % r["name"], "script %s: %s" % (r["name"], ag[1]), "pysmt/smtlib/script.py")
            else:
                rs.unrec("%s: %s" % (r["name"], ag[1][:160]))
        ctx.floor(rs, 60)

