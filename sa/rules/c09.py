"""C09 -- printing then parsing gives the formula back (SMT-LIB and human-readable)."""
import ast
import re

from ..common import (get_repo, get_ops, get_tables, short, norm, method_loc, calls_in, attr_tail,
                      parents, names_in)
from ..opsets import ConstEval, NotConst
from .. import ctors
from ..tables import smtlib as T
from .c07 import extract_name, TREE, DAGP, CMD
from .c08 import token_table, PARSER

HRP = "pysmt.printers.HRPrinter"
HRL = "pysmt.parsing.HRLexer"

EXPLANATION = (
    "Static analysis composing the printer tables with the parser tables: for every operator and "
    "both SMT-LIB printers the token printed is in the parser's table and resolves to a constructor "
    "whose summary builds that very operator from its arguments in the printed order, including the "
    "type-directed tokens '=' and '-' (R1); negative and rational constants are folded back by the "
    "parser's minus/division adapters, constant arrays come back through (as const) + store (R2); "
    "every command SmtLibCommand.serialize can write has a parser entry (R3); every token the "
    "human-readable printer writes is matched first by the lexer rule bound to the constructor of "
    "that operator or to the type-dispatching adapter containing it (R4).")
NOT_DECIDED = ["object identity of the round trip for all formulas (needs evaluation)",
               "grouping of n-ary operators in the human-readable grammar (allowed by the property)"]


def adapter_targets(repo, cls_qual, name):
    """Constructors (mgr.X) an adapter method of the parser/lexer can return."""
    q, f = repo.find_method(cls_qual, name)
    out = set()
    if f is None:
        return out
    for n in ast.walk(f):
        if isinstance(n, ast.Return) and isinstance(n.value, ast.Call):
            fn = n.value.func
            if isinstance(fn, ast.Attribute):
                base = norm(fn.value)
                if base in ("mgr", "self.mgr"):
                    out.add(fn.attr)
                elif base == "self":
                    out.add("self." + fn.attr)
    return out


def run(ctx):
    repo, ops, ht = get_repo(), get_ops(), get_tables()
    ctx.analysed["modules"] = ["pysmt/smtlib/printers.py", "pysmt/smtlib/parser/parser.py", "pysmt/smtlib/script.py",
                               "pysmt/printers.py", "pysmt/parsing.py", "pysmt/formula.py"]
    table, fix = token_table(repo)

    def token_ctors(tok):
        """manager constructors token `tok` can resolve to"""
        ent = table.get(tok)
        if ent is None:
            return None
        kind, name = ent
        if kind == "ctor":
            return {name}
        if kind == "self":
            if name in fix:
                return {fix[name]}
            outs = set()
            for t in adapter_targets(repo, PARSER, name):
                if t.startswith("self."):
                    outs.add(fix.get(t[5:], t))
                else:
                    outs.add(t)
            return outs
        return {"<" + name + ">"}

    if ctx.want("R1"):
        rs = ctx.rule("R1", "SMT-LIB printer o parser is the identity on operators")
        for cls in (TREE, DAGP):
            tab = ht.table(cls)
            for o in ops:
                nm = ops.name(o)
                h = tab[o]
                if h.is_error or h.func is None or nm in T.SPECIAL or nm in ("FORALL", "EXISTS"):
                    continue
                ex = extract_name(repo, cls, h, nm, ops)
                if ex is None or ex[0] not in ("nary", "template", "indexed"):
                    rs.unrec("%s %s: printed token not extracted" % (cls.split(".")[-1], nm))
                    continue
                if ex[0] == "indexed":
                    ident = ex[1]
                    ent = T.UNDERSCORE.get(ident)
                    if ent is None:
                        rs.unrec("indexed identifier %s has no parser reference" % ident)
                        continue
                    b = ctors.builds_any(ent[0])
                    if any(opn == nm for opn, _ in b):
                        rs.ok({"printer": cls.split(".")[-1], "op": nm, "token": "(_ %s ..)" % ident, "parser_builds": nm})
                    else:
                        ctx.finding(rs, "%s|%s|indexed-roundtrip" % (cls, nm),
                                    "%s is printed as (_ %s ..) which the parser reads with %s building %s"
                                    % (nm, ident, ent[0], sorted(b)), method_loc(repo, h.cls, h.func))
                    continue
                tok = ex[1]
                cs = token_ctors(tok)
                if cs is None:
                    ctx.finding(rs, "%s|%s|token-unknown-to-parser|%s" % (cls, nm, tok),
                                "%s prints %s as '%s' but the parser has no such token: pySMT cannot read its own output"
                                % (cls.split(".")[-1], nm, tok), method_loc(repo, h.cls, h.func))
                    continue
                good = False
                seen = set()
                for c in cs:
                    for opn, order in ctors.builds_any(c):
                        seen.add(opn)
                        if opn == nm and (order is None or list(order) == sorted(order)):
                            good = True
                if good:
                    rs.ok({"printer": cls.split(".")[-1], "op": nm, "token": tok, "parser_ctor": sorted(cs)})
                elif not seen:
                    rs.unrec("%s: constructor(s) %s of token '%s' not summarised" % (nm, sorted(cs), tok))
                else:
                    ctx.finding(rs, "%s|%s|roundtrip|%s" % (cls, nm, tok),
                                "%s is printed as '%s', which the parser reads with %s building %s, not %s"
                                % (nm, tok, sorted(cs), sorted(seen), nm), method_loc(repo, h.cls, h.func))
        ctx.floor(rs, 80)

    if ctx.want("R2"):
        rs = ctx.rule("R2", "constants and constant arrays survive the round trip")
        # negative ints / rationals are printed as (- n) and (/ a b): the parser must fold them back
        cls, f = repo.method(PARSER, "_minus_or_uminus")
        folds = [c for c in calls_in(f) if attr_tail(c) in ("Int", "Real") and "-1 * args[0].constant_value()" in norm(c)]
        guards = [n for n in ast.walk(f) if isinstance(n, ast.If) and attr_tail(n.test) in ("is_int_constant", "is_real_constant")]
        if len(folds) == 2 and len(guards) == 2:
            rs.ok({"(- n)": "folded to a constant for Int and Real constants"})
        else:
            rs.unrec("unary minus folding not in the recognised form (%d folds, %d guards)" % (len(folds), len(guards)))
        cls, f = repo.method(PARSER, "_division")
        if any(attr_tail(c) == "Real" for c in calls_in(f)) and "left.is_constant() and right.is_constant()" in norm(f):
            rs.ok({"(/ a b)": "folded to a Real constant when both are constants"})
        else:
            rs.unrec("division folding not in the recognised form")
        cls, f = repo.method(PARSER, "_enter_smtlib_as")
        arr = [c for c in calls_in(f) if attr_tail(c) == "Array"]
        if arr and "index_type" in norm(arr[0].args[0]) and norm(arr[0].args[1]) == "expr":
            rs.ok({"(as const T)": "Array(index type of T, default)"})
        else:
            rs.unrec("(as const ..) handler not in the recognised form")
        ctx.floor(rs, 2)

    if ctx.want("R3"):
        rs = ctx.rule("R3", "every command that can be serialised has a parser entry")
        cls, f = repo.method(CMD, "serialize")
        ce = ConstEval(repo)
        mod = repo.cls(CMD).module
        names = set()
        for n in ast.walk(f):
            if isinstance(n, ast.If) and isinstance(n.test, ast.Compare) and norm(n.test.left) == "self.name":
                raises = any(isinstance(s, ast.Raise) for s in n.body)
                if raises:
                    continue
                c = n.test.comparators[0]
                try:
                    v = ce.expr(mod, c)
                except NotConst:
                    continue
                if isinstance(v, str):
                    names.add(v)
                elif isinstance(v, (list, tuple, set, frozenset)) and len(v) < 12:
                    names |= set(v)
        pcls, init = repo.method(PARSER, "__init__")
        cmds = set()
        for n in ast.walk(init):
            if isinstance(n, ast.Assign) and norm(n.targets[0]) == "self.commands" and isinstance(n.value, ast.Dict):
                for k in n.value.keys:
                    try:
                        cmds.add(ce.expr(repo.cls(PARSER).module, k))
                    except NotConst:
                        pass
        if not names or not cmds:
            ctx.error("R3", "command tables not extracted (%d serialisable, %d parsable)" % (len(names), len(cmds)))
        for nm in sorted(names):
            if nm in cmds:
                rs.ok({"command": nm, "serialisable": True, "parsable": True})
            else:
                ctx.finding(rs, "%s.serialize|unparsable|%s" % (CMD, nm),
                            "command '%s' can be serialised but the parser has no entry for it" % nm,
                            method_loc(repo, cls, f))
        ctx.floor(rs, 20)

    if ctx.want("R4"):
        rs = ctx.rule("R4", "human-readable printer tokens are lexed back to the same operator")
        lex_rules, idmap = hr_lexer_tables(repo)
        if not lex_rules:
            ctx.error("R4", "HRLexer rule list not found")
        tab = ht.table(HRP)
        for o in ops:
            nm = ops.name(o)
            h = tab[o]
            if h.is_error or h.func is None:
                continue
            tok = None
            for r in ast.walk(h.func):
                if isinstance(r, ast.Return) and isinstance(r.value, ast.Call) and attr_tail(r.value) == "walk_nary" \
                        and isinstance(r.value.args[-1], ast.Constant):
                    tok = r.value.args[-1].value.strip()
            if tok is None:
                # function-call style: first written constant "name("
                consts = [n.value for n in ast.walk(h.func) if isinstance(n, ast.Constant) and isinstance(n.value, str)]
                m = [c for c in consts if re.match(r"^[A-Za-z][A-Za-z0-9_.+]*\($", c)]
                if m:
                    tok = m[0][:-1]
                else:
                    kw = [c.strip() for c in consts if re.match(r"^ [A-Z]+ $", c)]
                    if kw:
                        tok = kw[0]
            if tok is None:
                continue
            target = lex_token(lex_rules, idmap, tok)
            if target is None:
                ctx.finding(rs, "%s|%s|token-not-lexed|%s" % (HRP, nm, tok),
                            "the human-readable printer writes '%s' for %s but no lexer rule matches it" % (tok, nm),
                            method_loc(repo, h.cls, h.func))
                continue
            cs = set()
            for t in target:
                if t.startswith("self."):
                    cs |= set(x for x in adapter_targets(repo, HRL, t[5:]))
                else:
                    cs.add(t)
            seen = set()
            good = False
            for c in cs:
                for opn, order in ctors.builds_any(c):
                    seen.add(opn)
                    if opn == nm:
                        good = True
            if good:
                rs.ok({"op": nm, "token": tok, "lexer_ctor": sorted(cs)})
            elif not seen:
                rs.unrec("%s: lexer target %s for token '%s' not summarised" % (nm, sorted(cs), tok))
            else:
                ctx.finding(rs, "%s|%s|hr-roundtrip|%s" % (HRP, nm, tok),
                            "'%s' is printed for %s but lexed to %s which builds %s" % (tok, nm, sorted(cs), sorted(seen)),
                            method_loc(repo, h.cls, h.func))
        ctx.floor(rs, 35)


def hr_lexer_tables(repo):
    cls, init = repo.method(HRL, "__init__")
    rules = []
    idmap = {}

    def target_of(e):
        """InfixOpAdapter(self.mgr.X, p) / UnaryOpAdapter / FunctionCallAdapter / InfixOrUnaryOpAdapter"""
        if isinstance(e, ast.Call):
            outs = []
            for a in e.args:
                if isinstance(a, ast.Attribute):
                    t = norm(a)
                    if t.startswith("self.mgr."):
                        outs.append(t[len("self.mgr."):])
                    elif t.startswith("self."):
                        outs.append(t)
                elif isinstance(a, ast.Call) and attr_tail(a) == "BVHack" and a.args:
                    t = norm(a.args[0])
                    if t.startswith("self.mgr."):
                        outs.append(t[len("self.mgr."):])
            return outs
        if isinstance(e, ast.Attribute):
            return [norm(e)]
        return []
    for n in ast.walk(init):
        if isinstance(n, ast.Assign) and isinstance(n.targets[0], ast.Name) and n.targets[0].id == "hr_rules" \
                and isinstance(n.value, ast.List):
            for el in n.value.elts:
                if isinstance(el, ast.Call) and attr_tail(el) == "Rule" and len(el.args) >= 2 and \
                        isinstance(el.args[0], ast.Constant):
                    rules.append((el.args[0].value, target_of(el.args[1]), norm(el.args[1])))
        if isinstance(n, ast.Assign) and norm(n.targets[0]) == "self._identifier_map" and isinstance(n.value, ast.Dict):
            for k, v in zip(n.value.keys, n.value.values):
                if isinstance(k, ast.Constant):
                    idmap[k.value] = target_of(v)
    return rules, idmap


def lex_token(rules, idmap, tok):
    """The lexer compiles the rules into one alternation: at a position the first alternative that
    matches wins.  Returns the constructor targets of the rule that consumes `tok` entirely."""
    for rx, targets, raw in rules:
        try:
            m = re.match(rx, tok)
        except re.error:
            continue
        if m and m.end() == len(tok):
            if "identifier" in raw:
                return idmap.get(tok)
            return targets or None
        if m and m.end() > 0:
            return None      # a shorter prefix wins: the token is split
    return None
