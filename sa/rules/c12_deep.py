"""C12 deep rule R2: the five oracles interpreted on operator skeletons over opaque leaves and
compared with the structural definitions (an independent reference implementation on the abstract
term)."""
from ..common import get_repo, parallel_map
from .. import proc, refsem
from .. import simpcheck as sc

ORACLES = ["free", "atoms", "qf", "types", "ctypes", "size0", "size1", "size2", "size3", "size4", "size5"]
BOOL_CONN = {"AND", "OR", "NOT", "IMPLIES", "IFF"}
RELS = {"EQUALS", "LE", "LT", "BV_ULT", "BV_ULE", "BV_SLT", "BV_SLE", "STR_CONTAINS", "STR_PREFIXOF", "STR_SUFFIXOF"}


# ------------------------------------------------------------------------------------ reference definitions
def ref_atoms(w, n):
    """None for a theory term, else the set of atoms."""
    op = w.opname(n)
    if op in BOOL_CONN or op in ("FORALL", "EXISTS"):
        out = set()
        for a in w.nargs(n):
            r = ref_atoms(w, a)
            out |= (r or set())
        return out
    if op in RELS:
        return {n}
    if op == "BOOL_CONSTANT":
        return set()
    if op == "SYMBOL":
        return {n} if w.nsort(n) == refsem.BOOL else None
    if op == "FUNCTION" or op == "ARRAY_SELECT":
        return {n} if w.nsort(n) == refsem.BOOL else None
    if op == "ITE":
        rs = [ref_atoms(w, a) for a in w.nargs(n)]
        if any(r is None for r in rs):
            return None
        return set().union(*rs)
    return None


def ref_qf(w, n):
    stack = [n]
    while stack:
        x = stack.pop()
        if w.opname(x) in ("FORALL", "EXISTS"):
            return False
        stack.extend(w.nargs(x))
    return True


def _expand(sort, out):
    out.add(sort)
    if sort[0] == "ARRAY":
        _expand(sort[1], out)
        _expand(sort[2], out)
    if sort[0] == "FUN":
        _expand(sort[1], out)
        for p in sort[2]:
            _expand(p, out)
    if sort[0] == "CUSTOM" and len(sort) > 2:
        for p in sort[2]:            # an instance of a parametric sort: its arguments occur too
            _expand(p, out)


def ref_types(w, n):
    out = set()
    stack = [n]
    seen = set()
    while stack:
        x = stack.pop()
        if id(x) in seen:
            continue
        seen.add(id(x))
        op = w.opname(x)
        if op == "SYMBOL":
            _expand(w.nsort(x), out)
        elif op.endswith("_CONSTANT"):
            _expand(w.nsort(x), out)
        elif op == "FUNCTION":
            fs = w.sort_of_tyobj(w.npayload(w.npayload(x))[1])
            _expand(fs[1], out)
            for p in fs[2]:
                _expand(p, out)
        elif op in ("FORALL", "EXISTS"):
            for v in w.npayload(x):
                _expand(w.nsort(v), out)
        elif op == "ARRAY_VALUE":
            _expand(w.sort_of_tyobj(w.npayload(x)), out)
        stack.extend(w.nargs(x))
    return out


def ref_size(w, n, measure):
    if measure == 0:      # tree nodes
        return 1 + sum(ref_size(w, a, 0) for a in w.nargs(n))
    if measure == 1:      # dag nodes
        seen = set()
        stack = [n]
        while stack:
            x = stack.pop()
            if id(x) in seen:
                continue
            seen.add(id(x))
            stack.extend(w.nargs(x))
        return len(seen)
    if measure == 2:      # leaves of the tree
        a = w.nargs(n)
        return 1 if not a else sum(ref_size(w, x, 2) for x in a)
    if measure == 3:      # depth
        a = w.nargs(n)
        return 1 + (max(ref_size(w, x, 3) for x in a) if a else 0)
    if measure == 4:      # distinct symbols
        seen = set()
        stack = [n]
        vis = set()
        while stack:
            x = stack.pop()
            if id(x) in vis:
                continue
            vis.add(id(x))
            if w.opname(x) == "SYMBOL":
                seen.add(id(x))
            stack.extend(w.nargs(x))
        return len(seen)
    if measure == 5:      # Boolean dag: theory relations are leaves
        seen = set()
        stack = [n]
        while stack:
            x = stack.pop()
            if id(x) in seen:
                continue
            seen.add(id(x))
            if w.opname(x) in RELS:
                continue
            stack.extend(w.nargs(x))
        return len(seen)


def _names(w, nodes):
    return sorted(sc.node_str(w, x) for x in nodes)


def _job(job):
    which, shape = job

    via_node = which.endswith("@node")      # the methods of the node (FNode.get_atoms / get_free_variables / size): same answers
    if via_node:
        which = which[:-5]

    def call(w, it, f):
        env = w.env
        if which == "atoms" and w.nsort(f) != refsem.BOOL:
            return None                  # atoms are defined for formulas
        if via_node:
            if which == "free":
                return it.call(it.getattr(f, "get_free_variables"), [])
            if which == "atoms":
                return it.call(it.getattr(f, "get_atoms"), [])
            return it.call(it.getattr(f, "size"), [int(which[4:])])
        if which == "free":
            o = w.new_walker("pysmt.oracles.FreeVarsOracle", env)
            return it.call(it.getattr(o, "get_free_variables"), [f])
        if which == "atoms":
            o = w.new_walker("pysmt.oracles.AtomsOracle", env)
            return it.call(it.getattr(o, "get_atoms"), [f])
        if which == "qf":
            o = w.new_walker("pysmt.oracles.QuantifierOracle", env)
            return it.call(it.getattr(o, "is_qf"), [f])
        if which == "types":
            o = w.new_walker("pysmt.oracles.TypesOracle", env)
            return it.call(it.getattr(o, "get_types"), [f])
        if which == "ctypes":
            o = w.new_walker("pysmt.oracles.TypesOracle", env)
            return it.call(it.getattr(o, "get_types"), [f], {"custom_only": True})
        m = int(which[4:])
        o = w.new_walker("pysmt.oracles.SizeOracle", env)
        return it.call(it.getattr(o, "get_size"), [f, m])

    def post(w, f, r, facts):
        if which == "free":
            exp = w.free_symbols(f)
            got = set(r)
            if got == set(exp):
                return proc.ProcResult(shape, "valid", "free symbols %s" % _names(w, exp))
            return proc.ProcResult(shape, "invalid", "free symbols reported %s, by definition %s" % (_names(w, got), _names(w, exp)))
        if which == "atoms":
            if r is None:
                return proc.ProcResult(shape, "vacuous", "not a Boolean formula")
            exp = ref_atoms(w, f)
            if exp is None:
                return proc.ProcResult(shape, "vacuous", "not a Boolean formula")
            got = set(r)
            if got == exp:
                return proc.ProcResult(shape, "valid", "atoms %s" % _names(w, exp))
            return proc.ProcResult(shape, "invalid", "atoms reported %s, by definition %s" % (_names(w, got), _names(w, exp)))
        if which == "qf":
            exp = ref_qf(w, f)
            if bool(r) == exp:
                return proc.ProcResult(shape, "valid", "quantifier free: %s" % exp)
            return proc.ProcResult(shape, "invalid", "is_qf reports %s, the term %s a quantifier" % (r, "contains" if not exp else "has no"))
        if which in ("types", "ctypes"):
            exp = ref_types(w, f)
            if which == "ctypes":
                # the user-declared sorts among them, wherever they occur (also inside array / parametric sorts only)
                exp = set(t for t in exp if t[0] == "CUSTOM")
            got = set(w.sort_of_tyobj(t) for t in r)
            if got == exp:
                return proc.ProcResult(shape, "valid", "sorts %s" % sorted(map(str, exp)))
            return proc.ProcResult(shape, "invalid", "sorts reported %s, by definition %s (missing %s, extra %s)"
                                   % (sorted(map(str, got)), sorted(map(str, exp)), sorted(map(str, exp - got)), sorted(map(str, got - exp))))
        m = int(which[4:])
        exp = ref_size(w, f, m)
        if r == exp:
            return proc.ProcResult(shape, "valid", "measure %d = %d" % (m, exp))
        return proc.ProcResult(shape, "invalid", "size measure %d reported %r, by definition %d" % (m, r, exp))
    res = proc.run_proc(shape, call, post=post, services="full" if via_node else True)
    return [(which + ("@node" if via_node else ""), repr(shape), r.kind, str(r.detail)) for r in res]


def root_shapes():
    """terms whose *root* is the interesting node: a Boolean-valued array read, a constant array value, a leaf"""
    from ..proc import S, BOOL, INT, Shape
    i, j, x = S("i", INT), S("j", INT), S("x", INT)
    p, q = S("p"), S("q")
    ab = S("ab", ("ARRAY", INT, BOOL))
    mb = S("mb", ("ARRAY", INT, ("ARRAY", INT, BOOL)))

    def L(v, so=INT):
        return ("lit", v, so)
    kt = ("Array", ("type", INT), L(True, BOOL), ("dict", (L(1), p)))
    ki = ("Array", ("type", INT), L(0), ("dict", (L(1), L(5)), (L(2), L(7))))
    sh = [("Select", ab, i), ("Select", ("Store", ab, j, ("And", p, q)), i), ("Select", ("Select", mb, i), j), ("Select", kt, i),
          ("Not", ("Select", ab, i)), ki, ("Array", ("type", INT), L(0)), ("Store", ki, i, x), ("Equals", ki, S("ai", ("ARRAY", INT, INT))),
          ("Array", ("type", INT), ki), L(3), L(True, BOOL), x, p, ("Select", ki, L(1))]
    return [Shape(t) for t in sh]


def run(ctx):
    if not ctx.want("R2"):
        return
    rs = ctx.rule("R2", "oracles agree with the structural definitions (per operator skeleton)")
    shapes = proc.term_shapes() + proc.quantified_shapes() + proc.boolean_shapes(depth2=False)
    if ctx.tier == "thorough":
        shapes = proc.in_contexts(shapes)
    jobs = [(o, sh) for sh in shapes for o in ORACLES]
    node_entries = ["free@node", "atoms@node"] + [o + "@node" for o in ORACLES if o.startswith("size")]
    jobs += [(o, sh) for sh in root_shapes() for o in list(ORACLES) + node_entries]
    jobs += [(o, sh) for sh in shapes[::5] for o in node_entries]
    outs = parallel_map(_job, jobs)
    label = {"free": "FreeVarsOracle", "atoms": "AtomsOracle", "qf": "QuantifierOracle", "types": "TypesOracle",
             "ctypes": "TypesOracle[custom_only]"}
    for res in outs:
        for which, shape, kind, detail in res:
            entry = ""
            if which.endswith("@node"):
                which, entry = which[:-5], " (method of the node)"
            name = label.get(which, "SizeOracle[%s]" % which[4:]) + entry
            if kind == "valid":
                rs.ok({"oracle": name, "shape": shape, "answer": detail})
            elif kind == "vacuous":
                continue
            elif kind == "invalid":
                ctx.finding(rs, "%s|%s" % (name, shape), "%s on %s: %s" % (name, shape, detail), "pysmt/oracles.py")
            elif kind == "raises":
                ctx.finding(rs, "%s|%s|raises" % (name, shape), "%s raises on %s: %s" % (name, shape, detail), "pysmt/oracles.py")
            else:
                rs.unrec("%s(%s): %s" % (name, shape, detail[:120]))
    ctx.floor(rs, 500)
