"""C16 -- scripts and incremental solvers track exactly the live assertions."""
import ast

from ..common import (get_repo, short, norm, CFG, normal_only, method_loc, calls_in, attr_tail,
                      is_self_attr, parents, names_in)

SOLVER = "pysmt.solvers.solver.Solver"
ITS = "pysmt.solvers.solver.IncrementalTrackingSolver"
SCRIPT = "pysmt.smtlib.script.SmtLibScript"

IFACE = ["add_assertion", "solve", "push", "pop", "reset_assertions"]

EXPLANATION = (
    "Static analysis: get_last_formula saves, restores and clears the same set of state variables "
    "in its push / pop / reset-assertions branches, each saved length truncates the list it was "
    "taken from and both loops run `levels` times (R1); IncrementalTrackingSolver.push records "
    "`levels` backtrack points taken after _push and pop pops `levels` points and truncates (R2); "
    "every concrete solver class decorates each assertion-stack method it implements with "
    "@clear_pending_pop, and is_sat arms the deferred pop only on the push path (R3, decorator "
    "discipline over all solver classes in the package).")
NOT_DECIDED = ["goal semantics beyond the truncation pairing of R1"]


def _trivial_body(f):
    body = [s for s in f.body if not (isinstance(s, ast.Expr) and isinstance(s.value, ast.Constant))]
    if not body:
        return True
    if len(body) == 1:
        s = body[0]
        if isinstance(s, ast.Pass):
            return True
        if isinstance(s, ast.Raise):
            return True
        if isinstance(s, ast.Return):
            if s.value is None or (isinstance(s.value, ast.Constant) and s.value.value is None):
                return True
            if isinstance(s.value, ast.Call) and isinstance(s.value.func, ast.Attribute) and \
                    isinstance(s.value.func.value, ast.Name) and s.value.func.value.id == "self":
                return True      # pure delegation
            if isinstance(s.value, ast.Constant):
                return True
    return False


def _has_decorator(f, name):
    for d in f.decorator_list:
        t = d.func if isinstance(d, ast.Call) else d
        if attr_tail(t) == name:
            return True
    return False


def run(ctx):
    repo = get_repo()
    ctx.analysed["modules"] = ["pysmt/smtlib/script.py", "pysmt/solvers/solver.py", "pysmt/decorators.py",
                               "every Solver subclass in pysmt/solvers, pysmt/smtlib/solver.py, pysmt/optimization"]

    if ctx.want("R1"):
        rs = ctx.rule("R1", "get_last_formula: push/pop/reset handle the same state, levels times")
        cls, fn = repo.method(SCRIPT, "get_last_formula")
        # branches by command
        branches = {}
        for n in ast.walk(fn):
            if isinstance(n, ast.If) and isinstance(n.test, ast.Compare) and norm(n.test.left) == "cmd.name" \
                    and len(n.test.comparators) == 1:
                branches[norm(n.test.comparators[0]).split(".")[-1]] = n
        for need in ("PUSH", "POP", "RESET_ASSERTIONS", "ASSERT"):
            if need not in branches:
                ctx.error("R1", "branch for %s not found in get_last_formula" % need)
        if all(k in branches for k in ("PUSH", "POP", "RESET_ASSERTIONS")):
            push, pop, reset = branches["PUSH"], branches["POP"], branches["RESET_ASSERTIONS"]
            # loops
            def level_loop(br, what):
                loops = [s for s in br.body if isinstance(s, ast.For)]
                if len(loops) != 1:
                    rs.unrec("%s branch: expected exactly one loop" % what)
                    return None
                lp = loops[0]
                if norm(lp.iter) == "range(cmd.args[0])":
                    rs.ok({"branch": what, "loop": norm(lp.iter)})
                else:
                    ctx.finding(rs, "%s.get_last_formula|%s-loop" % (SCRIPT, what),
                                "%s branch iterates %s, not once per level (range(cmd.args[0]))"
                                % (what, norm(lp.iter)), method_loc(repo, cls, lp))
                return lp
            lpush, lpop = level_loop(push, "push"), level_loop(pop, "pop")
            saved = {}
            if lpush is not None:
                for c in calls_in(lpush):
                    if attr_tail(c) == "append" and isinstance(c.func.value, ast.Name) and len(c.args) == 1 \
                            and isinstance(c.args[0], ast.Call) and attr_tail(c.args[0]) == "len":
                        saved[c.func.value.id] = norm(c.args[0].args[0])
            restored = {}
            if lpop is not None:
                stmts = list(lpop.body)
                for i, s in enumerate(stmts):
                    if isinstance(s, ast.Assign) and isinstance(s.value, ast.Call) and attr_tail(s.value) == "pop" \
                            and isinstance(s.value.func.value, ast.Name) and isinstance(s.targets[0], ast.Name):
                        var = s.targets[0].id
                        bt = s.value.func.value.id
                        # next statement truncates
                        if i + 1 < len(stmts) and isinstance(stmts[i + 1], ast.Assign):
                            t = stmts[i + 1]
                            tv = t.value
                            if isinstance(tv, ast.Subscript) and isinstance(tv.slice, ast.Slice) and \
                                    tv.slice.upper is not None and norm(tv.slice.upper) == var and \
                                    (tv.slice.lower is None or norm(tv.slice.lower) == "0") and \
                                    norm(t.targets[0]) == norm(tv.value):
                                restored[bt] = norm(tv.value)
                            else:
                                restored[bt] = "?" + norm(t)
            for bt, lst in sorted(saved.items()):
                if bt not in restored:
                    ctx.finding(rs, "%s.get_last_formula|saved-not-restored|%s" % (SCRIPT, bt),
                                "push saves len(%s) into %s but pop never restores from it" % (lst, bt),
                                method_loc(repo, cls, push))
                elif restored[bt] != lst:
                    ctx.finding(rs, "%s.get_last_formula|restore-mismatch|%s" % (SCRIPT, bt),
                                "length saved from %s is used to truncate %s" % (lst, restored[bt]),
                                method_loc(repo, cls, pop))
                else:
                    rs.ok({"saved": "len(%s) -> %s" % (lst, bt), "restored": "%s = %s[:l]" % (lst, lst)})
            for bt in sorted(set(restored) - set(saved)):
                ctx.finding(rs, "%s.get_last_formula|restored-not-saved|%s" % (SCRIPT, bt),
                            "pop restores from %s which push never fills" % bt, method_loc(repo, cls, pop))
            # reset clears every state variable initialised before the loop
            init = []
            for s in fn.body:
                if isinstance(s, ast.For):
                    break
                if isinstance(s, (ast.Assign, ast.AnnAssign)):
                    t = s.targets[0] if isinstance(s, ast.Assign) else s.target
                    if isinstance(t, ast.Name) and isinstance(s.value, (ast.List, ast.Dict, ast.Call)):
                        init.append(t.id)
            cleared = [s.targets[0].id for s in reset.body if isinstance(s, ast.Assign) and isinstance(s.targets[0], ast.Name)]
            for v in init:
                if v in cleared:
                    rs.ok({"reset_clears": v})
                else:
                    ctx.finding(rs, "%s.get_last_formula|reset-keeps|%s" % (SCRIPT, v),
                                "reset-assertions does not clear '%s'" % v, method_loc(repo, cls, reset))
            # assert pushes on the stack list that is returned
            a = branches.get("ASSERT")
            apps = [c for c in calls_in(a) if attr_tail(c) == "append"] if a else []
            if apps and norm(apps[0]) == "stack.append(cmd.args[0])":
                rs.ok({"assert": norm(apps[0])})
            else:
                rs.unrec("assert branch: %s" % [norm(x) for x in apps])
        ctx.floor(rs, 6)

    if ctx.want("R2"):
        rs = ctx.rule("R2", "IncrementalTrackingSolver push/pop/reset bookkeeping")
        cls, push = repo.method(ITS, "push")
        cls, pop = repo.method(ITS, "pop")
        # push
        cfg = CFG(push)
        und = [n for n in cfg.nodes if n.ast is not None and n.kind == "stmt" and any(attr_tail(c) == "_push" for c in calls_in(n.ast))]
        lens = [n for n in cfg.nodes if n.ast is not None and n.kind == "stmt" and "len(self._assertion_stack)" in norm(n.ast)]
        if und and lens and all(cfg.dominated_by(l.id, lambda n: n.id == und[0].id) for l in lens):
            rs.ok({"push": "stack length read after _push (which clears a pending pop)"})
        else:
            ctx.finding(rs, "%s.push|point-before-_push" % ITS,
                        "the backtrack point is read before _push has run: a pending pop is not yet applied, "
                        "the recorded length includes the one-shot assertion", method_loc(repo, ITS, push))
        loops = [n for n in ast.walk(push) if isinstance(n, ast.For)]
        if len(loops) == 1 and norm(loops[0].iter) == "range(levels)" and \
                any(attr_tail(c) == "append" and "_backtrack_points" in norm(c.func) for c in calls_in(loops[0])):
            rs.ok({"push": "appends a backtrack point per level"})
        else:
            ctx.finding(rs, "%s.push|levels" % ITS, "push does not record one backtrack point per level",
                        method_loc(repo, ITS, push))
        lv = [c for c in calls_in(push) if attr_tail(c) == "_push"]
        if lv and ("levels" in norm(lv[0])):
            rs.ok({"push": norm(lv[0])})
        else:
            ctx.finding(rs, "%s.push|levels-not-forwarded" % ITS, "_push is not given `levels`", method_loc(repo, ITS, push))
        # pop
        loops = [n for n in ast.walk(pop) if isinstance(n, ast.For)]
        okp = False
        if len(loops) == 1 and norm(loops[0].iter) == "range(levels)":
            b = loops[0].body
            if len(b) == 2 and isinstance(b[0], ast.Assign) and norm(b[0].value) == "self._backtrack_points.pop()" and \
                    isinstance(b[1], ast.Assign) and norm(b[1].targets[0]) == "self._assertion_stack":
                var = norm(b[0].targets[0])
                if norm(b[1].value) in ("self._assertion_stack[0:%s]" % var, "self._assertion_stack[:%s]" % var):
                    okp = True
        if okp:
            rs.ok({"pop": "pops a point and truncates per level"})
        else:
            ctx.finding(rs, "%s.pop|levels" % ITS, "pop does not pop one backtrack point and truncate per level",
                        method_loc(repo, ITS, pop))
        lv = [c for c in calls_in(pop) if attr_tail(c) == "_pop"]
        if lv and ("levels" in norm(lv[0])):
            rs.ok({"pop": norm(lv[0])})
        else:
            ctx.finding(rs, "%s.pop|levels-not-forwarded" % ITS, "_pop is not given `levels`", method_loc(repo, ITS, pop))
        cls, rst = repo.method(ITS, "reset_assertions")
        if any(isinstance(s, ast.Assign) and norm(s.targets[0]) == "self._assertion_stack" and norm(s.value) in ("[]", "list()")
               for s in rst.body):
            rs.ok({"reset_assertions": "empties the assertion list"})
        else:
            ctx.finding(rs, "%s.reset_assertions|keeps" % ITS, "reset_assertions does not empty the assertion list",
                        method_loc(repo, ITS, rst))
        cls, add = repo.method(ITS, "add_assertion")
        apps = [c for c in calls_in(add) if attr_tail(c) == "append" and "_assertion_stack" in norm(c.func)]
        if len(apps) == 1:
            rs.ok({"add_assertion": norm(apps[0])})
        else:
            ctx.finding(rs, "%s.add_assertion|tracking" % ITS, "add_assertion does not append exactly once to the assertion list",
                        method_loc(repo, ITS, add))
        # `assertions` property must clear the pending pop before exposing the list
        cls, prop = repo.method(ITS, "assertions")
        if _has_decorator(prop, "clear_pending_pop"):
            rs.ok({"assertions": "@clear_pending_pop"})
        else:
            ctx.finding(rs, "%s.assertions|undecorated" % ITS,
                        "the assertions property exposes the list without applying a pending pop",
                        method_loc(repo, ITS, prop))
        ctx.floor(rs, 7)

    if ctx.want("R3"):
        rs = ctx.rule("R3", "deferred-pop discipline: stack methods of concrete solvers are decorated")
        concrete = []
        for q in repo.subclasses(SOLVER, strict=True):
            ci = repo.classes[q]
            if q == ITS:
                continue
            own_solve = ci.own_func("solve") or ci.own_func("_solve")
            if own_solve is None or _trivial_body(own_solve):
                continue
            concrete.append(q)
            for base in IFACE:
                for nm in (base, "_" + base):
                    f = ci.own_func(nm)
                    if f is None or _trivial_body(f):
                        continue
                    if _has_decorator(f, "clear_pending_pop"):
                        rs.ok({"class": q.split(".")[-1], "method": nm, "decorated": True})
                    else:
                        ctx.finding(rs, "%s.%s|undecorated" % (q, nm),
                                    "%s.%s touches the solver's assertion stack but is not @clear_pending_pop: after "
                                    "is_sat()/is_valid() the one-shot assertion is still in the native solver when this "
                                    "runs" % (q.split(".")[-1], nm), method_loc(repo, q, f))
        ctx.analysed["concrete_solver_classes"] = concrete
        # IncrementalTrackingSolver public methods: first effect is the decorated _method
        for nm in ("add_assertion", "push", "pop", "reset_assertions"):
            cls, f = repo.method(ITS, nm)
            first = None
            for st in f.body:
                if isinstance(st, ast.Expr) and isinstance(st.value, ast.Constant):
                    continue
                first = st
                break
            if first is not None and any(attr_tail(c) == "_" + nm for c in calls_in(first)):
                rs.ok({"class": "IncrementalTrackingSolver", "method": nm, "first_effect": "self._%s(...)" % nm})
            else:
                ctx.finding(rs, "%s.%s|bookkeeping-before-hook" % (ITS, nm),
                            "%s touches the tracking lists before calling the decorated _%s" % (nm, nm),
                            method_loc(repo, ITS, f))
        # is_sat arms pending_pop only after a successful push
        cls, f = repo.method(SOLVER, "is_sat")
        par = parents(f)
        arms = [n for n in ast.walk(f) if isinstance(n, ast.Assign) and norm(n.targets[0]) == "self.pending_pop"
                and isinstance(n.value, ast.Constant) and n.value.value is True]
        if len(arms) != 1:
            rs.unrec("is_sat: pending_pop arming not unique (%d)" % len(arms))
        else:
            cfg = CFG(f)
            node = [n for n in cfg.nodes if n.ast is arms[0]][0]
            pushn = lambda n: n.ast is not None and n.kind == "stmt" and any(attr_tail(c) == "push" for c in calls_in(n.ast))
            q = par.get(arms[0])
            in_else = isinstance(q, ast.If) and arms[0] in q.orelse and "use_solving_under_assumption" in norm(q.test)
            if cfg.dominated_by(node.id, pushn, follow=normal_only) and in_else:
                rs.ok({"is_sat": "pending_pop armed on the push path only"})
            else:
                ctx.finding(rs, "%s.is_sat|arming" % SOLVER,
                            "pending_pop is armed on a path without a successful push()", method_loc(repo, cls, arms[0]))
        # the decorator itself
        m, dec = repo.function("pysmt.decorators.clear_pending_pop")
        txt = norm(dec)
        if "if self.pending_pop:" in txt and "self.pending_pop = False" in txt and "self.pop()" in txt and \
                txt.index("self.pending_pop = False") < txt.index("self.pop()"):
            rs.ok({"clear_pending_pop": "clears the flag, then pops, then runs the method"})
        else:
            rs.unrec("clear_pending_pop body not in recognised form")
        ctx.floor(rs, 40)
