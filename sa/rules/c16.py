"""C16 -- scripts and incremental solvers track exactly the live assertions."""
import ast

from ..common import (get_repo, short, norm, CFG, normal_only, method_loc, calls_in, attr_tail,
                      is_self_attr, parents, names_in)

SOLVER = "pysmt.solvers.solver.Solver"
ITS = "pysmt.solvers.solver.IncrementalTrackingSolver"
SCRIPT = "pysmt.smtlib.script.SmtLibScript"

IFACE = ["add_assertion", "solve", "push", "pop", "reset_assertions"]

EXPLANATION = (
    "Abstract interpretation against an executable reference model of the SMT-LIB assertion stack.  Scripts: "
    "for every command sequence up to a bounded length over assert (2 formulas) | push 0/1/2 | pop 0/1/2 | "
    "reset-assertions | maximize | minimize | assert-soft (two ids, default and explicit weight) a "
    "SmtLibScript is built through the interpreted API and get_last_formula(return_optimizations=True) is "
    "interpreted: the formula must be the conjunction of the live assertions and the goals exactly the live "
    "objectives, soft clauses grouped by id and popped with their level (R1).  Incremental solvers: the real "
    "Solver / IncrementalTrackingSolver code and the real clear_pending_pop decorator are interpreted over a "
    "probe back-end (analysis-side class that models the native stack and logs what each solve sees); for "
    "every API sequence up to the bound over assert | push 0/1/2 | pop 0/1/2 | reset | solve | solve under "
    "assumptions | is_sat | is_valid | is_unsat, each solve sees exactly the live assertions (+ the one-shot "
    "formula), solver.assertions equals the live list at the end and, in a second pass, after every step, and "
    "the shortcuts return the truth the back-end's answer implies (R2).  Every concrete solver class of the "
    "package decorates each assertion-stack method it implements with @clear_pending_pop (R3).  Portfolio, a concrete tracking solver whose back-end needs no library, interpreted as an incremental solver: the formula each solve hands on is the conjunction of the live assertions (R4).  Ordering rule over every Solver subclass, native wrappers included: a method that has set pending_pop = True reaches no @clear_pending_pop method or property of the same object before it returns (R5, flow graph + resolved self-calls).  Every API sequence also ends with the solver used as a context manager: __exit__ lets an exception of the with-block through; push / pop are also called with the level count as a keyword.  The sequences with a one-shot query are repeated under four sets of solver options (generate_models off, a seed, unsat-core mode, solver_options): what the stack holds does not depend on them (part of R2).  Scripts evaluated on an incremental solver through SmtLibScript.evaluate, all command sequences up to length 4 over assert | push | pop | reset-assertions | check-sat plus directed ones: every check-sat is answered for the live assertions of the script, the solver ends with them, and they are what get_last_formula reports (R6).  Two solver objects of one class used alternately, all interleavings up to length 4: each reports and solves its own live assertions (R7).")
NOT_DECIDED = ["sequences longer than the bound (3 in the quick tier, 4 in the thorough tier)",
               "native solver bindings behind the converters (not installed; the probe stands for them)"]


def _trivial_body(f):
    body = [s for s in f.body if not (isinstance(s, ast.Expr) and isinstance(s.value, ast.Constant))]
    if not body:
        return True
    if len(body) == 1:
        s = body[0]
        if isinstance(s, ast.Pass):
            return True
        if isinstance(s, ast.Raise):
            return True
        if isinstance(s, ast.Return):
            if s.value is None or (isinstance(s.value, ast.Constant) and s.value.value is None):
                return True
            if isinstance(s.value, ast.Call) and isinstance(s.value.func, ast.Attribute) and \
                    isinstance(s.value.func.value, ast.Name) and s.value.func.value.id == "self":
                return True      # pure delegation
            if isinstance(s.value, ast.Constant):
                return True
    return False


def _has_decorator(f, name):
    for d in f.decorator_list:
        t = d.func if isinstance(d, ast.Call) else d
        if attr_tail(t) == name:
            return True
    return False


def _reaches_clear(repo, q, name, seen):
    """Does self.<name> (resolved through the MRO of q) run under @clear_pending_pop, or call - on self - something that does?"""
    if (q, name) in seen:
        return False
    seen.add((q, name))
    dc, f = repo.find_method(q, name)
    if f is None:
        return False
    if _has_decorator(f, "clear_pending_pop"):
        return True
    for c in calls_in(f):
        fn = c.func
        if isinstance(fn, ast.Attribute) and norm(fn.value) == "self" and _reaches_clear(repo, q, fn.attr, seen):
            return True
    for sub in ast.walk(f):
        if isinstance(sub, ast.Attribute) and norm(sub.value) == "self" and isinstance(sub.ctx, ast.Load) and sub.attr != name:
            dc2, f2 = repo.find_method(q, sub.attr)
            if f2 is not None and any(norm(d) == "property" for d in f2.decorator_list) and _has_decorator(f2, "clear_pending_pop"):
                return True
    return False


def run(ctx):
    repo = get_repo()
    ctx.analysed["modules"] = ["pysmt/smtlib/script.py", "pysmt/solvers/solver.py", "pysmt/decorators.py",
                               "every Solver subclass in pysmt/solvers, pysmt/smtlib/solver.py, pysmt/optimization"]

    if ctx.want("R1"):
        rs = ctx.rule("R1", "script replay: get_last_formula (with goals) against the reference assertion stack, all command sequences up to the bound")
        from . import solver_deep as sd
        res = sd.script_results(repo, ctx.tier)
        ctx.analysed["command_sequences"] = len(res)
        for seq, kind, problems in res:
            name = " ; ".join(sd.S_NAMES[x] for x in seq)
            if kind == "ok":
                rs.ok({"script": name})
            elif kind == "unsupported":
                rs.unrec("%s: %s" % (name, problems[0][:160]))
            elif kind == "raise":
                ctx.finding(rs, "script|%s|raises" % name, "script [%s]: get_last_formula raises %s" % (name, problems[0]),
                            "pysmt/smtlib/script.py")
            else:
                ctx.finding(rs, "script|%s" % name, "script [%s]: %s" % (name, problems[0]), "pysmt/smtlib/script.py")
        ctx.floor(rs, 1500)

    if ctx.want("R2"):
        rs = ctx.rule("R2", "incremental solver: every solve sees exactly the live assertions, one-shot queries leave the list as found, all API sequences up to the bound")
        from . import solver_deep as sd
        res = sd.its_results(repo, ctx.tier)
        ctx.analysed["api_sequences"] = len(res)
        for r_ in res:
            seq, kind, problems = r_[:3]
            name = " ; ".join(sd.NAMES[x] for x in seq) + ((" [solver options: %s]" % r_[3]) if len(r_) > 3 else "")
            if kind == "ok":
                rs.ok({"sequence": name})
            elif kind == "unsupported":
                rs.unrec("%s: %s" % (name, problems[0][:160]))
            else:
                ctx.finding(rs, "api|%s" % name, "after [%s]: %s" % (name, problems[0]), "pysmt/solvers/solver.py")
        ctx.floor(rs, 1500)

    if ctx.want("R7"):
        rs = ctx.rule("R7", "two solver objects used alternately: each tracks its own assertions and levels")
        from . import solver_deep as sd
        for seq, kind, problems in sd.pair_results(repo, ctx.tier):
            name = " ; ".join("solver %s %s" % (x[0], sd.NAMES.get(x[1], x[1])) for x in seq)
            if kind == "ok":
                rs.ok({"sequence": name})
            elif kind == "unsupported":
                rs.unrec("%s: %s" % (name, problems[0][:160]))
            else:
                ctx.finding(rs, "pair|%s" % ",".join(seq), "after [%s]: %s" % (name, problems[0]), "pysmt/solvers/solver.py")
        ctx.floor(rs, 500)

    if ctx.want("R6"):
        rs = ctx.rule("R6", "scripts evaluated on an incremental solver (SmtLibScript.evaluate): every check-sat is answered for the live "
                            "assertions of the script, and the solver ends with them")
        from . import solver_deep as sd
        for seq, kind, problems in sd.script_eval_results(repo, ctx.tier):
            name = " ; ".join(sd.E_NAMES[x] for x in seq)
            if kind == "ok":
                rs.ok({"script": name})
            elif kind == "unsupported":
                rs.unrec("%s: %s" % (name, problems[0][:160]))
            else:
                ctx.finding(rs, "evaluate|%s" % name, "script [%s] evaluated on a solver: %s" % (name, problems[0]), "pysmt/smtlib/script.py")
        ctx.floor(rs, 300)

    if ctx.want("R4"):
        rs = ctx.rule("R4", "a concrete tracking solver whose back-end needs no native library (Portfolio): the formula each solve hands on is the conjunction of the live assertions")
        from . import solver_deep as sd
        names = {"A1": "assert a|b", "A2": "assert !a", "P": "push", "O": "pop", "R": "reset_assertions", "S": "solve", "Q": "is_sat(c|a)"}
        for seq, kind, detail in sd.portfolio_stack_results(repo, ctx.tier):
            tag = " ; ".join(names[x] for x in seq)
            if kind == "ok":
                rs.ok({"calls": tag, "result": "every member process receives the conjunction of the live assertions"})
            elif kind == "unsupported":
                rs.unrec("%s: %s" % (tag, detail[:160]))
            else:
                ctx.finding(rs, "portfolio-stack|%s" % ",".join(seq), "%s: %s" % (tag, detail), "pysmt/solvers/portfolio.py")
        ctx.floor(rs, 8)

    if ctx.want("R5"):
        # Ordering rule, over every Solver subclass (native wrappers included - their back-ends cannot be interpreted):
        # once a method has set `self.pending_pop = True` (the level it pushed is to be popped by the NEXT command), it
        # must not itself reach - directly or through other methods of the object - a method or property under
        # @clear_pending_pop before it returns: that call would execute the deferred pop at once, under the feet of the
        # method, and whatever it asserts afterwards stays asserted at the caller's level.
        rs = ctx.rule("R5", "a method that defers a pop (pending_pop = True) reaches no @clear_pending_pop method of the same object afterwards")
        n_sites = 0
        for q in [SOLVER] + list(repo.subclasses(SOLVER, strict=True)):
            ci = repo.classes[q]
            for nm in ci.order:
                f = ci.own_func(nm)
                if f is None:
                    continue
                sets = [st for st in ast.walk(f) if isinstance(st, ast.Assign) and any(norm(t) == "self.pending_pop" for t in st.targets)
                        and isinstance(st.value, ast.Constant) and st.value.value is True]
                if not sets:
                    continue
                cfg = CFG(f)
                for st in sets:
                    n_sites += 1
                    src = [n for n in cfg.nodes if n.ast is st]
                    if not src:
                        rs.unrec("%s.%s: assignment not found in the flow graph" % (q, nm))
                        continue
                    after = cfg.reachable(src[0].id)
                    after.discard(src[0].id)
                    hit = None
                    for nid in sorted(after):
                        node = cfg.nodes[nid]
                        if node.ast is None or node.kind in ("entry", "return_exit", "raise_exit"):
                            continue
                        tops = [node.ast] if not isinstance(node.ast, (ast.If, ast.While, ast.For, ast.Try, ast.With)) else \
                               [getattr(node.ast, "test", None) or getattr(node.ast, "iter", None)]
                        for top in tops:
                            if top is None:
                                continue
                            for sub in ast.walk(top):
                                name = None
                                if isinstance(sub, ast.Call) and isinstance(sub.func, ast.Attribute) and norm(sub.func.value) == "self":
                                    name = sub.func.attr
                                elif isinstance(sub, ast.Attribute) and norm(sub.value) == "self" and isinstance(sub.ctx, ast.Load):
                                    name = sub.attr
                                if name and _reaches_clear(repo, q, name, set()):
                                    hit = (name, sub)
                                    break
                            if hit:
                                break
                        if hit:
                            break
                    if hit:
                        ctx.finding(rs, "%s.%s|after-pending|%s" % (q, nm, hit[0]),
                                    "%s.%s sets pending_pop = True and then reaches self.%s, which runs under @clear_pending_pop: the level just "
                                    "pushed is popped at once and what is asserted afterwards stays at the caller's level"
                                    % (q.split(".")[-1], nm, hit[0]), method_loc(repo, q, hit[1]))
                    else:
                        rs.ok({"method": "%s.%s" % (q.split(".")[-1], nm), "after pending_pop = True": "no @clear_pending_pop method reached"})
        # positive control
        ctl_src = "class X:\n def m(self):\n  self.push()\n  self.pending_pop = True\n  self.add_assertion(1)\n"
        ctl = ast.parse(ctl_src).body[0].body[0]
        ccfg = CFG(ctl)
        cst = [n for n in ccfg.nodes if isinstance(n.ast, ast.Assign)][0]
        rs.control = any(isinstance(ccfg.nodes[i].ast, ast.Expr) and "add_assertion" in ast.unparse(ccfg.nodes[i].ast) for i in ccfg.reachable(cst.id))
        if not rs.control:
            ctx.error("R5", "positive control not matched")
        ctx.analysed["pending_pop_sites"] = n_sites
        ctx.floor(rs, 6)

    if ctx.want("R3"):
        rs = ctx.rule("R3", "deferred-pop discipline: stack methods of concrete solvers are decorated")
        concrete = []
        for q in repo.subclasses(SOLVER, strict=True):
            ci = repo.classes[q]
            if q == ITS:
                continue
            own_solve = ci.own_func("solve") or ci.own_func("_solve")
            if own_solve is None or _trivial_body(own_solve):
                continue
            concrete.append(q)
            for base in IFACE:
                for nm in (base, "_" + base):
                    f = ci.own_func(nm)
                    if f is None or _trivial_body(f):
                        continue
                    if _has_decorator(f, "clear_pending_pop"):
                        rs.ok({"class": q.split(".")[-1], "method": nm, "decorated": True})
                    else:
                        ctx.finding(rs, "%s.%s|undecorated" % (q, nm),
                                    "%s.%s touches the solver's assertion stack but is not @clear_pending_pop: after "
                                    "is_sat()/is_valid() the one-shot assertion is still in the native solver when this "
                                    "runs" % (q.split(".")[-1], nm), method_loc(repo, q, f))
        ctx.analysed["concrete_solver_classes"] = concrete
        ctx.floor(rs, 40)
