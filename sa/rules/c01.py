"""C01 -- Simplification preserves type and meaning (see DESIGN.md section 4, C01)."""
import ast

from ..common import (dispatch_rule, handler_funcs, get_repo, get_ops, get_tables, short, norm,
                      method_loc, attr_tail, calls_in)

SIMPLIFIER = "pysmt.simplifier.Simplifier"

EXPLANATION = (
    "Static analysis of pysmt/simplifier.py: exhaustive operator dispatch of Simplifier (R1); "
    "exact arithmetic on folding paths - no float()/math.*/float literals (R5); no call path from a "
    "handler to a symbol-creating constructor (R9).  Abstract interpretation: every handler is interpreted on "
    "operand configurations (constant vs symbol vs same operand vs negated / nested operand; all Boolean, arithmetic, "
    "bit-vector operators incl. the signed ones, constants symbolic; bit-string folds at widths 1-4; string folds): "
    "each extracted rewrite rule / constant fold is valid against the independent reference semantics over small "
    "domains (R3), no handler raises on well-typed operands (R3r), the result has the sort of the formula (R8).  "
    "Array folds on ~150 terms: constant arrays with explicit entries, stores / selects at constant and symbolic "
    "indices, equalities between array values over Int and over finite index sorts, bound variables that occur only "
    "inside an array value, two simplifications in one environment (R4).  Two real environments: the simplifier of the "
    "second (quantifier pruning included) answers the same whether or not the first worked on nodes with the same ids "
    "(R6).  Whole terms on the real manager - Simplifier.simplify interpreted together with the real FormulaManager whose constructors "
    "the handlers rebuild nodes through: ~2400 composed skeletons outer(disguise(inner)) whose operand becomes an inner-application only "
    "through simplification (bit-vector, Boolean, Int and Real operators), stores of the default element over array values at symbolic "
    "indices, quantifier alternations and nests: the result denotes what the input denotes (R7).")
NOT_DECIDED = [
    "operand configurations and array terms outside the menus (the evidence lists them)",
    "arithmetic shift right at symbolic width; quantifier pruning beyond the skeletons of R3 / R6",
    "anything quantified over interpretations as such: values are compared over small domains per extracted rule",
]

# functions of the math module that are exact on int / Fraction operands
EXACT_MATH = {"gcd", "lcm", "isqrt", "factorial", "comb", "perm", "floor", "ceil", "trunc"}
SYMBOL_CTORS = {"Symbol", "FreshSymbol", "new_fresh_symbol", "get_or_create_symbol", "_create_symbol"}


def class_closure(repo, qual, roots):
    """Functions of class `qual` (through MRO) reachable from the root FunctionDefs via
    self.<m>(...) calls.  Returns dict (cls, name) -> FunctionDef."""
    seen = {}
    work = list(roots)
    while work:
        cls, f = work.pop()
        if (cls, f.name) in seen:
            continue
        seen[(cls, f.name)] = f
        for c in calls_in(f):
            fn = c.func
            if isinstance(fn, ast.Attribute) and isinstance(fn.value, ast.Name) and fn.value.id == "self":
                dc, df = repo.find_method(qual, fn.attr)
                if df is not None:
                    work.append((dc, df))
    return seen


def run(ctx):
    repo, ops, ht = get_repo(), get_ops(), get_tables()
    ctx.analysed["modules"] = ["pysmt/simplifier.py", "pysmt/fnode.py", "pysmt/formula.py", "pysmt/utils.py"]
    groups = handler_funcs(SIMPLIFIER)
    ctx.analysed["handlers"] = len(groups)

    if ctx.want("R1"):
        rs = ctx.rule("R1", "exhaustive dispatch of Simplifier")
        dispatch_rule(ctx, rs, SIMPLIFIER)
        rs.exhaustive = True
        ctx.floor(rs, 60)

    closure = class_closure(repo, SIMPLIFIER, [(h.cls, h.func) for h, _ in groups])

    if ctx.want("R5"):
        rs = ctx.rule("R5", "exact arithmetic on folding paths (no float / math.* / float literal)")
        for (cls, name), f in sorted(closure.items()):
            if cls != SIMPLIFIER and not cls.startswith("pysmt.simplifier"):
                continue
            kinds = {}
            for n in ast.walk(f):
                if isinstance(n, ast.Call):
                    fn = n.func
                    if isinstance(fn, ast.Name) and fn.id == "float":
                        kinds.setdefault("float()", n)
                    elif isinstance(fn, ast.Attribute) and isinstance(fn.value, ast.Name) and fn.value.id == "math" \
                            and fn.attr not in EXACT_MATH:
                        kinds.setdefault("math.%s" % fn.attr, n)
                elif isinstance(n, ast.Constant) and isinstance(n.value, float):
                    kinds.setdefault("float-literal", n)
            if not kinds:
                rs.ok({"handler": name, "verdict": "no inexact arithmetic"})
            for k, n in sorted(kinds.items()):
                ctx.finding(rs, "%s.%s|%s" % (cls, name, k),
                            "%s in %s: constant folding goes through binary floating point, the "
                            "result is inexact for large operands (%s)" % (k, name, short(n)),
                            method_loc(repo, cls, n))
        ctx.floor(rs, 40)

    if ctx.want("R9"):
        rs = ctx.rule("R9", "no handler reaches a symbol-creating constructor")
        for (cls, name), f in sorted(closure.items()):
            bad = [c for c in calls_in(f) if attr_tail(c) in SYMBOL_CTORS]
            if bad:
                for c in bad:
                    ctx.finding(rs, "%s.%s|%s" % (cls, name, attr_tail(c)),
                                "%s calls %s: simplification may introduce a symbol that is not "
                                "free in the input" % (name, short(c)), method_loc(repo, cls, c))
            else:
                rs.ok({"handler": name, "symbol_ctor_calls": 0})
        # positive control: the rule must see a symbol constructor call when there is one
        ctl = ast.parse("def walk_x(self, formula, args):\n    return self.manager.FreshSymbol()").body[0]
        rs.control = any(attr_tail(c) in SYMBOL_CTORS for c in calls_in(ctl))
        if not rs.control:
            ctx.error("R9", "positive control not matched")
        ctx.floor(rs, 40)

    if ctx.want("R6"):
        rs = ctx.rule("R6", "real managers: the simplifier of a second environment (quantifier pruning included) answers the same whether or not the first environment worked on nodes with the same ids before")
        from . import mgr_deep
        mgr_deep.report(ctx, rs, [r for r in mgr_deep.xenv_results() if "ForAll" in r[1] or "Exists" in r[1] or r[0] != "ok"], "pysmt/simplifier.py", 4)

    from . import c01_deep
    c01_deep.run(ctx)
    from . import c01_arrays
    c01_arrays.run(ctx)
    from . import c01_real
    c01_real.run(ctx)
