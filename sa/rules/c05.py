"""C05 -- substitution lemma and documented replacement order."""
import ast

from ..common import (get_repo, get_ops, get_tables, short, norm, CFG, normal_only, method_loc,
                      calls_in, attr_tail, parents, dispatch_rule, names_in, kwarg,
                      class_instantiations)

SUB = "pysmt.substituter.Substituter"
MG = "pysmt.substituter.MGSubstituter"
MS = "pysmt.substituter.MSSubstituter"
FI = "pysmt.substituter.FunctionInterpretation"

EXPLANATION = (
    "Static analysis of pysmt/substituter.py: when entering a quantifier the map handed to the body "
    "is obtained by a filter whose condition, in set-relational normal form, is "
    "disjoint(free-variables(key), bound variables), and the unfiltered map does not reach the "
    "recursive call (R1); bound variables are rebuilt, not looked up (R2); MGS looks the original "
    "node up before rebuilding, MSS looks the rebuilt node up (R3, key provenance); exhaustive "
    "dispatch (R4); function interpretations are applied by function name with rewritten arguments "
    "and formals zipped in order with an arity check (R5); one-shot memo and fresh instance under a "
    "reduced map (R6).")
NOT_DECIDED = ["the substitution lemma itself (values under updated interpretations)",
               "capture by replacement terms (excluded by the property's proviso)"]


def setrel(test, env):
    """Normalise a membership condition to ('disjoint'|'subset'|'not-disjoint'|'not-subset', F, Q)
    where F and Q are normalised source texts of the two collections; None if unrecognised.
    env maps local names to their defining expressions (aliases)."""
    def res(n):
        if isinstance(n, ast.Name) and n.id in env:
            return res(env[n.id])
        return norm(n)
    neg = False
    while isinstance(test, ast.UnaryOp) and isinstance(test.op, ast.Not):
        neg = not neg
        test = test.operand
    out = None
    if isinstance(test, ast.Call) and isinstance(test.func, ast.Name) and test.func.id in ("all", "any") \
            and len(test.args) == 1 and isinstance(test.args[0], (ast.GeneratorExp, ast.ListComp)):
        g = test.args[0]
        if len(g.generators) == 1 and not g.generators[0].ifs and isinstance(g.generators[0].target, ast.Name):
            var = g.generators[0].target.id
            F = g.generators[0].iter
            e = g.elt
            eneg = False
            while isinstance(e, ast.UnaryOp) and isinstance(e.op, ast.Not):
                eneg = not eneg
                e = e.operand
            if isinstance(e, ast.Compare) and len(e.ops) == 1 and isinstance(e.left, ast.Name) and e.left.id == var:
                isin = isinstance(e.ops[0], ast.In)
                if isinstance(e.ops[0], (ast.In, ast.NotIn)):
                    member = isin != eneg      # element condition is "m in Q"?
                    Q = e.comparators[0]
                    if test.func.id == "all":
                        out = ("subset" if member else "disjoint", res(F), res(Q))
                    else:
                        out = ("not-disjoint" if member else "not-subset", res(F), res(Q))
    elif isinstance(test, ast.Call) and isinstance(test.func, ast.Attribute) and test.func.attr == "isdisjoint" \
            and len(test.args) == 1:
        out = ("disjoint", res(test.func.value), res(test.args[0]))
    elif isinstance(test, ast.BinOp) and isinstance(test.op, ast.BitAnd):
        out = ("not-disjoint", res(test.left), res(test.right))
    if out is None:
        return None
    if neg:
        flip = {"disjoint": "not-disjoint", "not-disjoint": "disjoint", "subset": "not-subset", "not-subset": "subset"}
        out = (flip[out[0]], out[1], out[2])
    return out


def strip_set(txt):
    for w in ("set(", "frozenset(", "list(", "tuple("):
        if txt.startswith(w) and txt.endswith(")"):
            return txt[len(w):-1]
    return txt


def run(ctx):
    repo = get_repo()
    ctx.analysed["modules"] = ["pysmt/substituter.py", "pysmt/walkers/identitydag.py", "pysmt/walkers/dag.py"]

    if ctx.want("R1"):
        rs = ctx.rule("R1", "binder filter: disjoint(fv(key), bound vars); unfiltered map not forwarded")
        cls, fn = repo.method(SUB, "_push_with_children_to_stack")
        env = {}
        for n in ast.walk(fn):
            if isinstance(n, ast.Assign) and len(n.targets) == 1 and isinstance(n.targets[0], ast.Name):
                env.setdefault(n.targets[0].id, n.value)
        # find the loop / comprehension over <map>.items()
        found = False
        filt_var = None
        for n in ast.walk(fn):
            key = val = cond = src = None
            if isinstance(n, ast.For) and isinstance(n.iter, ast.Call) and attr_tail(n.iter) == "items" \
                    and isinstance(n.target, ast.Tuple) and len(n.target.elts) == 2:
                key, val = n.target.elts[0].id, n.target.elts[1].id
                src = norm(n.iter.func.value)
                ifs = [s for s in n.body if isinstance(s, ast.If)]
                if len(ifs) == 1 and len(n.body) == 1:
                    cond = ifs[0].test
                    st = [s for s in ifs[0].body if isinstance(s, ast.Assign) and isinstance(s.targets[0], ast.Subscript)]
                    if st and isinstance(st[0].targets[0].value, ast.Name):
                        filt_var = st[0].targets[0].value.id
                        if not (norm(st[0].targets[0].slice) == key and norm(st[0].value) == val):
                            ctx.finding(rs, "%s._push_with_children_to_stack|filter-copy" % SUB,
                                        "filtered map entry is %s, not key->value of the original map"
                                        % norm(st[0]), method_loc(repo, cls, st[0]))
            elif isinstance(n, ast.DictComp) and len(n.generators) == 1 and \
                    isinstance(n.generators[0].iter, ast.Call) and attr_tail(n.generators[0].iter) == "items" \
                    and isinstance(n.generators[0].target, ast.Tuple):
                g = n.generators[0]
                key, val = g.target.elts[0].id, g.target.elts[1].id
                src = norm(g.iter.func.value)
                if len(g.ifs) == 1:
                    cond = g.ifs[0]
                for a, v in env.items():
                    if v is n:
                        filt_var = a
            if key is None:
                continue
            if strip_set(src) not in ("substitutions", 'kwargs["substitutions"]', "kwargs['substitutions']") and \
                    not (src in env and "substitutions" in norm(env[src])):
                continue
            found = True
            if cond is None:
                ctx.finding(rs, "%s._push_with_children_to_stack|no-filter" % SUB,
                            "the substitution map is copied for the quantifier body without any "
                            "filter on bound variables", method_loc(repo, cls, n))
                continue
            env2 = dict(env)
            rel = setrel(cond, env2)
            if rel is None:
                rs.unrec("binder filter condition not in a recognised form: %s" % short(cond))
                continue
            kind, F, Q = rel
            F, Q = strip_set(F), strip_set(Q)
            fv_ok = F == "%s.get_free_variables()" % key
            q_ok = Q == "formula.quantifier_vars()"
            # symmetric relations may have operands swapped
            if kind in ("disjoint", "not-disjoint") and not (fv_ok and q_ok):
                if Q == "%s.get_free_variables()" % key and F == "formula.quantifier_vars()":
                    fv_ok = q_ok = True
            if kind == "disjoint" and fv_ok and q_ok:
                rs.ok({"filter": norm(cond), "normal_form": "disjoint(fv(%s), qvars)" % key})
            else:
                ctx.finding(rs, "%s._push_with_children_to_stack|filter-relation" % SUB,
                            "binder filter is %s(%s, %s); only disjoint(fv(key), formula.quantifier_vars()) "
                            "keeps bound occurrences from being replaced" % (kind, F, Q),
                            method_loc(repo, cls, cond))
        if not found:
            rs.unrec("no loop over the substitution map found in _push_with_children_to_stack")
        # the recursive call receives the filtered map
        for c in calls_in(fn):
            if attr_tail(c) == "substitute":
                a = kwarg(c, "subs", 1)
                if a is None:
                    rs.unrec("recursive substitute call without subs argument")
                elif isinstance(a, ast.Name) and filt_var and a.id == filt_var:
                    rs.ok({"recursive_call_map": a.id})
                else:
                    ctx.finding(rs, "%s._push_with_children_to_stack|unfiltered-forwarded" % SUB,
                                "the quantifier body is substituted with %s, not the filtered map %s"
                                % (norm(a), filt_var), method_loc(repo, cls, c))
                b = c.args[0] if c.args else kwarg(c, "formula")
                if b is not None and norm(b) != "formula.arg(0)":
                    ctx.finding(rs, "%s._push_with_children_to_stack|body" % SUB,
                                "recursive substitution applied to %s instead of the quantifier body" % norm(b),
                                method_loc(repo, cls, c))
        # quantifier test guards the special path
        ifs = [s for s in fn.body if isinstance(s, ast.If)]
        if ifs and norm(ifs[0].test) == "formula.is_quantifier()":
            rs.ok({"guard": "formula.is_quantifier()"})
        else:
            rs.unrec("top-level quantifier guard not recognised")
        ctx.floor(rs, 3)

    if ctx.want("R2"):
        rs = ctx.rule("R2", "bound variables are rebuilt, never looked up in the map")
        for q in (MG, MS):
            for w in ("walk_forall", "walk_exists"):
                cls, f = repo.find_method(q, w)
                if f is None:
                    ctx.error("R2", "%s.%s vanished" % (q, w))
                    continue
                ctor_calls = [c for c in calls_in(f) if attr_tail(c) in ("ForAll", "Exists")]
                if len(ctor_calls) != 1:
                    rs.unrec("%s.%s: quantifier constructor call not unique" % (q, w))
                    continue
                c = ctor_calls[0]
                exp = "ForAll" if w == "walk_forall" else "Exists"
                if attr_tail(c) != exp:
                    ctx.finding(rs, "%s.%s|wrong-quantifier" % (q, w),
                                "%s rebuilds with %s" % (w, attr_tail(c)), method_loc(repo, cls, c))
                    continue
                vexpr = c.args[0]
                src = vexpr
                if isinstance(vexpr, ast.Name):
                    for n in ast.walk(f):
                        if isinstance(n, ast.Assign) and isinstance(n.targets[0], ast.Name) and n.targets[0].id == vexpr.id:
                            src = n.value
                txt = norm(src)
                if "substitutions" in names_in(src) or "_substitute" in txt:
                    ctx.finding(rs, "%s.%s|qvars-looked-up" % (q, w),
                                "bound variables of %s depend on the substitution map: %s" % (w, short(src)),
                                method_loc(repo, cls, src))
                elif "formula.quantifier_vars()" in txt:
                    rs.ok({"class": q.split(".")[-1], "handler": w, "qvars": short(src)})
                else:
                    rs.unrec("%s.%s: variable list %s" % (q, w, short(src)))
                if norm(c.args[1]) != "args[0]":
                    ctx.finding(rs, "%s.%s|body" % (q, w), "quantifier body is %s, not the rewritten body args[0]"
                                % norm(c.args[1]), method_loc(repo, cls, c))
        ctx.floor(rs, 4)

    if ctx.want("R3"):
        rs = ctx.rule("R3", "lookup order: MGS original-before-rebuild, MSS rebuilt-then-lookup")
        # MGS
        for w in ("walk_identity_or_replace", "walk_forall", "walk_exists"):
            cls, f = repo.find_method(MG, w)
            if f is None:
                rs.unrec("MGSubstituter.%s not found" % w)
                continue
            gets = [c for c in calls_in(f) if attr_tail(c) == "get" and "substitutions" in norm(c.func)]
            if len(gets) != 1:
                rs.unrec("MGSubstituter.%s: lookup not recognised" % w)
                continue
            g = gets[0]
            if norm(g.args[0]) != "formula":
                ctx.finding(rs, "%s.%s|lookup-key" % (MG, w),
                            "most-general substitution looks up %s, not the original node" % norm(g.args[0]),
                            method_loc(repo, cls, g))
                continue
            # rebuild only on miss
            ifs = [n for n in ast.walk(f) if isinstance(n, ast.If)]
            miss = [i for i in ifs if norm(i.test) in ("res is None", "res == None")]
            rebuilds = [c for c in calls_in(f) if attr_tail(c) in ("super", "ForAll", "Exists")]
            inside = miss and all(any(c is x for x in ast.walk(miss[0])) for c in rebuilds)
            if miss and inside and rebuilds:
                rs.ok({"class": "MGSubstituter", "handler": w, "lookup": "substitutions.get(formula)", "rebuild": "on miss"})
            else:
                ctx.finding(rs, "%s.%s|rebuild-unconditional" % (MG, w),
                            "rebuild is not conditional on a lookup miss", method_loc(repo, cls, f))
        # MSS
        for w in ("walk_replace", "walk_forall", "walk_exists"):
            cls, f = repo.find_method(MS, w)
            if f is None:
                rs.unrec("MSSubstituter.%s not found" % w)
                continue
            subs = [c for c in calls_in(f) if attr_tail(c) == "_substitute"]
            if len(subs) != 1:
                rs.unrec("MSSubstituter.%s: lookup not recognised" % w)
                continue
            a = subs[0].args[0]
            src = None
            if isinstance(a, ast.Name):
                for n in ast.walk(f):
                    if isinstance(n, ast.Assign) and isinstance(n.targets[0], ast.Name) and n.targets[0].id == a.id:
                        src = n.value
            if src is not None and isinstance(src, ast.Call) and attr_tail(src) in ("super", "ForAll", "Exists"):
                rs.ok({"class": "MSSubstituter", "handler": w, "lookup_key": "rebuilt node (%s)" % short(src, 40)})
            else:
                ctx.finding(rs, "%s.%s|lookup-key" % (MS, w),
                            "most-specific substitution looks up %s, not the rebuilt node" % norm(a),
                            method_loc(repo, cls, subs[0]))
        cls, f = repo.find_method(MS, "_substitute")
        if f is not None:
            rets = [n for n in ast.walk(f) if isinstance(n, ast.Return)]
            if len(rets) == 1 and norm(rets[0].value) == "substitutions.get(formula, formula)":
                rs.ok({"_substitute": norm(rets[0].value)})
            else:
                rs.unrec("_substitute body: %s" % [short(r) for r in rets])
        ctx.floor(rs, 6)

    if ctx.want("R4"):
        rs = ctx.rule("R4", "exhaustive dispatch of both substituters")
        dispatch_rule(ctx, rs, MG)
        dispatch_rule(ctx, rs, MS)
        ctx.floor(rs, 120)

    if ctx.want("R5"):
        rs = ctx.rule("R5", "function interpretations: by name, rewritten args, formals zipped in order")
        cls, f = repo.method(SUB, "walk_function")
        txt = norm(f)
        ok1 = "formula.function_name()" in txt
        interp = [c for c in calls_in(f) if attr_tail(c) == "interpret"]
        if ok1 and len(interp) == 1 and len(interp[0].args) == 2 and norm(interp[0].args[1]) == "args":
            rs.ok({"walk_function": short(interp[0])})
        elif len(interp) == 1 and len(interp[0].args) == 2:
            ctx.finding(rs, "%s.walk_function|interpret-args" % SUB,
                        "interpretation instantiated with %s instead of the rewritten arguments" % norm(interp[0].args[1]),
                        method_loc(repo, cls, interp[0]))
        else:
            rs.unrec("walk_function: interpret call not recognised")
        cls, f = repo.method(FI, "interpret")
        zips = [c for c in calls_in(f) if attr_tail(c) == "zip"]
        if len(zips) == 1 and [norm(a) for a in zips[0].args] == ["self.formal_params", "actual_params"]:
            rs.ok({"interpret": "dict(zip(formal_params, actual_params))"})
        elif zips:
            ctx.finding(rs, "%s.interpret|zip-order" % FI,
                        "formals/actuals zipped as %s" % norm(zips[0]), method_loc(repo, cls, zips[0]))
        else:
            rs.unrec("interpret: zip not found")
        lens = [n for n in ast.walk(f) if isinstance(n, ast.If) and "len(" in norm(n.test)]
        if lens and any(isinstance(s, ast.Raise) for s in lens[0].body) and "!=" in norm(lens[0].test):
            rs.ok({"arity_check": norm(lens[0].test)})
        else:
            ctx.finding(rs, "%s.interpret|arity" % FI, "no arity check raising on mismatch",
                        method_loc(repo, cls, f))
        sub = [c for c in calls_in(f) if attr_tail(c) == "substitute"]
        if sub and norm(sub[0].args[0]) == "self.function_body":
            rs.ok({"instantiates": "self.function_body"})
        else:
            rs.unrec("interpret: body substitution not recognised")
        ctx.floor(rs, 4)

    if ctx.want("R6"):
        rs = ctx.rule("R6", "one-shot memo for kwargs-insensitive keys; fresh instance under reduced map")
        cls, init = repo.method(SUB, "__init__")
        good = False
        for c in calls_in(init):
            if attr_tail(c) == "__init__":
                v = kwarg(c, "invalidate_memoization")
                if v is not None and isinstance(v, ast.Constant) and v.value is True:
                    good = True
        cls2, gk = repo.find_method(SUB, "_get_key")
        drops = gk is not None and all(norm(r.value) == "formula" for r in ast.walk(gk) if isinstance(r, ast.Return))
        if drops and good:
            rs.ok({"_get_key": "formula only", "invalidate_memoization": True})
        elif drops:
            ctx.finding(rs, "%s.__init__|memo-not-one-shot" % SUB,
                        "Substituter memoises by formula only but does not invalidate the memo after each walk: "
                        "a second substitute() with another map returns stale results",
                        method_loc(repo, cls, init))
        else:
            rs.ok({"_get_key": "includes kwargs"})
        cls, fn = repo.method(SUB, "_push_with_children_to_stack")
        fresh = [c for c in calls_in(fn) if norm(c.func) in ("self.__class__", "type(self)")]
        rec = [c for c in calls_in(fn) if attr_tail(c) == "substitute"]
        if rec:
            recv = rec[0].func.value
            if isinstance(recv, ast.Name) and fresh and any(
                    isinstance(n, ast.Assign) and isinstance(n.targets[0], ast.Name) and n.targets[0].id == recv.id
                    and n.value in fresh for n in ast.walk(fn)):
                rs.ok({"quantifier_body": "substituted by a new %s instance" % norm(fresh[0].func)})
            elif norm(recv) == "self":
                ctx.finding(rs, "%s._push_with_children_to_stack|same-instance" % SUB,
                            "the quantifier body is substituted with the same walker instance under a reduced "
                            "map: memoised results for the outer map are reused", method_loc(repo, cls, rec[0]))
            else:
                rs.unrec("receiver of recursive substitute: %s" % norm(recv))
        ctx.floor(rs, 2)

    from . import c05_deep
    c05_deep.run(ctx)
