"""C05 -- substitution lemma and documented replacement order."""
import ast

from ..common import (get_repo, get_ops, get_tables, short, norm, CFG, normal_only, method_loc,
                      calls_in, attr_tail, parents, dispatch_rule, names_in, kwarg,
                      class_instantiations)

SUB = "pysmt.substituter.Substituter"
MG = "pysmt.substituter.MGSubstituter"
MS = "pysmt.substituter.MSSubstituter"
FI = "pysmt.substituter.FunctionInterpretation"

EXPLANATION = (
    "Abstract interpretation of pysmt/substituter.py (with the DagWalker machinery it inherits): both "
    "substituters are interpreted from source on (formula skeleton, map) pairs and the result is compared "
    "with the documented replacement computed by an independent reference - most-general: look the "
    "original node up, else rebuild from the rewritten children; most-specific: rebuild, then look the "
    "rebuilt node up; under a binder keys mentioning a bound variable are dropped and bound variables are "
    "never replaced - and, for symbol maps, with the substitution lemma by exhaustive valuation; function "
    "interpretations are compared with body[formals := rewritten actuals] (R7).  Exhaustive dispatch of "
    "both substituters over the operator universe (R4).  One instance asked again under another map "
    "answers like a fresh instance (R6).  The public wrappers (pysmt.shortcuts.substitute, FNode.substitute) called with interpretations only - no map, None, "
    "an empty map - apply the interpretations (part of R7); a result whose quantifier binds something that is not a variable is reported as ill-formed.")
NOT_DECIDED = ["the substitution lemma itself (values under updated interpretations)",
               "capture by replacement terms (excluded by the property's proviso)"]


def setrel(test, env):
    """Normalise a membership condition to ('disjoint'|'subset'|'not-disjoint'|'not-subset', F, Q)
    where F and Q are normalised source texts of the two collections; None if unrecognised.
    env maps local names to their defining expressions (aliases)."""
    def res(n):
        if isinstance(n, ast.Name) and n.id in env:
            return res(env[n.id])
        return norm(n)
    neg = False
    while isinstance(test, ast.UnaryOp) and isinstance(test.op, ast.Not):
        neg = not neg
        test = test.operand
    out = None
    if isinstance(test, ast.Call) and isinstance(test.func, ast.Name) and test.func.id in ("all", "any") \
            and len(test.args) == 1 and isinstance(test.args[0], (ast.GeneratorExp, ast.ListComp)):
        g = test.args[0]
        if len(g.generators) == 1 and not g.generators[0].ifs and isinstance(g.generators[0].target, ast.Name):
            var = g.generators[0].target.id
            F = g.generators[0].iter
            e = g.elt
            eneg = False
            while isinstance(e, ast.UnaryOp) and isinstance(e.op, ast.Not):
                eneg = not eneg
                e = e.operand
            if isinstance(e, ast.Compare) and len(e.ops) == 1 and isinstance(e.left, ast.Name) and e.left.id == var:
                isin = isinstance(e.ops[0], ast.In)
                if isinstance(e.ops[0], (ast.In, ast.NotIn)):
                    member = isin != eneg      # element condition is "m in Q"?
                    Q = e.comparators[0]
                    if test.func.id == "all":
                        out = ("subset" if member else "disjoint", res(F), res(Q))
                    else:
                        out = ("not-disjoint" if member else "not-subset", res(F), res(Q))
    elif isinstance(test, ast.Call) and isinstance(test.func, ast.Attribute) and test.func.attr == "isdisjoint" \
            and len(test.args) == 1:
        out = ("disjoint", res(test.func.value), res(test.args[0]))
    elif isinstance(test, ast.BinOp) and isinstance(test.op, ast.BitAnd):
        out = ("not-disjoint", res(test.left), res(test.right))
    if out is None:
        return None
    if neg:
        flip = {"disjoint": "not-disjoint", "not-disjoint": "disjoint", "subset": "not-subset", "not-subset": "subset"}
        out = (flip[out[0]], out[1], out[2])
    return out


def strip_set(txt):
    for w in ("set(", "frozenset(", "list(", "tuple("):
        if txt.startswith(w) and txt.endswith(")"):
            return txt[len(w):-1]
    return txt


def run(ctx):
    repo = get_repo()
    ctx.analysed["modules"] = ["pysmt/substituter.py", "pysmt/walkers/identitydag.py", "pysmt/walkers/dag.py"]

    if ctx.want("R4"):
        rs = ctx.rule("R4", "exhaustive dispatch of both substituters")
        dispatch_rule(ctx, rs, MG)
        dispatch_rule(ctx, rs, MS)
        ctx.floor(rs, 120)

    if ctx.want("R6"):
        rs = ctx.rule("R6", "one walker instance asked again under another map answers like a fresh one (no stale memo)")
        from . import walk_deep as wd
        res, _others, _t = wd.results(repo, ctx.tier, classes=(MG, MS), towers=False)
        for r in res:
            if r["cls"] not in (MG, MS):
                continue
            if r["kind"] != "ok":
                rs.unrec("%s on %s: %s" % (r["cls"], r["shape"], "; ".join(r["notes"])[:160]))
            elif r.get("stale"):
                ctx.finding(rs, "%s|stale-across-maps" % r["cls"],
                            "%s: after substitute(%s, {a: c}) the same instance answers substitute(.., {a: b}) with %s, "
                            "a fresh instance with %s: results memoised under the first map are reused"
                            % (r["cls"].split(".")[-1], r["shape"], r["stale"][0], r["stale"][1]), "pysmt/substituter.py")
            else:
                rs.ok({"class": r["cls"].split(".")[-1], "shape": r["shape"], "second_map": "same result as a fresh instance"})
        ctx.floor(rs, 4)

    if ctx.want("R8"):
        rs = ctx.rule("R8", "real managers: a substitution in a second environment (bound occurrences included) is the same whether or not the first environment worked on nodes with the same ids before")
        from . import mgr_deep
        mgr_deep.report(ctx, rs, [r for r in mgr_deep.xenv_results() if "ForAll" in r[1] or "Exists" in r[1] or r[0] != "ok"], "pysmt/substituter.py", 3)

    from . import c05_deep
    c05_deep.run(ctx)
