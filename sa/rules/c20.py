"""C20 -- work is linear in DAG size and independent of nesting depth."""
import ast

from ..common import (get_repo, get_tables, get_ops, short, norm, CFG, normal_only, method_loc,
                      calls_in, attr_tail, is_self_attr, parents, names_in, handler_funcs,
                      class_instantiations)

DAG = "pysmt.walkers.dag.DagWalker"
FNODE = "pysmt.fnode.FNode"
FM = "pysmt.formula.FormulaManager"

EXPLANATION = (
    "No function of the formula core (FNode, FormulaManager, the DAG walkers and their handlers, type checker, "
    "oracles, rewriters, DAG printer, parser term reader) calls itself on a child / sub-term, except the justified "
    "cycles (quantifier nesting, sort nesting, list halving) (R1, resolved self-recursion).  Every FNode method that "
    "can be called on the node alone (about 100: accessors such as bv_width, and the services reached through the "
    "node - get_type, get_free_variables, get_atoms, simplify, substitute, size, serialize, to_smtlib, str) is "
    "interpreted on 18 families of operator towers of nesting depth 4 and 8 - linear nests through each operand "
    "position and DAG towers whose operands are the same node; the deepest interpreted call stack (function frames "
    "and running generators) is the same on both, however the recursion would be written (R1d).  Every DagWalker "
    "subclass the package instantiates is interpreted on maximally shared DAGs: no handler runs twice on a node "
    "within a walk, a persistent memo answers a second request without handler calls, and on towers x' = op(x, x) "
    "of depth 5 and 10 the interpreted steps and handler calls follow the number of nodes, not of paths (R2).  "
    "Handlers do not re-enter the traversal of their own walker on a sub-term (R3).  On the real, interpreted "
    "formula manager the cost of one construction op(x, x) - type check included - is the same over a term of "
    "nesting depth 6 and depth 30 (R4: construction is linear, the memoising checker is really used).  "
    "Fourteen services (simplify, substitute, analyses, both printers, script export, get_logic, nnf / cnf / aig) are "
    "interpreted on one n-ary node of 16, 32, 128 and 256 operands (five node families) and on a fixed formula in "
    "environments holding 0, 40 and 80 unrelated symbols; cost = interpreted steps + sizes handed to linear-time "
    "primitives (list membership, copies, sorting): the cost per further operand does not grow with the width and the "
    "cost does not grow with the environment (R5).  On the real manager `t in manager` and the substitution of a tower for a symbol cost the same at nesting depth 4, 8 and 12 up to the number of nodes, without a call stack that grows with the nesting (part of R4).  SmtLibSolver.add_assertion / is_sat on a maximally shared tower: the cost follows the nodes, not the paths; a script read from text and one built in memory, written again in let-DAG form: cost and text length follow the nodes (R6).  Function interpretations - also ones whose body mentions another interpreted function - applied to nests f(f(...f(a))) of depth 8 / 16 / 32: cost linear in the nesting (R7).  Seven services (prenex, nnf, simplify, substitute, size, get_logic, DAG printer) on a quantifier below a chain of 8 / 16 / 32 / 64 connectives: the cost per further connective does not grow; conjunctive_partition, propagate_toplevel, simplify and nnf on conjunctions that share their operands (depth 4 / 8 / 12): the cost follows the nodes, not the paths (R8).")
NOT_DECIDED = ["constants of the linear bound", "the tree printers (not claimed by the property)"]

# (class or module, function) -> reason.  Cycles entirely inside this set are accepted.
JUSTIFIED = {
    (FNODE, "is_constant"): "an array value is constant iff its children are: children of ARRAY_VALUE are constants or array values, depth bounded by sort nesting",
}

SCOPE_CLASSES = [FNODE, FM, DAG, "pysmt.walkers.identitydag.IdentityDagWalker",
                 "pysmt.type_checker.SimpleTypeChecker", "pysmt.simplifier.Simplifier",
                 "pysmt.substituter.Substituter", "pysmt.substituter.MGSubstituter",
                 "pysmt.substituter.MSSubstituter", "pysmt.oracles.SizeOracle",
                 "pysmt.oracles.QuantifierOracle", "pysmt.oracles.TheoryOracle",
                 "pysmt.oracles.FreeVarsOracle", "pysmt.oracles.AtomsOracle", "pysmt.oracles.TypesOracle",
                 "pysmt.rewritings.NNFizer", "pysmt.rewritings.PrenexNormalizer", "pysmt.rewritings.AIGer",
                 "pysmt.rewritings.TimesDistributor", "pysmt.smtlib.printers.SmtDagPrinter"]

CHILD_EXPR_MARKERS = ("arg(", "args()", ".args", "_content.args")


def _receiver_is_child(call):
    """x.m(...) where x is derived from a child of self/formula: self.arg(i), formula.args()[k],
    a loop variable over args ... approximated syntactically: receiver text mentions arg(/args."""
    if not isinstance(call.func, ast.Attribute):
        return False
    r = norm(call.func.value)
    return any(mk in r for mk in CHILD_EXPR_MARKERS)


def _args_from_children(f, call):
    for a in list(call.args) + [k.value for k in call.keywords]:
        t = norm(a)
        if any(mk in t for mk in CHILD_EXPR_MARKERS):
            return True
        for nm in names_in(a):
            for n in ast.walk(f):
                if isinstance(n, ast.Assign) and any(isinstance(tg, ast.Name) and tg.id == nm for tg in n.targets) \
                        and any(mk in norm(n.value) for mk in CHILD_EXPR_MARKERS):
                    return True
                if isinstance(n, (ast.For, ast.comprehension)) and nm in names_in(n.target) and \
                        any(mk in norm(n.iter) for mk in CHILD_EXPR_MARKERS):
                    return True
    return False


def _bounded_by_guard(f, call):
    """x.m(...) inside the branch `if/elif self.P():` of m is bounded (depth 1) when the statement
    just before it in the same block is `while x.P(): x = ...`: on loop exit x.P() is false, so the
    callee cannot take the branch that contains the self-call."""
    if not (isinstance(call.func, ast.Attribute) and isinstance(call.func.value, ast.Name)):
        return False
    x = call.func.value.id
    par = parents(f)
    # statement containing the call and its block
    st = call
    while st in par and not isinstance(st, ast.stmt):
        st = par[st]
    blk_owner = par.get(st)
    guard = None
    block = None
    if isinstance(blk_owner, ast.If) and st in blk_owner.body:
        guard = blk_owner.test
        block = blk_owner.body
    if guard is None or not (isinstance(guard, ast.Call) and isinstance(guard.func, ast.Attribute)
                             and norm(guard.func.value) == "self" and not guard.args):
        return False
    pred = guard.func.attr
    i = block.index(st)
    if i == 0 or not isinstance(block[i - 1], ast.While):
        return False
    w = block[i - 1]
    if norm(w.test) != "%s.%s()" % (x, pred):
        return False
    # the loop only reassigns x from x's own children (progress), nothing else touches x after it
    return all(isinstance(b, ast.Assign) and norm(b.targets[0]) == x for b in w.body)


def run(ctx):
    repo, ht = get_repo(), get_tables()
    ctx.analysed["modules"] = ["pysmt/fnode.py", "pysmt/formula.py", "pysmt/walkers/*.py", "pysmt/type_checker.py",
                               "pysmt/simplifier.py", "pysmt/substituter.py", "pysmt/oracles.py",
                               "pysmt/rewritings.py", "pysmt/smtlib/printers.py"]

    if ctx.want("R1"):
        rs = ctx.rule("R1", "no call-stack recursion over the nesting of non-quantifier operators")
        # (a) structural self-recursion: method m of class C calls <child-expr>.m(...) or self.m(<child>)
        n_funcs = 0
        for q in SCOPE_CLASSES:
            if q not in repo.classes:
                ctx.error("R1", "scope class %s vanished" % q)
                continue
            ci = repo.classes[q]
            for nm in ci.order:
                f = ci.own_func(nm)
                if f is None:
                    continue
                n_funcs += 1
                hits = []
                for c in calls_in(f):
                    if attr_tail(c) != nm or not isinstance(c.func, ast.Attribute):
                        continue
                    recv = c.func.value
                    if isinstance(recv, ast.Call) and isinstance(recv.func, ast.Name) and recv.func.id == "super":
                        continue
                    r = repo.resolve_expr(ci.module, recv)
                    if r and r[0] == "class":
                        continue      # Base.m(self, ...) : explicit up-call
                    if isinstance(recv, ast.Name) and recv.id == "self":
                        # self.m(...) recurses over the formula only if an argument is (derived from) a child;
                        # recursion on halves of a parameter list, on sorts, or a rebinding trampoline is not
                        # recursion over the nesting of operators
                        if _args_from_children(f, c):
                            hits.append((c, "self"))
                    elif _receiver_is_child(c):
                        hits.append((c, "child"))
                    elif isinstance(recv, ast.Name) and recv.id not in ("self",):
                        # a local that aliases a child?  find its definition
                        for n in ast.walk(f):
                            if isinstance(n, ast.Assign) and isinstance(n.targets[0], ast.Name) and \
                                    n.targets[0].id == recv.id and any(mk in norm(n.value) for mk in CHILD_EXPR_MARKERS):
                                hits.append((c, "child-alias"))
                                break
                            if isinstance(n, (ast.For, ast.comprehension)) and recv.id in names_in(n.target) and \
                                    any(mk in norm(n.iter) for mk in CHILD_EXPR_MARKERS):
                                hits.append((c, "child-alias"))
                                break
                hits = [(c, k) for c, k in hits if not _bounded_by_guard(f, c)]
                if not hits:
                    rs.ok({"function": "%s.%s" % (q.split(".")[-1], nm), "self_recursion": False})
                    continue
                if (q, nm) in JUSTIFIED:
                    rs.ok({"function": "%s.%s" % (q.split(".")[-1], nm), "self_recursion": "justified",
                           "reason": JUSTIFIED[(q, nm)]})
                    continue
                c, kind = hits[0]
                ctx.finding(rs, "%s.%s|recurses-on-%s" % (q, nm, kind),
                            "%s.%s calls itself on %s (%s): the call stack grows with the nesting depth of the "
                            "formula, a deeply nested term exceeds the interpreter's recursion limit"
                            % (q.split(".")[-1], nm, "a sub-term" if kind != "self" else "self", short(c)),
                            method_loc(repo, q, c))
        ctx.analysed["functions_scanned_for_recursion"] = n_funcs
        # (b) accessor -> type checker -> accessor cycles: FNode accessors used by handlers must not
        # call get_type()/walk on a child (that is a traversal, handled by memo) -- covered by R3.
        ctl = ast.parse("class X:\n def w(self):\n  return self.arg(1).w()\n").body[0].body[0]
        rs.control = any(attr_tail(c) == "w" and _receiver_is_child(c) for c in calls_in(ctl))
        if not rs.control:
            ctx.error("R1", "positive control not matched")
        ctx.floor(rs, 300)

    from . import c20_depth
    c20_depth.run(ctx)

    if ctx.want("R2"):
        rs = ctx.rule("R2", "compute-once: traversal interpreted on shared DAGs, handler calls and work grow with nodes, not paths")
        from . import walk_deep as wd
        res, others, towers = wd.results(repo, ctx.tier)
        ctx.analysed["walker_classes_interpreted"] = sorted(set(r["cls"] for r in res))
        ctx.analysed["walker_classes_not_interpreted"] = others
        for r in res:
            key = "%s|%s" % (r["cls"], r["shape"])
            cq, f = repo.find_method(r["cls"], "walk")
            loc = method_loc(repo, cq, f) if f is not None else r["cls"]
            if r["kind"] != "ok":
                rs.unrec("%s on %s: %s" % (r["cls"], r["shape"], "; ".join(r["notes"])[:200]))
                continue
            if r["dup"]:
                h, n, c = r["dup"][0]
                ctx.finding(rs, "%s|handler-repeated" % r["cls"],
                            "%s: during one walk of %s the handler %s runs %d times on the shared node %s: shared "
                            "sub-formulas are recomputed per occurrence (exponential on DAGs)"
                            % (r["cls"].split(".")[-1], r["shape"], h, c, n), loc)
            elif not r["one_shot"] and r["second_calls"]:
                ctx.finding(rs, "%s|memo-miss" % r["cls"],
                            "%s keeps its memo across calls, yet a second request for %s runs %d handlers again"
                            % (r["cls"].split(".")[-1], r["shape"], r["second_calls"]), loc)
            else:
                rs.ok({"class": r["cls"].split(".")[-1], "shape": r["shape"], "handler_calls": r["clean_calls"],
                       "repeated": 0, "second_request_calls": r["second_calls"], "one_shot_memo": r["one_shot"]})
        for t in towers:
            cq, f = repo.find_method(t["cls"], "walk")
            loc = method_loc(repo, cq, f) if f is not None else t["cls"]
            if t["kind"] != "ok":
                rs.unrec("%s on %s towers: %s" % (t["cls"], t["family"], t.get("note", "")))
                continue
            (s5, s10), (c5, c10) = t["steps"], t["calls"]
            (v5, v10), (n5, n10) = t["service_calls"], t["nodes"]
            fam_name = {"bool": "Boolean tower x' = And(x, x)", "arith": "arithmetic tower x' = x + x",
                        "times": "tower x' = 2 * (x + y)"}[t["family"]]
            if c10 > n10 or s10 > 3 * s5:
                ctx.finding(rs, "%s|work-grows-with-paths|%s" % (t["cls"], t["family"]),
                            "%s: a %s of depth 10 (%d distinct nodes) costs %d interpreted steps and %d handler calls "
                            "against %d / %d at depth 5: traversal work follows the number of paths, not of nodes"
                            % (t["cls"].split(".")[-1], fam_name, n10, s10, c10, s5, c5), loc)
            elif v10 > n10:
                ctx.finding(rs, "%s|service-recomputed|%s" % (t["cls"], t["family"]),
                            "%s: on a %s of depth 10 (%d distinct nodes) the handlers of the environment's free-variables "
                            "service run %d times (%d at depth 5): every question about a node re-traverses the cone below it"
                            % (t["cls"].split(".")[-1], fam_name, n10, v10, v5), "pysmt/oracles.py")
            else:
                rs.ok({"class": t["cls"].split(".")[-1], "tower": t["family"], "tower_depths": [5, 10], "interpreted_steps": t["steps"],
                       "handler_calls": t["calls"], "free_variables_service_calls": t["service_calls"], "distinct_nodes": t["nodes"],
                       "rule": "steps(10) <= 3*steps(5), handler calls and service calls <= distinct nodes"})
        ctx.floor(rs, 40)

    if ctx.want("R3"):
        rs = ctx.rule("R3", "handlers do not re-enter the traversal of their own walker on a sub-term")
        seen = set()
        for q in SCOPE_CLASSES:
            if q not in repo.classes or DAG not in repo.mro(q):
                continue
            for h, ops_ in handler_funcs(q):
                if (h.cls, h.name) in seen:
                    continue
                seen.add((h.cls, h.name))
                bad = [c for c in calls_in(h.func) if attr_tail(c) in ("walk", "iter_walk") and
                       isinstance(c.func, ast.Attribute) and norm(c.func.value) == "self"]
                if bad:
                    ctx.finding(rs, "%s.%s|reenters-walk" % (h.cls, h.name),
                                "handler %s calls %s: a nested traversal per node (recursion on nesting, repeated work)"
                                % (h.name, short(bad[0])), method_loc(repo, h.cls, bad[0]))
                else:
                    rs.ok({"handler": "%s.%s" % (h.cls.split(".")[-1], h.name), "reenters": False})
        ctx.floor(rs, 150)

    from . import c20_width
    c20_width.run(ctx)

    if ctx.want("R6"):
        rs = ctx.rule("R6", "text-interface solver: the cost of handing over a maximally shared term follows its nodes, not its paths")
        from . import solver_deep as sd
        kind, data = sd.text_solver_cost(repo)
        if kind != "ok":
            rs.unrec("text solver cost: %s" % data)
        else:
            for api, (c4, c8, c12) in sorted(data.items()):
                # nodes grow by 3 per level (linear): the increments are equal; with a tree walk they grow 16-fold
                d1, d2 = c8 - c4, c12 - c8
                if d2 > 2 * d1 + 200:
                    ctx.finding(rs, "text-solver-cost|%s" % api, "SmtLibSolver.%s of a shared tower costs %d / %d / %d at depth 4 / 8 / 12: "
                                "the increments grow (%d then %d) - the term is walked path by path before it reaches the solver"
                                % (api, c4, c8, c12, d1, d2), "pysmt/smtlib/solver.py")
                else:
                    rs.ok({"call": api, "tower_depths": [4, 8, 12], "cost": [c4, c8, c12]})
        # scripts written in let-DAG form (daggify=True): one read from text, one built in memory
        from . import text_deep as td
        kind, data = td.script_cost(repo)
        if kind != "ok":
            rs.unrec("script serialisation cost: %s" % data)
        else:
            for how, (costs, sizes) in sorted(data.items()):
                # 3 more nodes per level: cost and text length at depth 12 stay below twice those at depth 8; path by path they
                # are 16 times as large
                if costs[2] > 2 * costs[1] + 200 or sizes[2] > 2 * sizes[1] + 50:
                    ctx.finding(rs, "script-cost|%s" % how, "SmtLibScript.serialize(daggify=True) of a %s over a shared tower of depth 4 / 8 / 12 "
                                "costs %s and writes %s characters: the sharing is lost - the term is written path by path"
                                % (how, costs, sizes), "pysmt/smtlib/script.py")
                else:
                    rs.ok({"call": "SmtLibScript.serialize(daggify=True), " + how, "tower_depths": [4, 8, 12], "cost": costs, "characters": sizes})
        ctx.floor(rs, 4)

    if ctx.want("R7"):
        rs = ctx.rule("R7", "function interpretations applied to a nest of applications f(f(...f(a))): the cost is linear in the nesting")
        from . import c05_deep
        for cls, kind, data in c05_deep.interp_cost_results():
            nm = cls.split(".")[-1]
            if kind != "ok":
                rs.unrec("%s: %s" % (nm, data))
                continue
            for variant, (c8, c16, c32) in sorted(data.items()):
                # linear: the second increment is twice the first; quadratic: four times
                d1, d2 = c16 - c8, c32 - c16
                if d2 > 3 * d1 + 300:
                    ctx.finding(rs, "interpretation-cost|%s|%s" % (nm, variant), "%s.substitute with interpretations (%s) on f-nests of depth 8 / 16 / 32 "
                                "costs %d / %d / %d: the increments (%d, %d) grow faster than the nesting - already rewritten arguments are "
                                "walked again at every level" % (nm, variant, c8, c16, c32, d1, d2), "pysmt/substituter.py")
                else:
                    rs.ok({"substituter": nm, "interpretations": variant, "depths": [8, 16, 32], "cost": [c8, c16, c32]})
        ctx.floor(rs, 4)

    if ctx.want("R4"):
        rs = ctx.rule("R4", "real manager: the cost of one construction does not grow with the size of its operands")
        from . import mgr_deep
        mgr_deep.report(ctx, rs, mgr_deep.cost_results(), "pysmt/formula.py", 4)
