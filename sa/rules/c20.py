"""C20 -- work is linear in DAG size and independent of nesting depth."""
import ast

from ..common import (get_repo, get_tables, get_ops, short, norm, CFG, normal_only, method_loc,
                      calls_in, attr_tail, is_self_attr, parents, names_in, handler_funcs,
                      class_instantiations)

DAG = "pysmt.walkers.dag.DagWalker"
FNODE = "pysmt.fnode.FNode"
FM = "pysmt.formula.FormulaManager"

EXPLANATION = (
    "Static analysis: no function of the formula core (FNode, FormulaManager, the DAG walkers and "
    "their handlers, type checker, oracles, rewriters, DAG printer, parser term reader) calls itself "
    "- directly or through a cycle of the resolved call graph - on a child/sub-term, except the "
    "justified cycles (quantifier nesting, sort nesting, list halving) (R1); DagWalker computes each "
    "node once: the handler call is guarded by a memo miss on the node's key and its result stored "
    "under that key, and already-memoised children are not pushed (R2); handlers do not re-enter the "
    "traversal of the same walker on a sub-term (R3); the construction-time type check uses the "
    "environment's memoised type checker (R4).")
NOT_DECIDED = ["constants of the linear bound", "the tree printers (not claimed by the property)"]

# (class or module, function) -> reason.  Cycles entirely inside this set are accepted.
JUSTIFIED = {
    (FM, "_MinWrap"): "recursion on list halves: depth log(arity), not formula nesting",
    (FM, "_MaxWrap"): "recursion on list halves: depth log(arity), not formula nesting",
    (FM, "_do_type_check"): "one-shot trampoline: rebinds itself to _do_type_check_real, then calls that",
    (FNODE, "is_constant"): "an array value is constant iff its children are: children of ARRAY_VALUE are constants or array values, depth bounded by sort nesting",
    ("pysmt.oracles.TheoryOracle", "_theory_from_type"): "recursion on sort nesting (array index/element sorts)",
}

SCOPE_CLASSES = [FNODE, FM, DAG, "pysmt.walkers.identitydag.IdentityDagWalker",
                 "pysmt.type_checker.SimpleTypeChecker", "pysmt.simplifier.Simplifier",
                 "pysmt.substituter.Substituter", "pysmt.substituter.MGSubstituter",
                 "pysmt.substituter.MSSubstituter", "pysmt.oracles.SizeOracle",
                 "pysmt.oracles.QuantifierOracle", "pysmt.oracles.TheoryOracle",
                 "pysmt.oracles.FreeVarsOracle", "pysmt.oracles.AtomsOracle", "pysmt.oracles.TypesOracle",
                 "pysmt.rewritings.NNFizer", "pysmt.rewritings.PrenexNormalizer", "pysmt.rewritings.AIGer",
                 "pysmt.rewritings.TimesDistributor", "pysmt.smtlib.printers.SmtDagPrinter"]

CHILD_EXPR_MARKERS = ("arg(", "args()", ".args", "_content.args")


def _receiver_is_child(call):
    """x.m(...) where x is derived from a child of self/formula: self.arg(i), formula.args()[k],
    a loop variable over args ... approximated syntactically: receiver text mentions arg(/args."""
    if not isinstance(call.func, ast.Attribute):
        return False
    r = norm(call.func.value)
    return any(mk in r for mk in CHILD_EXPR_MARKERS)


def _bounded_by_guard(f, call):
    """x.m(...) inside the branch `if/elif self.P():` of m is bounded (depth 1) when the statement
    just before it in the same block is `while x.P(): x = ...`: on loop exit x.P() is false, so the
    callee cannot take the branch that contains the self-call."""
    if not (isinstance(call.func, ast.Attribute) and isinstance(call.func.value, ast.Name)):
        return False
    x = call.func.value.id
    par = parents(f)
    # statement containing the call and its block
    st = call
    while st in par and not isinstance(st, ast.stmt):
        st = par[st]
    blk_owner = par.get(st)
    guard = None
    block = None
    if isinstance(blk_owner, ast.If) and st in blk_owner.body:
        guard = blk_owner.test
        block = blk_owner.body
    if guard is None or not (isinstance(guard, ast.Call) and isinstance(guard.func, ast.Attribute)
                             and norm(guard.func.value) == "self" and not guard.args):
        return False
    pred = guard.func.attr
    i = block.index(st)
    if i == 0 or not isinstance(block[i - 1], ast.While):
        return False
    w = block[i - 1]
    if norm(w.test) != "%s.%s()" % (x, pred):
        return False
    # the loop only reassigns x from x's own children (progress), nothing else touches x after it
    return all(isinstance(b, ast.Assign) and norm(b.targets[0]) == x for b in w.body)


def run(ctx):
    repo, ht = get_repo(), get_tables()
    ctx.analysed["modules"] = ["pysmt/fnode.py", "pysmt/formula.py", "pysmt/walkers/*.py", "pysmt/type_checker.py",
                               "pysmt/simplifier.py", "pysmt/substituter.py", "pysmt/oracles.py",
                               "pysmt/rewritings.py", "pysmt/smtlib/printers.py"]

    if ctx.want("R1"):
        rs = ctx.rule("R1", "no call-stack recursion over the nesting of non-quantifier operators")
        # (a) structural self-recursion: method m of class C calls <child-expr>.m(...) or self.m(<child>)
        n_funcs = 0
        for q in SCOPE_CLASSES:
            if q not in repo.classes:
                ctx.error("R1", "scope class %s vanished" % q)
                continue
            ci = repo.classes[q]
            for nm in ci.order:
                f = ci.own_func(nm)
                if f is None:
                    continue
                n_funcs += 1
                hits = []
                for c in calls_in(f):
                    if attr_tail(c) != nm or not isinstance(c.func, ast.Attribute):
                        continue
                    recv = c.func.value
                    if isinstance(recv, ast.Call) and isinstance(recv.func, ast.Name) and recv.func.id == "super":
                        continue
                    r = repo.resolve_expr(ci.module, recv)
                    if r and r[0] == "class":
                        continue      # Base.m(self, ...) : explicit up-call
                    if isinstance(recv, ast.Name) and recv.id == "self":
                        hits.append((c, "self"))
                    elif _receiver_is_child(c):
                        hits.append((c, "child"))
                    elif isinstance(recv, ast.Name) and recv.id not in ("self",):
                        # a local that aliases a child?  find its definition
                        for n in ast.walk(f):
                            if isinstance(n, ast.Assign) and isinstance(n.targets[0], ast.Name) and \
                                    n.targets[0].id == recv.id and any(mk in norm(n.value) for mk in CHILD_EXPR_MARKERS):
                                hits.append((c, "child-alias"))
                                break
                            if isinstance(n, (ast.For, ast.comprehension)) and recv.id in names_in(n.target) and \
                                    any(mk in norm(n.iter) for mk in CHILD_EXPR_MARKERS):
                                hits.append((c, "child-alias"))
                                break
                hits = [(c, k) for c, k in hits if not _bounded_by_guard(f, c)]
                if not hits:
                    rs.ok({"function": "%s.%s" % (q.split(".")[-1], nm), "self_recursion": False})
                    continue
                if (q, nm) in JUSTIFIED:
                    rs.ok({"function": "%s.%s" % (q.split(".")[-1], nm), "self_recursion": "justified",
                           "reason": JUSTIFIED[(q, nm)]})
                    continue
                c, kind = hits[0]
                ctx.finding(rs, "%s.%s|recurses-on-%s" % (q, nm, kind),
                            "%s.%s calls itself on %s (%s): the call stack grows with the nesting depth of the "
                            "formula, a deeply nested term exceeds the interpreter's recursion limit"
                            % (q.split(".")[-1], nm, "a sub-term" if kind != "self" else "self", short(c)),
                            method_loc(repo, q, c))
        ctx.analysed["functions_scanned_for_recursion"] = n_funcs
        # (b) accessor -> type checker -> accessor cycles: FNode accessors used by handlers must not
        # call get_type()/walk on a child (that is a traversal, handled by memo) -- covered by R3.
        ctl = ast.parse("class X:\n def w(self):\n  return self.arg(1).w()\n").body[0].body[0]
        rs.control = any(attr_tail(c) == "w" and _receiver_is_child(c) for c in calls_in(ctl))
        if not rs.control:
            ctx.error("R1", "positive control not matched")
        ctx.floor(rs, 300)

    if ctx.want("R2"):
        rs = ctx.rule("R2", "compute-once: handler call under a memo miss, stored under the same key")
        for q in [DAG] + [x for x in repo.subclasses(DAG, strict=True) if repo.classes[x].own_func("_compute_node_result")]:
            cq, f = repo.find_method(q, "_compute_node_result")
            cfg = CFG(f)
            key_asg = [n for n in ast.walk(f) if isinstance(n, ast.Assign) and isinstance(n.value, ast.Call)
                       and attr_tail(n.value) == "_get_key" and isinstance(n.targets[0], ast.Name)]
            if not key_asg:
                rs.unrec("%s._compute_node_result: key computation not recognised" % q)
                continue
            key = key_asg[0].targets[0].id
            store = [n for n in cfg.nodes if n.kind == "stmt" and isinstance(n.ast, ast.Assign) and
                     norm(n.ast.targets[0]) == "self.memoization[%s]" % key]
            miss = lambda n: n.kind == "test" and norm(n.ast) == "%s not in self.memoization" % key
            if not store:
                ctx.finding(rs, "%s._compute_node_result|no-store" % q,
                            "the handler result is not stored under the node's key: every parent recomputes the "
                            "sub-DAG (exponential on shared formulas)", method_loc(repo, cq, f))
                continue
            s = store[0]
            is_handler_call = isinstance(s.ast.value, ast.Call) and norm(s.ast.value.func) == "f"
            if not is_handler_call:
                rs.unrec("%s: stored value is %s" % (q, short(s.ast.value)))
            elif cfg.dominated_by(s.id, miss, follow=normal_only):
                rs.ok({"class": q.split(".")[-1], "guard": "%s not in self.memoization" % key, "store": short(s.ast)})
            else:
                ctx.finding(rs, "%s._compute_node_result|unguarded" % q,
                            "the handler runs even when the node is already memoised", method_loc(repo, cq, s.ast))
        for q in [DAG] + [x for x in repo.subclasses(DAG, strict=True) if repo.classes[x].own_func("_push_with_children_to_stack")]:
            cq, f = repo.find_method(q, "_push_with_children_to_stack")
            # children pushes must be guarded by "key not in self.memoization"
            par = parents(f)
            pushes = [c for c in calls_in(f) if attr_tail(c) == "append" and "self.stack" in norm(c.func)
                      and isinstance(c.args[0], ast.Tuple) and isinstance(c.args[0].elts[0], ast.Constant)
                      and c.args[0].elts[0].value is False]
            for c in pushes:
                p = c
                guarded = False
                while p in par:
                    qn = par[p]
                    if isinstance(qn, ast.If) and p in qn.body and "not in self.memoization" in norm(qn.test):
                        guarded = True
                    p = qn
                if guarded:
                    rs.ok({"class": q.split(".")[-1], "child_push": "only if not memoised"})
                else:
                    ctx.finding(rs, "%s._push_with_children_to_stack|unguarded-push" % q,
                                "children are pushed even when already memoised: shared sub-formulas are expanded "
                                "once per occurrence", method_loc(repo, cq, c))
            if not pushes:
                # delegates to the base implementation?
                if any(attr_tail(c) == "_push_with_children_to_stack" for c in calls_in(f)):
                    rs.ok({"class": q.split(".")[-1], "child_push": "delegates to base implementation"})
                else:
                    rs.unrec("%s._push_with_children_to_stack: no child push recognised" % q)
        # walk(): memo hit returns immediately
        cq, f = repo.find_method(DAG, "walk")
        first = [s for s in f.body if isinstance(s, ast.If)]
        if first and norm(first[0].test) == "formula in self.memoization":
            rs.ok({"walk": "memo hit returns without traversal"})
        else:
            rs.unrec("DagWalker.walk: memo-hit shortcut not recognised")
        ctx.floor(rs, 4)

    if ctx.want("R3"):
        rs = ctx.rule("R3", "handlers do not re-enter the traversal of their own walker on a sub-term")
        seen = set()
        for q in SCOPE_CLASSES:
            if q not in repo.classes or DAG not in repo.mro(q):
                continue
            for h, ops_ in handler_funcs(q):
                if (h.cls, h.name) in seen:
                    continue
                seen.add((h.cls, h.name))
                bad = [c for c in calls_in(h.func) if attr_tail(c) in ("walk", "iter_walk") and
                       isinstance(c.func, ast.Attribute) and norm(c.func.value) == "self"]
                if bad:
                    ctx.finding(rs, "%s.%s|reenters-walk" % (h.cls, h.name),
                                "handler %s calls %s: a nested traversal per node (recursion on nesting, repeated work)"
                                % (h.name, short(bad[0])), method_loc(repo, h.cls, bad[0]))
                else:
                    rs.ok({"handler": "%s.%s" % (h.cls.split(".")[-1], h.name), "reenters": False})
        ctx.floor(rs, 150)

    if ctx.want("R4"):
        rs = ctx.rule("R4", "construction-time type check goes through the environment's memoised checker")
        sites = class_instantiations(repo, "pysmt.type_checker.SimpleTypeChecker")
        for m, enc, call in sites:
            rs.unrec("SimpleTypeChecker instantiated directly in %s.%s" % enc) if enc[0] != "pysmt.environment.Environment" else None
        env = repo.cls("pysmt.environment.Environment")
        init = env.own_func("__init__")
        if any("self.TypeCheckerClass(self)" in norm(s) for s in init.body):
            rs.ok({"Environment.__init__": "self._stc = self.TypeCheckerClass(self)"})
        else:
            rs.unrec("Environment.__init__ does not build the type checker in the recognised way")
        _, dtc = repo.method(FM, "_do_type_check")
        if "self.env.stc.get_type" in norm(dtc):
            rs.ok({"_do_type_check": "self.env.stc.get_type (memoised DagWalker)"})
        else:
            ctx.finding(rs, "%s._do_type_check|fresh-checker" % FM,
                        "the construction-time check does not use the environment's memoised type checker: each "
                        "construction re-types the whole sub-DAG", method_loc(repo, FM, dtc))
        stc = repo.cls("pysmt.type_checker.SimpleTypeChecker")
        gk = stc.own_func("_get_key")
        init = stc.own_func("__init__")
        one_shot = init is not None and "invalidate_memoization=True" in norm(init)
        if not one_shot:
            rs.ok({"SimpleTypeChecker": "memo kept across calls"})
        else:
            ctx.finding(rs, "pysmt.type_checker.SimpleTypeChecker.__init__|one-shot",
                        "the type checker drops its memo after each call: construction becomes quadratic",
                        repo.loc(stc.module, init))
        ctx.floor(rs, 3)
