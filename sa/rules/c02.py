"""C02 -- model evaluation returns the exact value of any ground-evaluable formula."""
import ast

from ..common import (get_repo, get_ops, get_tables, short, norm, CFG, normal_only, method_loc,
                      calls_in, attr_tail, parents, eval_bool)

EAGER = "pysmt.solvers.eager.EagerModel"
MODEL = "pysmt.solvers.solver.Model"

EXPLANATION = (
    "Abstract interpretation of pysmt/solvers/eager.py and Model.satisfies / get_py_value / __getitem__ of "
    "pysmt/solvers/solver.py, with the substituter and the simplifier they call: on ~120 operator skeletons "
    "(Boolean structure, linear and non-linear Int/Real arithmetic, ToReal, division by a constant, every "
    "bit-vector operator family, terms as well as formulas) an EagerModel is built whose arithmetic and "
    "bit-vector values are *symbolic* constants and whose Boolean values are enumerated, so one interpretation "
    "stands for every model.  On every path get_value returns a constant, and for every value of the model's "
    "constants over small domains (bit-vectors exhaustively) that constant, model[f], get_py_value(f) and - for "
    "formulas - satisfies(f) equal the value the independent reference semantics gives the skeleton under the "
    "model.  With an empty model and completion the value is the one under the documented defaults (false, 0, "
    "zero bit-vector); without completion the call raises or returns a value that holds under every "
    "completion (R5).  The exactness of each constant fold is decided operator by operator by C01.  String skeletons and reals that differ by less than a double can tell are decided with concrete models over small domains, all models of one skeleton in ONE interpretation (a value cached across models would show).")
NOT_DECIDED = ["skeletons outside the menu; string skeletons only over concrete models on small domains; array-valued model entries (arrays occur inside terms, their folds are also decided by C01)"]


def run(ctx):
    repo = get_repo()
    ctx.analysed["modules"] = ["pysmt/solvers/eager.py", "pysmt/solvers/solver.py", "pysmt/simplifier.py"]

    from . import c02_deep
    c02_deep.run(ctx)
