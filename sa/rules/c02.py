"""C02 -- model evaluation returns the exact value of any ground-evaluable formula."""
import ast

from ..common import (get_repo, get_ops, get_tables, short, norm, CFG, normal_only, method_loc,
                      calls_in, attr_tail, parents, eval_bool)

EAGER = "pysmt.solvers.eager.EagerModel"
MODEL = "pysmt.solvers.solver.Model"

EXPLANATION = (
    "Static analysis: EagerModel.get_value rejects every non-constant residue (R2, CFG must-pass-"
    "through with branch polarity); the completion defaults extracted from _complete_model equal "
    "the documented table and completion is consulted only on the model_completion branch (R3); "
    "Model.satisfies returns True only under is_true() (R4); total constant folding and exactness "
    "of every fold (R1 and the C01 fold rules) come from the abstract interpreter.")
NOT_DECIDED = [
    "exactness of string/array folds beyond the C01 rules",
    "semantics of partial assignments beyond 'non-constant residue raises'",
]

DEFAULTS = {  # sort predicate -> (constructor, normalised argument)
    "is_bool_type": ("Bool", "False"),
    "is_real_type": ("Real", "0"),
    "is_int_type": ("Int", "0"),
    "is_bv_type": ("BVZero", "<width>"),
}


def run(ctx):
    repo = get_repo()
    ctx.analysed["modules"] = ["pysmt/solvers/eager.py", "pysmt/solvers/solver.py", "pysmt/simplifier.py"]

    if ctx.want("R2"):
        rs = ctx.rule("R2", "get_value rejects non-constant results")
        cls, fn = repo.method(EAGER, "get_value")
        cfg = CFG(fn)
        rets = [n for n in cfg.nodes if isinstance(n.ast, ast.Return) and n.ast.value is not None]
        if not rets:
            ctx.error("R2", "EagerModel.get_value has no value-returning return")
        for r in rets:
            v = r.ast.value
            if not isinstance(v, ast.Name):
                rs.unrec("get_value returns a non-name expression %s" % short(v))
                continue
            var = v.id
            verdict = None
            for t in cfg.nodes:
                if t.kind != "test":
                    continue
                ccalls = [c for c in calls_in(t.ast) if attr_tail(c) == "is_constant" and
                          isinstance(c.func, ast.Attribute) and isinstance(c.func.value, ast.Name)
                          and c.func.value.id == var and not c.args and not c.keywords]
                if not ccalls:
                    continue

                def leaf(n):
                    if isinstance(n, ast.Call) and attr_tail(n) == "is_constant":
                        return False     # case: the residue is NOT a constant
                    return None
                val = eval_bool(t.ast, leaf)
                if val is None:
                    continue
                lab = "T" if val else "F"
                for (y, l2) in cfg.succ[t.id]:
                    if l2 == lab:
                        if cfg.ret.id in cfg.reachable(y, follow=normal_only):
                            verdict = ("bad", norm(t.ast))
                        elif verdict is None:
                            verdict = ("ok", norm(t.ast))
                if verdict and verdict[0] == "ok" and not cfg.dominated_by(r.id, lambda n, t=t: n.id == t.id, follow=normal_only):
                    verdict = ("bypass", norm(t.ast))
            if verdict is None:
                ctx.finding(rs, "%s.get_value|no-constant-check|%s" % (EAGER, var),
                            "get_value returns '%s' without testing that it is a constant: a partial "
                            "model silently yields a non-value" % var, method_loc(repo, cls, r.ast))
            elif verdict[0] == "ok":
                rs.ok({"return": var, "guard": verdict[1], "non_constant_branch": "raises"})
            else:
                ctx.finding(rs, "%s.get_value|non-constant-returned|%s" % (EAGER, var),
                            "the non-constant case of guard `%s` still reaches `return %s`"
                            % (verdict[1], var), method_loc(repo, cls, r.ast))
        ctx.floor(rs, 1)

    if ctx.want("R3"):
        rs = ctx.rule("R3", "completion defaults equal the documented table")
        cls, fn = repo.method(EAGER, "_complete_model")
        seen = {}
        chain = [n for n in ast.walk(fn) if isinstance(n, ast.If)]
        for iff in chain:
            preds = [attr_tail(c) for c in calls_in(iff.test) if attr_tail(c) in DEFAULTS]
            if len(preds) != 1 or isinstance(iff.test, (ast.BoolOp, ast.UnaryOp)):
                continue
            pred = preds[0]
            assigns = [s for s in iff.body if isinstance(s, ast.Assign) and isinstance(s.value, ast.Call)]
            if len(assigns) != 1:
                rs.unrec("branch %s of _complete_model not a single constructor assignment" % pred)
                continue
            call = assigns[0].value
            ctor = attr_tail(call)
            args = [norm(a) for a in call.args]
            exp_ctor, exp_arg = DEFAULTS[pred]
            okk = ctor == exp_ctor and len(args) == 1 and \
                (args[0] == exp_arg or (exp_arg == "<width>" and args[0].endswith(".bv_width()")))
            # equivalent spellings
            if not okk and pred == "is_bool_type" and ctor == "FALSE" and not args:
                okk = True
            if not okk and pred == "is_bv_type" and ctor == "BV" and len(args) == 2 and args[0] == "0":
                okk = True
            seen[pred] = okk
            if okk:
                rs.ok({"sort": pred, "default": norm(call)})
            else:
                ctx.finding(rs, "%s._complete_model|default|%s" % (EAGER, pred),
                            "completion default for %s is %s, documented default is %s(%s)"
                            % (pred, norm(call), exp_ctor, exp_arg), method_loc(repo, cls, call))
        for pred in DEFAULTS:
            if pred not in seen:
                rs.unrec("no recognised completion branch for %s" % pred)
        # completion only under model_completion
        _, gv = repo.method(EAGER, "get_value")
        par = parents(gv)
        for c in calls_in(gv):
            if attr_tail(c) == "_complete_model":
                p = c
                guarded = False
                while p in par:
                    q = par[p]
                    if isinstance(q, ast.If) and "model_completion" in norm(q.test) and p in q.body \
                            and not isinstance(q.test, ast.UnaryOp):
                        guarded = True
                    p = q
                if guarded:
                    rs.ok({"_complete_model": "called only under `if model_completion`"})
                else:
                    ctx.finding(rs, "%s.get_value|completion-unguarded" % EAGER,
                                "_complete_model is called outside the model_completion branch",
                                method_loc(repo, EAGER, c))
        # substitution map used on each branch
        for n in ast.walk(gv):
            if isinstance(n, ast.If) and norm(n.test) == "model_completion":
                def submap(stmts):
                    for s in stmts:
                        for c in calls_in(s):
                            if attr_tail(c) == "substitute" and len(c.args) >= 2:
                                return norm(c.args[1])
                    return None
                a, b = submap(n.body), submap(n.orelse)
                if a == "self.completed_assignment" and b == "self.assignment":
                    rs.ok({"with_completion": a, "without": b})
                elif a is None or b is None:
                    rs.unrec("substitution maps of get_value not recognised")
                else:
                    ctx.finding(rs, "%s.get_value|maps" % EAGER,
                                "get_value substitutes %s with completion and %s without; expected the "
                                "completed assignment only when completion is requested" % (a, b),
                                method_loc(repo, EAGER, n))
        ctx.floor(rs, 5)

    if ctx.want("R4"):
        rs = ctx.rule("R4", "satisfies: True only under is_true()")
        cls, fn = repo.method(MODEL, "satisfies")
        par = parents(fn)
        n_true = 0
        for n in ast.walk(fn):
            if isinstance(n, ast.Return) and isinstance(n.value, ast.Constant) and n.value.value is True:
                n_true += 1
                q = par.get(n)
                if isinstance(q, ast.If) and n in q.body and isinstance(q.test, ast.Call) and \
                        attr_tail(q.test) == "is_true" and not q.test.args:
                    rs.ok({"return True": "under " + norm(q.test)})
                else:
                    ctx.finding(rs, "%s.satisfies|true-without-is_true" % MODEL,
                                "`return True` is not guarded by <simplified>.is_true() (guard: %s)"
                                % (norm(q.test) if isinstance(q, ast.If) else "none"),
                                method_loc(repo, cls, n))
            if isinstance(n, ast.Return) and isinstance(n.value, ast.Constant) and n.value.value is False:
                q = par.get(n)
                if isinstance(q, ast.If) and isinstance(q.test, ast.Call) and attr_tail(q.test) == "is_true":
                    ctx.finding(rs, "%s.satisfies|false-under-is_true" % MODEL,
                                "`return False` under is_true()", method_loc(repo, cls, n))
        finals = [n for n in ast.walk(fn) if isinstance(n, ast.Return) and isinstance(n.value, ast.Call)]
        for n in finals:
            if attr_tail(n.value) == "is_true":
                rs.ok({"return": norm(n.value)})
            else:
                rs.unrec("satisfies returns %s" % short(n.value))
        # the formula evaluated is the substituted+simplified input
        ctx.floor(rs, 2)

    from . import c02_deep
    c02_deep.run(ctx)
