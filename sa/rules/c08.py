"""C08 -- SMT-LIB import never misreads."""
import ast

from ..common import (get_repo, get_ops, short, norm, CFG, normal_only, method_loc, calls_in,
                      attr_tail, parents, names_in)
from ..opsets import ConstEval, NotConst
from ..tables import smtlib as T

PARSER = "pysmt.smtlib.parser.parser.SmtLibParser"
CACHE = "pysmt.smtlib.parser.parser.SmtLibExecutionCache"

EXPLANATION = (
    "Abstract interpretation of pysmt/smtlib/parser/parser.py (tokeniser, command loop, term reader, "
    "binders, literals, indexed identifiers) together with script.py and the constructors it calls, the "
    "construction-time type check included: a corpus of ~100 scripts exercising every notation - "
    "simultaneous and nested let, shadowing of declared names, quantifier and define-fun scoping, named "
    "terms, numerals typed by the logic, decimals, negative and rational literals, chains and n-ary forms, "
    "every bit-vector operator, literal and indexed identifier, strings with escapes, arrays and constant "
    "arrays, uninterpreted functions and sorts, quoted symbols, comments, push / pop - is read by the "
    "interpreted parser and by an independent reader written from the standard (sa/refsmt.py); every "
    "asserted term the parser returns must denote what the reference says the text denotes (structurally, "
    "or by exhaustive evaluation over small domains), get_last_formula must be the conjunction of the live "
    "assertions, well-formed text handled today must stay accepted, and ill-formed text rejected today "
    "must stay rejected (R9).  Every entry of the operator-token table maps its token to the constructor "
    "that realises the standard's meaning (R1); the token and command tables are supersets of the sets "
    "confirmed on this tree (R7); _reset re-initialises the state commands change (R8).")
NOT_DECIDED = ["texts outside the corpus", "leniency: four kinds of ill-formed text are accepted with their "
               "evident reading (assert of a non-Boolean term, identical redeclaration, pop below level 0, use of "
               "a symbol after the pop of its declaration); they are listed in the rule, not reported"]


def token_table(repo):
    """token -> ('ctor', name) | ('self', attr) | ('enter', method) as written in __init__."""
    cls, init = repo.method(PARSER, "__init__")
    table = {}
    fix = {}
    for n in ast.walk(init):
        if isinstance(n, ast.Assign) and isinstance(n.targets[0], ast.Attribute) and \
                isinstance(n.value, ast.Call) and attr_tail(n.value) == "partial" and len(n.value.args) == 2 \
                and norm(n.value.args[0]) == "fix_real":
            fix[n.targets[0].attr] = attr_tail(n.value.args[1])
        tgt = None
        if isinstance(n, ast.Assign):
            tgt = n.targets[0]
        elif isinstance(n, ast.AnnAssign):
            tgt = n.target
        if tgt is not None and norm(tgt) == "self.interpreted" and isinstance(n.value, ast.Dict):
            for k, v in zip(n.value.keys, n.value.values):
                if not isinstance(k, ast.Constant):
                    continue
                if isinstance(v, ast.Call) and attr_tail(v) == "_operator_adapter" and len(v.args) == 1:
                    a = v.args[0]
                    if isinstance(a, ast.Attribute) and norm(a.value) == "mgr":
                        table[k.value] = ("ctor", a.attr)
                    elif isinstance(a, ast.Attribute) and norm(a.value) == "self":
                        table[k.value] = ("self", a.attr)
                    else:
                        table[k.value] = ("?", norm(a))
                elif isinstance(v, ast.Attribute) and norm(v.value) == "self":
                    table[k.value] = ("enter", v.attr)
                else:
                    table[k.value] = ("?", norm(v))
    return table, fix


def run(ctx):
    repo = get_repo()
    ctx.analysed["modules"] = ["pysmt/smtlib/parser/parser.py", "pysmt/smtlib/commands.py"]
    table, fix = token_table(repo)
    ctx.analysed["tokens"] = len(table)

    if ctx.want("R1"):
        rs = ctx.rule("R1", "operator-token table maps every token to the right constructor")
        if not table:
            ctx.error("R1", "self.interpreted table not found")
        for k, v in sorted(fix.items()):
            if T.FIX_REAL.get(k) == v:
                rs.ok({"adapter": "self.%s" % k, "wraps": "mgr.%s" % v})
            elif k in T.FIX_REAL:
                ctx.finding(rs, "%s.__init__|fix_real|%s" % (PARSER, k),
                            "parser adapter self.%s wraps mgr.%s instead of mgr.%s" % (k, v, T.FIX_REAL[k]),
                            method_loc(repo, PARSER, repo.method(PARSER, "__init__")[1]))
        for tok, (kind, name) in sorted(table.items()):
            want = T.TOKENS.get(tok)
            if tok in T.SPECIAL_TOKENS:
                if kind == "enter" and name == T.SPECIAL_TOKENS[tok]:
                    rs.ok({"token": tok, "handler": name})
                else:
                    ctx.finding(rs, "%s.interpreted|%s" % (PARSER, tok), "token '%s' is handled by %s %s, expected %s"
                                % (tok, kind, name, T.SPECIAL_TOKENS[tok]),
                                method_loc(repo, PARSER, repo.method(PARSER, "__init__")[1]))
                continue
            if want is None:
                rs.unrec("token '%s' has no reference entry (%s %s)" % (tok, kind, name))
                continue
            got = None
            if kind == "ctor":
                got = name
            elif kind == "self":
                if name in fix:
                    got = fix[name]
                else:
                    got = "<%s>" % name.lstrip("_")
            if got == want:
                rs.ok({"token": tok, "constructor": got})
            else:
                ctx.finding(rs, "%s.interpreted|%s" % (PARSER, tok),
                            "token '%s' is read as %s; the standard's meaning is %s" % (tok, got, want),
                            method_loc(repo, PARSER, repo.method(PARSER, "__init__")[1]))
        # adapters
        cls, f = repo.method(PARSER, "_equals_or_iff")
        txt = norm(f)
        if "return mgr.Iff(left, right)" in txt and "return self.Equals(left, right)" in txt and "BOOL()" in txt:
            rs.ok({"adapter": "_equals_or_iff", "bool": "Iff(left,right)", "other": "Equals(left,right)"})
        else:
            rs.unrec("'=' adapter not in the recognised form (decided by the interpreter rule R1b)")
        cls, f = repo.method(PARSER, "_minus_or_uminus")
        txt = norm(f)
        conds = ["return self.Minus(args[0], args[1])" in txt, "mgr.Int(-1 * args[0].constant_value())" in txt,
                 "mgr.Real(-1 * args[0].constant_value())" in txt, "return mgr.Times(mult, args[0])" in txt,
                 "mult = mgr.Int(-1)" in txt, "mult = mgr.Real(-1)" in txt]
        if all(conds):
            rs.ok({"adapter": "_minus_or_uminus", "binary": "Minus(a,b)", "unary": "-1 * a (constant folded)"})
        else:
            rs.unrec("'-' adapter not in the recognised form %s" % conds)
        cls, f = repo.method(PARSER, "_division")
        txt = norm(f)
        if "Fraction(left.constant_value()) / Fraction(right.constant_value())" in txt and "return self.Div(left, right)" in txt:
            rs.ok({"adapter": "_division", "constants": "left/right exact", "other": "Div(left,right)"})
        else:
            rs.unrec("'/' adapter not in the recognised form")
        ctx.floor(rs, 60)

    if ctx.want("R9"):
        rs = ctx.rule("R9", "import corpus: the interpreted parser and the independent reader agree on every asserted term")
        from . import text_deep as td
        for r in td.import_results(repo, ctx.tier):
            name, kind, exp = r["name"], r["kind"], r["expect"]
            loc = "pysmt/smtlib/parser/parser.py"
            if kind == "unsupported":
                rs.unrec("%s: %s" % (name, r["detail"][:160]))
            elif exp == "accept":
                if kind == "valid":
                    if r["last"] and r["last"][0] == "invalid":
                        ctx.finding(rs, "import|%s|last-formula" % name, "script %s: %s" % (name, r["last"][1]), "pysmt/smtlib/script.py")
                    else:
                        rs.ok({"script": name, "checked": r["detail"], "get_last_formula": r["last"][0] if r["last"] else None})
                elif kind == "invalid":
                    ctx.finding(rs, "import|%s" % name, "script %s is misread: %s" % (name, r["detail"]), loc)
                elif kind == "accepted-illformed":
                    ctx.finding(rs, "import|%s" % name, "script %s: %s" % (name, r["detail"]), loc)
                else:
                    ctx.finding(rs, "import|%s|rejected" % name, "script %s, handled before, is now rejected: %s" % (name, r["detail"]), loc)
            elif exp == "may-reject":
                if kind in ("valid", "rejected-valid"):
                    rs.ok({"script": name, "outcome": "read correctly" if kind == "valid" and "rejected" not in r["detail"] else "rejected with an error"})
                else:
                    ctx.finding(rs, "import|%s" % name, "script %s is misread: %s" % (name, r["detail"]), loc)
            elif exp == "reject":
                if kind == "valid":
                    rs.ok({"script": name, "outcome": r["detail"][:120]})
                else:
                    ctx.finding(rs, "import|%s|accepted" % name,
                                "ill-formed script %s is accepted silently: %s" % (name, r["detail"]), loc)
            else:   # lenient
                rs.ok({"script": name, "outcome": "lenient: " + r["detail"][:120] if kind != "valid" else r["detail"][:120]})
        ctx.floor(rs, 80)

    if ctx.want("R7"):
        rs = ctx.rule("R7", "constructs accepted today keep being accepted (token and command sets)")
        have = set(table)
        for tok in sorted(set(T.TOKENS) | set(T.SPECIAL_TOKENS)):
            if tok in ("str.to_int", "str.from_int"):
                continue      # newer spellings, not accepted today
            if tok in have:
                rs.ok({"token": tok})
            else:
                ctx.finding(rs, "%s.interpreted|dropped|%s" % (PARSER, tok), "token '%s' is no longer accepted" % tok,
                            method_loc(repo, PARSER, repo.method(PARSER, "__init__")[1]))
        cls, init = repo.method(PARSER, "__init__")
        cmds = set()
        ce = ConstEval(repo)
        for n in ast.walk(init):
            if isinstance(n, ast.Assign) and norm(n.targets[0]) == "self.commands" and isinstance(n.value, ast.Dict):
                for k in n.value.keys:
                    try:
                        cmds.add(ce.expr(repo.cls(PARSER).module, k))
                    except NotConst:
                        pass
        for c in sorted(T.COMMANDS_ACCEPTED_TODAY):
            if c in cmds:
                rs.ok({"command": c})
            else:
                ctx.finding(rs, "%s.commands|dropped|%s" % (PARSER, c), "command '%s' is no longer accepted" % c,
                            method_loc(repo, cls, init))
        ctx.floor(rs, 90)

    if ctx.want("R8"):
        rs = ctx.rule("R8", "parser reset completeness: state changed by commands is re-initialised by _reset")
        ci = repo.cls(PARSER)
        reset = ci.own_func("_reset")
        if reset is None:
            ctx.error("R8", "SmtLibParser._reset vanished")
        else:
            from ..common import stores_in, is_self_attr
            in_reset = set(t.attr for t, _ in stores_in(reset) if is_self_attr(t))
            changed = {}
            for nm in ci.order:
                f = ci.own_func(nm)
                if f is None or nm in ("__init__", "_reset"):
                    continue
                for t, st in stores_in(f):
                    if is_self_attr(t):
                        changed.setdefault(t.attr, (nm, st))
            for attr, (nm, st) in sorted(changed.items()):
                if attr in in_reset:
                    rs.ok({"attribute": attr, "changed_by": nm, "reset": True})
                else:
                    ctx.finding(rs, "%s._reset|state-not-reset|%s" % (PARSER, attr),
                                "%s changes self.%s (%s) but _reset does not re-initialise it: a parser object re-used for a "
                                "second script keeps the value set by the first one" % (nm, attr, short(st)),
                                method_loc(repo, PARSER, reset))
            cls, gs = repo.method(PARSER, "get_script")
        ctx.floor(rs, 1)

