"""C08 -- SMT-LIB import never misreads."""
import ast

from ..common import (get_repo, get_ops, short, norm, CFG, normal_only, method_loc, calls_in,
                      attr_tail, parents, names_in)
from ..opsets import ConstEval, NotConst
from ..tables import smtlib as T

PARSER = "pysmt.smtlib.parser.parser.SmtLibParser"
CACHE = "pysmt.smtlib.parser.parser.SmtLibExecutionCache"

EXPLANATION = (
    "Abstract interpretation of pysmt/smtlib/parser/parser.py (tokeniser, command loop, term reader, "
    "binders, literals, indexed identifiers) together with script.py and the constructors it calls, the "
    "construction-time type check included: a corpus of ~100 scripts exercising every notation - "
    "simultaneous and nested let, shadowing of declared names, quantifier and define-fun scoping, named "
    "terms, numerals typed by the logic, decimals, negative and rational literals, chains and n-ary forms, "
    "every bit-vector operator, literal and indexed identifier, strings with escapes, arrays and constant "
    "arrays, uninterpreted functions and sorts, quoted symbols, comments, push / pop - is read by the "
    "interpreted parser and by an independent reader written from the standard (sa/refsmt.py); every "
    "asserted term the parser returns must denote what the reference says the text denotes (structurally, "
    "or by exhaustive evaluation over small domains), get_last_formula must be the conjunction of the live "
    "assertions, well-formed text handled today must stay accepted, and ill-formed text rejected today "
    "must stay rejected (R9).  Operator tokens: the token list is the reference list of spellings accepted on "
    "the pinned tree joined with the keys of the table of a parser instance obtained by interpreting its "
    "constructor; each token is applied to the operand tuples of a menu (Bool / Int / Real / bit-vector / String / "
    "array operands, arity 1-3, mixed tuples), the reference reader selects the well-sorted applications (~160) "
    "and each of them, read by the interpreted parser - table look-up, the '-' and '=' disambiguation, Int-to-Real "
    "promotion, constructors, type check - denotes what the standard says; applications pySMT rejects with an "
    "error on the pinned tree (chained / n-ary forms, Int division, pow) are tabled with their reason (R1).  "
    "Commands: one script per command accepted on the pinned tree is still accepted and read as written (R7).  "
    "A parser object used for a second script reads it exactly as a fresh parser does: logic, definitions, "
    "let bindings, sort abbreviations and open levels of the first script are gone (R8).")
NOT_DECIDED = ["texts outside the corpus", "leniency: four kinds of ill-formed text are accepted with their "
               "evident reading (assert of a non-Boolean term, identical redeclaration, pop below level 0, use of "
               "a symbol after the pop of its declaration); they are listed in the rule, not reported"]


def run(ctx):
    repo = get_repo()
    ctx.analysed["modules"] = ["pysmt/smtlib/parser/parser.py", "pysmt/smtlib/commands.py"]

    if ctx.want("R1"):
        rs = ctx.rule("R1", "every operator token, applied to operands of each sort family, is read as the standard's function (generated applications)")
        from . import c08_tokens
        c08_tokens.run(ctx, rs)

    if ctx.want("R9"):
        rs = ctx.rule("R9", "import corpus: the interpreted parser and the independent reader agree on every asserted term")
        from . import text_deep as td
        for r in td.import_results(repo, ctx.tier):
            name, kind, exp = r["name"], r["kind"], r["expect"]
            loc = "pysmt/smtlib/parser/parser.py"
            if kind == "unsupported":
                rs.unrec("%s: %s" % (name, r["detail"][:160]))
            elif exp == "accept":
                if kind == "valid":
                    if r["last"] and r["last"][0] == "invalid":
                        ctx.finding(rs, "import|%s|last-formula" % name, "script %s: %s" % (name, r["last"][1]), "pysmt/smtlib/script.py")
                    else:
                        rs.ok({"script": name, "checked": r["detail"], "get_last_formula": r["last"][0] if r["last"] else None})
                elif kind == "invalid":
                    ctx.finding(rs, "import|%s" % name, "script %s is misread: %s" % (name, r["detail"]), loc)
                elif kind == "accepted-illformed":
                    ctx.finding(rs, "import|%s" % name, "script %s: %s" % (name, r["detail"]), loc)
                else:
                    ctx.finding(rs, "import|%s|rejected" % name, "script %s, handled before, is now rejected: %s" % (name, r["detail"]), loc)
            elif exp == "may-reject":
                if kind in ("valid", "rejected-valid"):
                    rs.ok({"script": name, "outcome": "read correctly" if kind == "valid" and "rejected" not in r["detail"] else "rejected with an error"})
                else:
                    ctx.finding(rs, "import|%s" % name, "script %s is misread: %s" % (name, r["detail"]), loc)
            elif exp == "reject":
                if kind == "valid":
                    rs.ok({"script": name, "outcome": r["detail"][:120]})
                else:
                    ctx.finding(rs, "import|%s|accepted" % name,
                                "ill-formed script %s is accepted silently: %s" % (name, r["detail"]), loc)
            else:   # lenient
                rs.ok({"script": name, "outcome": "lenient: " + r["detail"][:120] if kind != "valid" else r["detail"][:120]})
        ctx.floor(rs, 80)

    if ctx.want("R7"):
        rs = ctx.rule("R7", "every command accepted on the pinned tree is still accepted and read as written (one script per command)")
        from . import c08_tokens
        c08_tokens.run_commands(ctx, rs)

    if ctx.want("R8"):
        rs = ctx.rule("R8", "a parser object used for a second script reads it as a fresh parser does (logic, definitions, bindings, sort abbreviations of the first script are gone)")
        from . import text_deep as td
        for name, how, kind, detail in td.reuse_results(repo, ctx.tier):
            if kind == "valid":
                rs.ok({"first script": name, "second script read by": how, "result": detail})
            elif kind == "invalid":
                ctx.finding(rs, "reuse|%s|%s" % (name, how), "%s (%s): %s" % (name, how, detail), "pysmt/smtlib/parser/parser.py")
            else:
                rs.unrec("%s (%s): %s" % (name, how, detail[:160]))
        ctx.floor(rs, 8)
