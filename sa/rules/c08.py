"""C08 -- SMT-LIB import never misreads."""
import ast

from ..common import (get_repo, get_ops, short, norm, CFG, normal_only, method_loc, calls_in,
                      attr_tail, parents, names_in)
from ..opsets import ConstEval, NotConst
from ..tables import smtlib as T

PARSER = "pysmt.smtlib.parser.parser.SmtLibParser"
CACHE = "pysmt.smtlib.parser.parser.SmtLibExecutionCache"

EXPLANATION = (
    "Static analysis of pysmt/smtlib/parser/parser.py: every entry of the operator-token table maps "
    "its token to the constructor that realises the standard's meaning, through the adapters (R1); "
    "indexed identifiers read their indices in the standard's order and pass them to the right "
    "parameters (R2); literal notations #b/#x and the numeral typing table (R3); let bindings are "
    "simultaneous: no binding of a let is installed while a sibling's value is still being parsed "
    "(R4); every bind has its unbind on the matching exit (R5); token interpretation never falls "
    "back silently to a value of another kind (R6); nothing accepted today disappears: the token and "
    "command tables are supersets of the sets confirmed on this tree (R7).")
NOT_DECIDED = ["denotation of arbitrary parsed text", "scoping of defined names against binders "
               "(definition lookup precedes the binding stack: recorded as observation F-C08-3)"]


def token_table(repo):
    """token -> ('ctor', name) | ('self', attr) | ('enter', method) as written in __init__."""
    cls, init = repo.method(PARSER, "__init__")
    table = {}
    fix = {}
    for n in ast.walk(init):
        if isinstance(n, ast.Assign) and isinstance(n.targets[0], ast.Attribute) and \
                isinstance(n.value, ast.Call) and attr_tail(n.value) == "partial" and len(n.value.args) == 2 \
                and norm(n.value.args[0]) == "fix_real":
            fix[n.targets[0].attr] = attr_tail(n.value.args[1])
        tgt = None
        if isinstance(n, ast.Assign):
            tgt = n.targets[0]
        elif isinstance(n, ast.AnnAssign):
            tgt = n.target
        if tgt is not None and norm(tgt) == "self.interpreted" and isinstance(n.value, ast.Dict):
            for k, v in zip(n.value.keys, n.value.values):
                if not isinstance(k, ast.Constant):
                    continue
                if isinstance(v, ast.Call) and attr_tail(v) == "_operator_adapter" and len(v.args) == 1:
                    a = v.args[0]
                    if isinstance(a, ast.Attribute) and norm(a.value) == "mgr":
                        table[k.value] = ("ctor", a.attr)
                    elif isinstance(a, ast.Attribute) and norm(a.value) == "self":
                        table[k.value] = ("self", a.attr)
                    else:
                        table[k.value] = ("?", norm(a))
                elif isinstance(v, ast.Attribute) and norm(v.value) == "self":
                    table[k.value] = ("enter", v.attr)
                else:
                    table[k.value] = ("?", norm(v))
    return table, fix


def run(ctx):
    repo = get_repo()
    ctx.analysed["modules"] = ["pysmt/smtlib/parser/parser.py", "pysmt/smtlib/commands.py"]
    table, fix = token_table(repo)
    ctx.analysed["tokens"] = len(table)

    if ctx.want("R1"):
        rs = ctx.rule("R1", "operator-token table maps every token to the right constructor")
        if not table:
            ctx.error("R1", "self.interpreted table not found")
        for k, v in sorted(fix.items()):
            if T.FIX_REAL.get(k) == v:
                rs.ok({"adapter": "self.%s" % k, "wraps": "mgr.%s" % v})
            elif k in T.FIX_REAL:
                ctx.finding(rs, "%s.__init__|fix_real|%s" % (PARSER, k),
                            "parser adapter self.%s wraps mgr.%s instead of mgr.%s" % (k, v, T.FIX_REAL[k]),
                            method_loc(repo, PARSER, repo.method(PARSER, "__init__")[1]))
        for tok, (kind, name) in sorted(table.items()):
            want = T.TOKENS.get(tok)
            if tok in T.SPECIAL_TOKENS:
                if kind == "enter" and name == T.SPECIAL_TOKENS[tok]:
                    rs.ok({"token": tok, "handler": name})
                else:
                    ctx.finding(rs, "%s.interpreted|%s" % (PARSER, tok), "token '%s' is handled by %s %s, expected %s"
                                % (tok, kind, name, T.SPECIAL_TOKENS[tok]),
                                method_loc(repo, PARSER, repo.method(PARSER, "__init__")[1]))
                continue
            if want is None:
                rs.unrec("token '%s' has no reference entry (%s %s)" % (tok, kind, name))
                continue
            got = None
            if kind == "ctor":
                got = name
            elif kind == "self":
                if name in fix:
                    got = fix[name]
                else:
                    got = "<%s>" % name.lstrip("_")
            if got == want:
                rs.ok({"token": tok, "constructor": got})
            else:
                ctx.finding(rs, "%s.interpreted|%s" % (PARSER, tok),
                            "token '%s' is read as %s; the standard's meaning is %s" % (tok, got, want),
                            method_loc(repo, PARSER, repo.method(PARSER, "__init__")[1]))
        # adapters
        cls, f = repo.method(PARSER, "_equals_or_iff")
        txt = norm(f)
        if "return mgr.Iff(left, right)" in txt and "return self.Equals(left, right)" in txt and "BOOL()" in txt:
            rs.ok({"adapter": "_equals_or_iff", "bool": "Iff(left,right)", "other": "Equals(left,right)"})
        else:
            rs.unrec("'=' adapter not in the recognised form (decided by the interpreter rule R1b)")
        cls, f = repo.method(PARSER, "_minus_or_uminus")
        txt = norm(f)
        conds = ["return self.Minus(args[0], args[1])" in txt, "mgr.Int(-1 * args[0].constant_value())" in txt,
                 "mgr.Real(-1 * args[0].constant_value())" in txt, "return mgr.Times(mult, args[0])" in txt,
                 "mult = mgr.Int(-1)" in txt, "mult = mgr.Real(-1)" in txt]
        if all(conds):
            rs.ok({"adapter": "_minus_or_uminus", "binary": "Minus(a,b)", "unary": "-1 * a (constant folded)"})
        else:
            rs.unrec("'-' adapter not in the recognised form %s" % conds)
        cls, f = repo.method(PARSER, "_division")
        txt = norm(f)
        if "Fraction(left.constant_value()) / Fraction(right.constant_value())" in txt and "return self.Div(left, right)" in txt:
            rs.ok({"adapter": "_division", "constants": "left/right exact", "other": "Div(left,right)"})
        else:
            rs.unrec("'/' adapter not in the recognised form")
        ctx.floor(rs, 60)

    if ctx.want("R2"):
        rs = ctx.rule("R2", "indexed identifiers: index order and parameter mapping")
        cls, f = repo.method(PARSER, "_smtlib_underscore")
        branches = {}
        for n in ast.walk(f):
            if isinstance(n, ast.If) and isinstance(n.test, ast.Compare) and norm(n.test.left) == "op" and \
                    isinstance(n.test.comparators[0], ast.Constant):
                branches[n.test.comparators[0].value] = n
        for ident, (ctor, how) in sorted(T.UNDERSCORE.items()):
            br = branches.get(ident)
            if br is None:
                ctx.finding(rs, "%s._smtlib_underscore|missing|%s" % (PARSER, ident),
                            "(_ %s ...) is no longer handled" % ident, method_loc(repo, cls, f))
                continue
            atoms = []      # variables assigned from parse_atom, in textual order
            conv = {}       # int var -> source atom var
            lam = None
            for s in ast.walk(ast.Module(body=br.body, type_ignores=[])):
                if isinstance(s, ast.Assign) and isinstance(s.value, ast.Call):
                    if attr_tail(s.value) == "parse_atom":
                        atoms.append(s.targets[0].id)
                    elif isinstance(s.value.func, ast.Name) and s.value.func.id == "int" and isinstance(s.value.args[0], ast.Name):
                        conv[s.targets[0].id] = s.value.args[0].id
                if isinstance(s, ast.Assign) and isinstance(s.value, ast.Lambda):
                    lam = s.value
            if lam is None or not isinstance(lam.body, ast.Call):
                rs.unrec("(_ %s): constructor lambda not recognised" % ident)
                continue
            call = lam.body
            got_ctor = attr_tail(call)
            args = [norm(a) for a in call.args]
            if got_ctor != ctor:
                ctx.finding(rs, "%s._smtlib_underscore|%s|ctor" % (PARSER, ident),
                            "(_ %s i) builds %s, expected %s" % (ident, got_ctor, ctor), method_loc(repo, cls, call))
                continue
            idx_args = args[1:]
            srcs = [conv.get(a, a) for a in idx_args]
            if ident == "extract":
                # atoms[0] is the high index, atoms[1] the low; BVExtract(x, start=low, end=high)
                if len(atoms) == 2 and srcs == [atoms[1], atoms[0]] and not call.keywords:
                    rs.ok({"identifier": ident, "reads": "high then low", "builds": "BVExtract(x, start=low, end=high)"})
                else:
                    ctx.finding(rs, "%s._smtlib_underscore|extract|order" % PARSER,
                                "(_ extract i j) reads %s and builds %s(%s): start must be the second index, end the first"
                                % (atoms, got_ctor, ", ".join(args)), method_loc(repo, cls, call))
            else:
                if len(atoms) == 1 and srcs == [atoms[0]]:
                    rs.ok({"identifier": ident, "builds": "%s(x, %s)" % (ctor, how)})
                else:
                    ctx.finding(rs, "%s._smtlib_underscore|%s|index" % (PARSER, ident),
                                "(_ %s i) passes %s" % (ident, args), method_loc(repo, cls, call))
        # (_ bvN w)
        bvb = [n for n in ast.walk(f) if isinstance(n, ast.If) and norm(n.test) == "op.startswith('bv')"]
        if bvb and "v = int(op[2:])" in norm(bvb[0]) and "fun = mgr.BV(v, width)" in norm(bvb[0]):
            rs.ok({"identifier": "bvN", "builds": "BV(N, width)"})
        else:
            rs.unrec("(_ bvN w) branch")
        ctx.floor(rs, 6)

    if ctx.want("R3"):
        rs = ctx.rule("R3", "literals: #b / #x width and base; numeral typing table")
        cls, f = repo.method(PARSER, "atom")
        txt = norm(f)
        checks = [("#b width", "width = len(token) - 2"), ("#b value", "value = int('0' + token[1:], 2)"),
                  ("#x width", "width = (len(token) - 2) * 4"), ("#x value", "value = int('0' + token[1:], 16)"),
                  ("bv build", "res = mgr.BV(value, width)"),
                  ("string unescape", "val = val.replace('\"\"', '\"')"), ("string body", "val = token[1:-1]")]
        for what, frag in checks:
            if frag in txt:
                rs.ok({"literal": what, "code": frag})
            else:
                rs.unrec("literal handling (%s) not in the recognised form `%s`" % (what, frag))
        # numeral typing decision table
        want = ["if frac.denominator == 1:", "if self.logic is None or self.logic.theory.integer_arithmetic:",
                "if '.' in token:", "res = mgr.Real(frac)", "res = mgr.Int(frac.numerator)"]
        if all(w in txt for w in want):
            # structure: Int only when denominator 1, logic unset or has ints, and no '.'
            ints = [n for n in ast.walk(f) if isinstance(n, ast.Assign) and norm(n.value) == "mgr.Int(frac.numerator)"]
            par = parents(f)
            guards = []
            p = ints[0]
            while p in par:
                q = par[p]
                if isinstance(q, ast.If):
                    guards.append((norm(q.test), p in q.body))
                p = q
            need = {("'.' in token", False), ("self.logic is None or self.logic.theory.integer_arithmetic", True),
                    ("frac.denominator == 1", True)}
            if need <= set(guards):
                rs.ok({"numeral": "Int iff integral, no '.', and logic unset or with integers", "guards": guards})
            else:
                ctx.finding(rs, "%s.atom|numeral-table" % PARSER, "Int literal produced under guards %s" % guards,
                            method_loc(repo, cls, ints[0]))
        else:
            rs.unrec("numeral typing code changed shape")
        ctx.floor(rs, 7)

    if ctx.want("R4"):
        rs = ctx.rule("R4", "let is simultaneous: bindings installed after all values are parsed")
        cls, f = repo.method(PARSER, "_enter_let")
        loops = [n for n in ast.walk(f) if isinstance(n, (ast.While, ast.For))]
        binds = [c for c in calls_in(f) if attr_tail(c) == "bind" and "cache" in norm(c.func)]
        if not binds:
            rs.unrec("_enter_let: no cache.bind found")
        for b in binds:
            inside = [lp for lp in loops if any(x is b for x in ast.walk(lp)) and
                      any(attr_tail(c) == "get_expression" for c in calls_in(lp))]
            if inside:
                ctx.finding(rs, "%s._enter_let|bind-in-parse-loop" % PARSER,
                            "a let binding is installed (%s) inside the loop that parses the sibling bindings' values: "
                            "`(let ((x y) (y x)) ...)` reads the second value under the first binding (sequential, not "
                            "simultaneous let)" % short(b), method_loc(repo, cls, b))
            else:
                rs.ok({"bind": short(b), "after_all_values_parsed": True})
        ctx.floor(rs, 1)

    if ctx.want("R5"):
        rs = ctx.rule("R5", "binder pairing: every bind has its unbind on the matching exit")
        pairs = [("_enter_let", "_exit_let"), ("_enter_quantifier", "_exit_quantifier")]
        for ent, ext in pairs:
            cls, fe = repo.method(PARSER, ent)
            cls, fx = repo.method(PARSER, ext)
            nb = [c for c in calls_in(fe) if attr_tail(c) == "bind"]
            nu = [c for c in calls_in(fx) if attr_tail(c) in ("unbind", "unbind_all")]
            pushes_exit = any(norm(c) == "stack[-1].append(self.%s)" % ext for c in calls_in(fe))
            if nb and nu and pushes_exit:
                loop_unbind = any(isinstance(n, ast.For) and any(attr_tail(c) == "unbind" for c in calls_in(n)) for n in ast.walk(fx)) \
                    or any(attr_tail(c) == "unbind_all" for c in nu)
                if loop_unbind:
                    rs.ok({"enter": ent, "exit": ext, "binds": len(nb), "unbinds": "one per bound name"})
                else:
                    ctx.finding(rs, "%s.%s|partial-unbind" % (PARSER, ext), "%s does not unbind every name bound by %s" % (ext, ent),
                                method_loc(repo, cls, fx))
            elif nb and not pushes_exit:
                ctx.finding(rs, "%s.%s|exit-not-scheduled" % (PARSER, ent), "%s binds but does not schedule %s" % (ent, ext),
                            method_loc(repo, cls, fe))
            elif nb and not nu:
                ctx.finding(rs, "%s.%s|no-unbind" % (PARSER, ext), "%s never unbinds" % ext, method_loc(repo, cls, fx))
            else:
                rs.unrec("%s/%s" % (ent, ext))
        # define-fun parameters
        cls, f = repo.method(PARSER, "_cmd_define_fun")
        cfg = CFG(f)
        bn = [n for n in cfg.nodes if n.ast is not None and n.kind == "stmt" and any(attr_tail(c) == "bind" for c in calls_in(n.ast))]
        un = lambda n: n.ast is not None and n.kind == "stmt" and any(attr_tail(c) == "unbind" for c in calls_in(n.ast))
        if bn and all(cfg.must_pass(b.id, cfg.ret.id, lambda n: n.kind == "for" and any(attr_tail(c) == "unbind" for c in calls_in(n.ast)) or un(n),
                                    follow=normal_only) for b in bn):
            rs.ok({"define-fun": "parameters unbound before the command returns"})
        elif bn:
            ctx.finding(rs, "%s._cmd_define_fun|params-leak" % PARSER,
                        "define-fun parameters stay bound after the definition", method_loc(repo, cls, bn[0].ast))
        # cache primitives
        for nm, frag in (("bind", "lst.append(value)"), ("unbind", "self.keys[name].pop()")):
            cls2, g = repo.method(CACHE, nm)
            if frag in norm(g):
                rs.ok({"cache." + nm: frag})
            else:
                rs.unrec("cache.%s body" % nm)
        ctx.floor(rs, 4)

    if ctx.want("R6"):
        rs = ctx.rule("R6", "no silent fallback when interpreting a token")
        cls, f = repo.method(PARSER, "atom")
        for n in ast.walk(f):
            if isinstance(n, ast.Try):
                for h in n.handlers:
                    raises = any(isinstance(x, ast.Raise) for x in ast.walk(h))
                    builds = [c for c in calls_in(h) if isinstance(c.func, ast.Attribute) and norm(c.func.value) == "mgr"]
                    if raises and not builds:
                        rs.ok({"except": norm(h.type) if h.type else "bare", "action": "raises"})
                    elif builds:
                        ctx.finding(rs, "%s.atom|fallback|%s" % (PARSER, attr_tail(builds[0])),
                                    "a token that is neither bound nor a literal is turned into %s instead of being "
                                    "rejected: an undeclared symbol `foo` silently becomes the string constant \"foo\""
                                    % short(builds[0]), method_loc(repo, cls, h))
                    else:
                        rs.unrec("except handler in atom(): %s" % short(h))
        cls, f = repo.method(PARSER, "get_command")
        if "raise UnknownSmtLibCommandError(current)" in norm(f):
            rs.ok({"unknown command": "raises UnknownSmtLibCommandError"})
        else:
            ctx.finding(rs, "%s.get_command|unknown" % PARSER, "unknown commands are not rejected", method_loc(repo, cls, f))
        cls, f = repo.method(PARSER, "_smtlib_underscore")
        if "raise PysmtSyntaxError(\"Unexpected '_' expression '%s'\" % op" in norm(f):
            rs.ok({"unknown indexed identifier": "raises"})
        else:
            rs.unrec("unknown (_ ...) identifier branch")
        ctx.floor(rs, 2)

    if ctx.want("R7"):
        rs = ctx.rule("R7", "constructs accepted today keep being accepted (token and command sets)")
        have = set(table)
        for tok in sorted(set(T.TOKENS) | set(T.SPECIAL_TOKENS)):
            if tok in ("str.to_int", "str.from_int"):
                continue      # newer spellings, not accepted today
            if tok in have:
                rs.ok({"token": tok})
            else:
                ctx.finding(rs, "%s.interpreted|dropped|%s" % (PARSER, tok), "token '%s' is no longer accepted" % tok,
                            method_loc(repo, PARSER, repo.method(PARSER, "__init__")[1]))
        cls, init = repo.method(PARSER, "__init__")
        cmds = set()
        ce = ConstEval(repo)
        for n in ast.walk(init):
            if isinstance(n, ast.Assign) and norm(n.targets[0]) == "self.commands" and isinstance(n.value, ast.Dict):
                for k in n.value.keys:
                    try:
                        cmds.add(ce.expr(repo.cls(PARSER).module, k))
                    except NotConst:
                        pass
        for c in sorted(T.COMMANDS_ACCEPTED_TODAY):
            if c in cmds:
                rs.ok({"command": c})
            else:
                ctx.finding(rs, "%s.commands|dropped|%s" % (PARSER, c), "command '%s' is no longer accepted" % c,
                            method_loc(repo, cls, init))
        ctx.floor(rs, 90)

    if ctx.want("R8"):
        rs = ctx.rule("R8", "parser reset completeness: state changed by commands is re-initialised by _reset")
        ci = repo.cls(PARSER)
        reset = ci.own_func("_reset")
        if reset is None:
            ctx.error("R8", "SmtLibParser._reset vanished")
        else:
            from ..common import stores_in, is_self_attr
            in_reset = set(t.attr for t, _ in stores_in(reset) if is_self_attr(t))
            changed = {}
            for nm in ci.order:
                f = ci.own_func(nm)
                if f is None or nm in ("__init__", "_reset"):
                    continue
                for t, st in stores_in(f):
                    if is_self_attr(t):
                        changed.setdefault(t.attr, (nm, st))
            for attr, (nm, st) in sorted(changed.items()):
                if attr in in_reset:
                    rs.ok({"attribute": attr, "changed_by": nm, "reset": True})
                else:
                    ctx.finding(rs, "%s._reset|state-not-reset|%s" % (PARSER, attr),
                                "%s changes self.%s (%s) but _reset does not re-initialise it: a parser object re-used for a "
                                "second script keeps the value set by the first one" % (nm, attr, short(st)),
                                method_loc(repo, PARSER, reset))
            cls, gs = repo.method(PARSER, "get_script")
        ctx.floor(rs, 1)

