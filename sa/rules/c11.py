"""C11 -- CNF conversion and Ackermannization preserve satisfiability model-by-model."""
import ast

from ..common import (get_repo, get_ops, get_tables, short, norm, method_loc, calls_in, attr_tail,
                      parents, names_in, handler_funcs, dispatch_rule)

CNF = "pysmt.rewritings.CNFizer"
PCNF = "pysmt.rewritings.PolarityCNFizer"
ACK = "pysmt.rewritings.Ackermannizer"

EXPLANATION = (
    "Abstract interpretation of pysmt/rewritings.py: CNFizer.convert and PolarityCNFizer.convert are "
    "interpreted from source on operator skeletons over opaque Boolean leaves and theory atoms (constants "
    "in every position included); the returned clause set is decided by complete truth table to be "
    "equisatisfiable model-by-model: every model of the input extends to the definition variables and "
    "every model of the clauses restricts to a model of the input (R1).  The Ackermannizer is interpreted "
    "on skeletons with nested, repeated and Boolean-valued applications: no application survives, and "
    "the result is equisatisfiable with the input under every 1-bit function table, also when the same "
    "Ackermannizer instance served another formula with the same applications before (R3d).  Exhaustive "
    "dispatch of both CNF converters, quantifiers rejected explicitly (R0).")
NOT_DECIDED = ["model extension / restriction for arbitrary formulas beyond the per-connective argument of R1"]


def run(ctx):
    repo = get_repo()
    ctx.analysed["modules"] = ["pysmt/rewritings.py"]

    if ctx.want("R0"):
        rs = ctx.rule("R0", "dispatch of the CNF converters (quantifiers rejected explicitly)")
        dispatch_rule(ctx, rs, CNF, exempt={"ITE": "x"} if False else None)
        dispatch_rule(ctx, rs, PCNF)
        ctx.floor(rs, 120)

    from . import c11_deep
    c11_deep.run(ctx)
