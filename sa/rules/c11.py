"""C11 -- CNF conversion and Ackermannization preserve satisfiability model-by-model."""
import ast

from ..common import (get_repo, get_ops, get_tables, short, norm, method_loc, calls_in, attr_tail,
                      parents, names_in, handler_funcs, dispatch_rule)

CNF = "pysmt.rewritings.CNFizer"
PCNF = "pysmt.rewritings.PolarityCNFizer"
ACK = "pysmt.rewritings.Ackermannizer"

EXPLANATION = (
    "Abstract interpretation of pysmt/rewritings.py: CNFizer.convert and PolarityCNFizer.convert are "
    "interpreted from source on operator skeletons over opaque Boolean leaves and theory atoms (constants "
    "in every position included); the returned clause set is decided by complete truth table to be "
    "equisatisfiable model-by-model: every model of the input extends to the definition variables and "
    "every model of the clauses restricts to a model of the input (R1).  The Ackermannizer is interpreted "
    "on skeletons with nested, repeated and Boolean-valued applications: no application survives, and "
    "the result is equisatisfiable with the input under every 1-bit function table, also when the same "
    "Ackermannizer instance served another formula with the same applications before, with input symbols spelled "
    "like the generated constants, with applications stored in array values (R3d).  The module-level wrappers "
    "cnf / cnf_as_set called in a second real environment after the first converted other formulas give the "
    "results of a fresh run and contain no node of the first environment (R4).  Exhaustive "
    "dispatch of both CNF converters, quantifiers rejected explicitly (R0).")
NOT_DECIDED = ["model extension / restriction for arbitrary formulas beyond the per-connective argument of R1"]


def run(ctx):
    repo = get_repo()
    ctx.analysed["modules"] = ["pysmt/rewritings.py"]

    if ctx.want("R0"):
        rs = ctx.rule("R0", "dispatch of the CNF converters (quantifiers rejected explicitly)")
        dispatch_rule(ctx, rs, CNF, exempt={"ITE": "x"} if False else None)
        dispatch_rule(ctx, rs, PCNF)
        ctx.floor(rs, 120)

    if ctx.want("R4"):
        rs = ctx.rule("R4", "real managers: cnf / cnf_as_set (and nnf, aig, prenex) called in a second environment, on top of the stack, after the first one converted other formulas: results as when the first did nothing, no node of the first environment in them")
        from . import mgr_deep
        mgr_deep.report(ctx, rs, [r for r in mgr_deep.xenv_results() if r[0] != "ok" or ("ForAll" not in r[1] and "Exists" not in r[1] and "BV" not in r[1])],
                        "pysmt/rewritings.py", 3)

    from . import c11_deep
    c11_deep.run(ctx)
