"""C11 -- CNF conversion and Ackermannization preserve satisfiability model-by-model."""
import ast

from ..common import (get_repo, get_ops, get_tables, short, norm, method_loc, calls_in, attr_tail,
                      parents, names_in, handler_funcs, dispatch_rule)

CNF = "pysmt.rewritings.CNFizer"
PCNF = "pysmt.rewritings.PolarityCNFizer"
ACK = "pysmt.rewritings.Ackermannizer"

EXPLANATION = (
    "Static analysis of pysmt/rewritings.py: the clause set each CNFizer / PolarityCNFizer handler "
    "emits for and/or/not/implies/iff/ite over symbolic leaves and the fresh definition variable is "
    "decided by complete truth table to be k<->op (full) resp. k->op / op->k by polarity (R1, "
    "abstract interpreter); the top-level clean-up of convert() uses only satisfiability-preserving "
    "actions (R2); Ackermannization replaces every application from the term table, ranges the "
    "consistency implications over all unordered pairs of argument tuples per function, and uses the "
    "rewritten argument terms (R3, taint: formula.args() must not reach the recorded tuples).")
NOT_DECIDED = ["model extension / restriction for arbitrary formulas beyond the per-connective argument of R1"]


def run(ctx):
    repo = get_repo()
    ctx.analysed["modules"] = ["pysmt/rewritings.py"]

    if ctx.want("R0"):
        rs = ctx.rule("R0", "dispatch of the CNF converters (quantifiers rejected explicitly)")
        dispatch_rule(ctx, rs, CNF, exempt={"ITE": "x"} if False else None)
        dispatch_rule(ctx, rs, PCNF)
        ctx.floor(rs, 120)

    if ctx.want("R2"):
        rs = ctx.rule("R2", "top-level clean-up of convert() uses only satisfiability-preserving actions")
        cls, f = repo.method(CNF, "convert")
        loops = [n for n in ast.walk(f) if isinstance(n, ast.For) and norm(n.target) == "lit"]
        if len(loops) != 1:
            rs.unrec("convert(): literal loop not recognised")
        else:
            chain = [n for n in loops[0].body if isinstance(n, ast.If)]
            cases = []
            cur = chain[0] if chain else None
            while cur is not None:
                act = "drop-clause" if any(isinstance(s, ast.Break) for s in cur.body) else \
                    ("skip-literal" if any(isinstance(s, ast.Continue) for s in cur.body) else
                     ("keep-literal" if any("simp.append(lit)" in norm(s) for s in cur.body) else "?"))
                cases.append((norm(cur.test), act))
                cur = cur.orelse[0] if len(cur.orelse) == 1 and isinstance(cur.orelse[0], ast.If) else None
            want = {
                "lit.is_true()": "drop-clause",
                "lit == tl": "drop-clause",
                "lit == self.mgr.Not(tl).simplify()": "skip-literal",
                "not lit.is_false()": "keep-literal",
            }
            for test, act in cases:
                if test in want and want[test] == act:
                    rs.ok({"literal_case": test, "action": act})
                elif test in want:
                    ctx.finding(rs, "%s.convert|cleanup|%s" % (CNF, test),
                                "top-level clean-up does `%s` for literals with `%s`; only `%s` preserves satisfiability"
                                % (act, test, want[test]), method_loc(repo, cls, loops[0]))
                else:
                    rs.unrec("clean-up case `%s` -> %s" % (test, act))
            # empty clause => FALSE_CNF ; empty cnf => unit clause of the top literal
            txt = norm(f)
            if "if len(clause) == 0:\n            return CNFizer.FALSE_CNF" in txt:
                rs.ok({"empty clause": "FALSE_CNF"})
            if "if len(_cnf) == 0:\n        return frozenset([frozenset([tl])])" in txt:
                rs.ok({"no definitions": "unit clause of the top-level literal"})
        ctx.floor(rs, 4)

    if ctx.want("R3"):
        rs = ctx.rule("R3", "Ackermannization: rewritten arguments, all pairs, every application replaced")
        cls, wf = repo.method(ACK, "walk_function")
        # what is recorded as the argument tuple of an application?
        recorded = []
        for hn in ("walk_function", "_add_args_to_fun"):
            q, f = repo.find_method(ACK, hn)
            for n in ast.walk(f):
                if isinstance(n, ast.Call) and attr_tail(n) == "add" and "_funs_to_args" in norm(n.func):
                    a = n.args[0]
                    src = a
                    if isinstance(a, ast.Name):
                        for s in ast.walk(f):
                            if isinstance(s, ast.Assign) and norm(s.targets[0]) == a.id:
                                src = s.value
                    recorded.append((hn, src, n))
        if not recorded:
            rs.unrec("no recording of argument tuples found")
        # shape B: raw tuples are recorded but every element is rewritten (self.walk) at the point of use
        cls_g, gi = repo.method(ACK, "_generate_implication")
        rewritten_at_use = None
        zl = [n for n in ast.walk(gi) if isinstance(n, ast.For) and isinstance(n.iter, ast.Call) and attr_tail(n.iter) == "zip"]
        if zl:
            lp = zl[0]
            tv = [e.id for e in lp.target.elts] if isinstance(lp.target, ast.Tuple) else []
            full = set()
            for st in lp.body:      # only unconditional statements of the loop body count
                if isinstance(st, ast.Assign) and isinstance(st.targets[0], ast.Name) and st.targets[0].id in tv and \
                        isinstance(st.value, ast.Call) and attr_tail(st.value) == "walk" and norm(st.value.func.value) == "self" \
                        and [norm(a) for a in st.value.args] == [st.targets[0].id]:
                    full.add(st.targets[0].id)
                if any(attr_tail(c) in ("EqualsOrIff", "Equals", "Iff") for c in calls_in(st)):
                    break
            rewritten_at_use = bool(tv) and full == set(tv)
        for hn, src, call in recorded:
            t = norm(src)
            if t in ("formula.args()", "formula._content.args"):
                if rewritten_at_use:
                    rs.ok({"recorded": t, "rewritten_at_use": "self.walk(term) on every element before the equality is built"})
                else:
                    ctx.finding(rs, "%s.%s|raw-args-recorded" % (ACK, hn),
                                "the argument tuple recorded for an application is %s (the original children) and the "
                                "consistency implications do not rewrite every element: applications nested inside "
                                "argument terms (f(g(x)+1)) are not replaced and survive in the result" % t,
                                method_loc(repo, ACK, call))
            elif t in ("tuple(args)", "args"):
                rs.ok({"recorded": t})
            else:
                rs.unrec("recorded argument tuple: %s" % t)
        # all unordered pairs
        cls, f = repo.method(ACK, "_generate_implications")
        comb = [c for c in calls_in(f) if attr_tail(c) == "combinations"]
        if comb and len(comb[0].args) == 2 and norm(comb[0].args[1]) == "2" and "possible_args" in norm(comb[0].args[0]):
            rs.ok({"pairs": "combinations(argument tuples of f, 2)"})
        elif comb:
            ctx.finding(rs, "%s._generate_implications|pairs" % ACK, "consistency pairs range over %s" % norm(comb[0]),
                        method_loc(repo, cls, comb[0]))
        else:
            rs.unrec("pair enumeration")
        cls, f = repo.method(ACK, "_get_equality_implications")
        if "for f in self._funs_to_args:" in norm(f) and "self._generate_implications(f)" in norm(f):
            rs.ok({"functions": "every function symbol seen"})
        else:
            rs.unrec("_get_equality_implications shape")
        cls, f = repo.method(ACK, "_generate_implication")
        txt = norm(f)
        if "zip(option1, option2)" in txt and "implication = self.mgr.Implies(left, right)" in txt and \
                "left = self.mgr.And(left_conjuncts)" in txt and "right = self.mgr.EqualsOrIff(app1_const, app2_const)" in txt:
            rs.ok({"implication": "And(arg_i = arg'_i) -> (c_app = c_app')"})
        else:
            rs.unrec("_generate_implication shape")
        # every application replaced: walk_function returns the table entry
        rets = [n for n in ast.walk(wf) if isinstance(n, ast.Return)]
        if rets and all(norm(r.value) == "ack_symbol" for r in rets) and "self._terms_dict[formula]" in norm(wf):
            rs.ok({"walk_function": "returns the constant recorded for the application"})
        else:
            rs.unrec("walk_function return")
        cls, f = repo.method(ACK, "do_ackermannization")
        if "self.mgr.And(function_consistency, substitued_formula)" in norm(f):
            rs.ok({"result": "consistency constraints AND rewritten formula"})
        else:
            rs.unrec("do_ackermannization shape")
        ctx.floor(rs, 4)

    from . import c11_deep
    c11_deep.run(ctx)
