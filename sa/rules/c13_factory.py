"""C13 rule R6: the one-shot shortcuts of the factory (is_sat, is_valid, is_unsat, get_model, get_implicant,
get_unsat_core) never hand a formula to a solver created for a logic that cannot express it.

Factory.is_sat & co. are interpreted on a Factory whose solver tables hold recording probe classes (virtual module):
two solvers that declare different, partly incomparable logics, in a preference order that puts the smaller one
first.  Every probe records the logic it was created with and every formula asserted to it.  For each input (one
formula, or a list of clauses whose detected logics are incomparable) the recorded logic must enable every feature
of every recorded formula; a shortcut may also decline (NoSolverAvailableError / NoLogicAvailableError)."""
from ..absint import AbsRaise, AObj, ClassRef, Unsupported
from ..common import get_repo, parallel_map
from .. import proc
from ..proc import Shape, S, BOOL, INT, REAL
from .c13_deep import required, flags_of

REC_MOD = "sa_probe.recsolvers"
REC_SRC = '''
from pysmt.solvers.solver import IncrementalTrackingSolver, UnsatCoreSolver, Model
from pysmt.solvers.options import SolverOptions
from pysmt.solvers.eager import EagerModel
from pysmt.logics import QF_IDL, QF_LIA, QF_LRA, QF_RDL, QF_UFIDL, QF_UFLIRA, QF_BV, QF_UFBV, QF_AUFBVLIRA, LIA

RECORD = []


class RecOptions(SolverOptions):
    def __call__(self, solver):
        pass


class _Rec(IncrementalTrackingSolver, UnsatCoreSolver):
    OptionsClass = RecOptions

    def __init__(self, environment, logic, **options):
        IncrementalTrackingSolver.__init__(self, environment=environment, logic=logic, **options)
        self.entry = [self.NAME, logic, []]
        RECORD.append(self.entry)

    def _reset_assertions(self):
        pass

    def _add_assertion(self, formula, named=None):
        self.entry[2].append(formula)
        return formula

    def _solve(self, assumptions=None):
        return False

    def _push(self, levels=1):
        pass

    def _pop(self, levels=1):
        pass

    def get_unsat_core(self):
        self._check_unsat_core_config()
        return set(self.assertions)

    def get_model(self):
        return EagerModel(assignment={}, environment=self.environment)

    def _exit(self):
        pass


class IntOnly(_Rec):
    NAME = 'IntOnly'
    LOGICS = [QF_IDL, QF_LIA, QF_UFIDL]


class RealOnly(_Rec):
    NAME = 'RealOnly'
    LOGICS = [QF_RDL, QF_LRA]


class Wide(_Rec):
    NAME = 'Wide'
    LOGICS = [QF_UFLIRA, QF_UFBV, QF_AUFBVLIRA, LIA]
'''


def inputs():
    x, y, z = S("x", INT), S("y", INT), S("z", INT)
    r, s_ = S("r", REAL), S("s", REAL)
    a = S("a")
    u = S("u", ("BV", 8))
    I = lambda v: ("lit", v, INT)
    from fractions import Fraction as F
    R = lambda v: ("lit", F(v), REAL)
    idl = ("LE", ("Minus", x, y), I(3))
    lra = ("LE", R(5), r)
    lia = ("LE", I(7), ("Plus", x, y, x))
    rdl = ("LT", ("Minus", r, s_), R(1))
    uf = ("Not", ("fun", "f", BOOL, (INT,), x))
    bv = ("BVULT", u, ("lit", 3, ("BV", 8)))
    return [
        ("idl", [idl]), ("lia", [lia]), ("lra", [lra]), ("idl & lra", [("And", idl, lra)]), ("bv", [bv]), ("uf idl", [("And", idl, uf)]),
        ("idl ; lra ; !lra", [idl, lra, ("Not", lra)]), ("lra ; lia ; !lra", [lra, lia, ("Not", lra)]), ("idl ; uf ; bv", [idl, uf, bv]),
        ("rdl ; idl", [rdl, idl, ("Not", idl)]), ("lia ; rdl ; a", [lia, rdl, a, ("Not", a)]), ("a ; !a", [a, ("Not", a)]),
    ]


SHORTCUTS = ["is_sat", "is_valid", "is_unsat", "get_model", "get_implicant", "get_unsat_core"]


def _job(job):
    sc_name, (tag, clauses) = job
    repo = get_repo()
    repo.add_virtual(REC_MOD, REC_SRC)
    shape = Shape(("lit", True, BOOL))

    def call(w, it, f0):
        vm = w.repo.modules[REC_MOD]
        classes = dict((n, ClassRef(REC_MOD + "." + n)) for n in ("IntOnly", "RealOnly", "Wide"))
        lm = w.repo.modules["pysmt.logics"]
        fac = AObj("pysmt.factory.Factory", {
            "environment": w.env, "_all_solvers": dict(classes), "_all_unsat_core_solvers": dict(classes),
            "preferences": {"Solver": ["IntOnly", "RealOnly", "Wide"], "Solver supporting Unsat Cores": ["IntOnly", "RealOnly", "Wide"]},
            "_default_logic": it.module_global(lm, "QF_UFLIRA")})
        w.env.attrs["_factory"] = fac
        fs = [proc.build_shape(w, t) for t in clauses]
        arg = fs if sc_name == "get_unsat_core" else (fs[0] if len(fs) == 1 else w.app("And", fs))
        rec = it.module_global(vm, "RECORD")
        n0 = len(rec)
        try:
            it.call(it.getattr(fac, sc_name), [arg])
            outcome = ("ret", None)
        except AbsRaise as ex:
            outcome = ("raise", ex.cls_name)
        rec = it.module_global(vm, "RECORD")
        return (outcome, [list(e) for e in rec[n0:]], fs)

    def post(w, f, val, facts):
        outcome, rec, fs = val
        if outcome[0] == "raise" and outcome[1] in ("NoSolverAvailableError", "NoLogicAvailableError"):
            return proc.ProcResult(shape, "valid", "declines (%s)" % outcome[1])
        if outcome[0] == "raise" and not rec:
            return proc.ProcResult(shape, "raises", outcome[1])
        if not rec:
            return proc.ProcResult(shape, "unsupported", "no solver was created")
        n = 0
        for cls_name, logic, asserted in rec:
            if not isinstance(logic, AObj):
                return proc.ProcResult(shape, "invalid", "solver %s is created with %r, not a logic" % (cls_name, logic))
            lfl = flags_of(logic.attrs["theory"])
            for g in asserted:
                if not w.is_node(g):
                    continue
                req, nonlin = required(w, g)
                miss = sorted(x for x in req if lfl.get(x) is not True)
                if miss:
                    return proc.ProcResult(shape, "invalid", "the solver %s is created for %s and is handed %s, which needs %s"
                                           % (cls_name, logic.attrs.get("name"), proc.sc.node_str(w, g), miss))
                n += 1
        return proc.ProcResult(shape, "valid", "%d formulas handed to a solver whose logic enables them" % n)
    res = proc.run_proc(shape, call, post=post, services="full", max_paths=4, interp_kwargs={"max_steps": 20000000, "max_loop": 200000})
    return [(sc_name, tag, r.kind, str(r.detail)) for r in res]


PF_STUB_MOD = "sa_probe.pfstub"
PF_STUB_SRC = '''
MEMBERS = []


class PortfolioStub(object):
    """stands for pysmt.solvers.portfolio.Portfolio: records the members it is given, when it is given them"""

    def __init__(self, solvers_set, environment, logic, **options):
        self.members = [s for s in solvers_set]
        MEMBERS.append(self.members)

    def __enter__(self):
        return self

    def __exit__(self, exc_type, exc_val, exc_tb):
        return False

    def is_sat(self, formula):
        return True

    def is_valid(self, formula):
        return True

    def is_unsat(self, formula):
        return False
'''


class _PortfolioArgWorld(proc.TypedWorld):
    def global_override(self, it, module, name):
        if module.name == "pysmt.factory" and name == "Portfolio":
            return True, ClassRef(PF_STUB_MOD + ".PortfolioStub")
        return proc.TypedWorld.global_override(self, it, module, name)


def portfolio_argument_results():
    """Factory.is_sat / is_valid / is_unsat with portfolio=<members>: the Portfolio is built over exactly the members given, whatever
    iterable they arrive in (the parameter is an Iterable[str]: a list, a tuple, a one-shot iterator)."""
    from ..absint import ListIter
    repo = get_repo()
    repo.add_virtual(PF_STUB_MOD, PF_STUB_SRC)
    repo.add_virtual(REC_MOD, REC_SRC)
    shape = Shape(("And", S("a"), ("LT", S("x", INT), S("y", INT))))
    names = ["IntOnly", "Wide", ("RealOnly", {"random_seed": 3})]

    def call(w, it, f):
        classes = dict((n, ClassRef(REC_MOD + "." + n)) for n in ("IntOnly", "RealOnly", "Wide"))
        lm = w.repo.modules["pysmt.logics"]
        fac = AObj("pysmt.factory.Factory", {
            "environment": w.env, "_all_solvers": dict(classes), "_all_unsat_core_solvers": dict(classes),
            "preferences": {"Solver": ["IntOnly", "RealOnly", "Wide"], "Solver supporting Unsat Cores": ["IntOnly", "RealOnly", "Wide"]},
            "_default_logic": it.module_global(lm, "QF_UFLIRA")})
        w.env.attrs["_factory"] = fac
        out = []
        for api in ("is_sat", "is_valid", "is_unsat"):
            for form in ("list", "tuple", "one-shot iterator"):
                arg = list(names) if form == "list" else (tuple(names) if form == "tuple" else ListIter(list(names)))
                rec = it.module_global(w.repo.modules[PF_STUB_MOD], "MEMBERS")
                n0 = len(rec)
                try:
                    it.call(it.getattr(fac, api), [f], {"portfolio": arg})
                    got = [list(m) for m in it.module_global(w.repo.modules[PF_STUB_MOD], "MEMBERS")[n0:]]
                    out.append((api, form, "ok" if got == [list(names)] else "bad", got))
                except AbsRaise as ex:
                    out.append((api, form, "bad", "raises %s" % ex.cls_name))
        return out
    res = proc.run_proc(shape, call, post=lambda w, f, v, facts: proc.ProcResult(shape, "valid", v), services="full", max_paths=4,
                        world_cls=_PortfolioArgWorld, interp_kwargs={"max_steps": 20000000, "max_loop": 200000})
    if len(res) != 1 or res[0].kind != "valid":
        return [("factory", "portfolio=", "unsupported", "%s %s" % (res[0].kind, str(res[0].detail)[:200]))]
    return res[0].detail


def _goal_job(idx):
    """Goal.get_logic: the logic reported for an optimisation goal enables the features of the goal's term - asked
    again after the goal grew (MaxSMT goals are extended clause by clause)."""
    shape = Shape(("lit", True, BOOL))
    x, r = S("x", INT), S("r", REAL)
    u = S("u", ("BV", 8))
    a = S("a")
    from fractions import Fraction as F
    clauses = {"int": ("LE", x, ("lit", 3, INT)), "real": ("LE", ("lit", F(5), REAL), r), "bv": ("BVULT", u, ("lit", 3, ("BV", 8))), "bool": a}
    histories = [("int", "bv"), ("int", "real"), ("real", "int"), ("bool", "bv"), ("bv", "int", "real"), ("real", "bool"), ("int", "int")]
    hist = histories[idx]

    def call(w, it, f0):
        gm = w.repo.modules["pysmt.optimization.goal"]
        goal = it.call(it.module_global(gm, "MaxSMTGoal"), [])
        out = []
        for k in hist:
            it.call(it.getattr(goal, "add_soft_clause"), [proc.build_shape(w, clauses[k]), 1])
            try:
                lg = ("ret", it.call(it.getattr(goal, "get_logic"), []))
            except AbsRaise as ex:
                lg = ("raise", ex.cls_name)
            out.append((k, lg, it.call(it.getattr(goal, "term"), [])))
        return out

    def post(w, f, val, facts):
        for i, (k, (st, lg), term) in enumerate(val):
            if st == "raise":
                if lg not in ("NoLogicAvailableError",):
                    return proc.ProcResult(shape, "raises", lg)
                continue
            if not isinstance(lg, AObj):
                return proc.ProcResult(shape, "invalid", "get_logic returns %r" % (lg,))
            req, _nl = required(w, term)
            lfl = flags_of(lg.attrs["theory"])
            miss = sorted(x_ for x_ in req if lfl.get(x_) is not True)
            if miss:
                return proc.ProcResult(shape, "invalid", "after the clauses %s the goal reports the logic %s, its term %s needs %s"
                                       % (list(hist[:i + 1]), lg.attrs.get("name"), proc.sc.node_str(w, term), miss))
        return proc.ProcResult(shape, "valid", "%d extensions, logic adequate after each" % len(val))
    res = proc.run_proc(shape, call, post=post, services="full", max_paths=4, interp_kwargs={"max_steps": 20000000, "max_loop": 200000})
    return [("MaxSMTGoal.get_logic", " then ".join(hist), r.kind, str(r.detail)) for r in res]


def run(ctx):
    if ctx.want("R7"):
        rs7 = ctx.rule("R7", "optimisation goals: the logic a goal reports enables the features of its term, also after the goal was extended")
        for res in parallel_map(_goal_job, list(range(7))):
            for sc_name, tag, kind, detail in res:
                if kind == "valid":
                    rs7.ok({"goal": sc_name, "soft clauses": tag, "result": detail})
                elif kind == "invalid":
                    ctx.finding(rs7, "goal-logic|%s" % tag, "%s (%s): %s" % (sc_name, tag, detail), "pysmt/optimization/goal.py")
                else:
                    rs7.unrec("%s (%s): %s" % (sc_name, tag, detail[:160]))
        ctx.floor(rs7, 5)
    if not ctx.want("R6"):
        return
    rs = ctx.rule("R6", "factory shortcuts: every formula is handed to a solver created for a logic that enables its features")
    jobs = [(sc_, inp) for sc_ in SHORTCUTS for inp in inputs()]
    for res in parallel_map(_job, jobs):
        for sc_name, tag, kind, detail in res:
            if kind == "valid":
                rs.ok({"shortcut": sc_name, "input": tag, "result": detail})
            elif kind == "invalid":
                ctx.finding(rs, "shortcut|%s|%s" % (sc_name, tag), "%s(%s): %s" % (sc_name, tag, detail), "pysmt/factory.py")
            elif kind == "raises":
                rs.unrec("%s(%s) raises %s" % (sc_name, tag, detail))
            else:
                rs.unrec("%s(%s): %s" % (sc_name, tag, detail[:160]))
    ctx.floor(rs, 40)
