"""C14 deep rule R2: cached Theory answers are never mutated (shared run with C13 R1d)."""
from . import c13_deep


def run(ctx):
    if not ctx.want("R2"):
        return
    rs = ctx.rule("R2", "analysing a term leaves the cached theories of its sub-terms unchanged")
    for res in c13_deep.results(ctx.tier):
        for shape, kind, detail, result in res:
            if kind == "stale":
                ctx.finding(rs, "TheoryOracle|cached-answer-mutated|%s" % shape,
                            "after get_theory(%s) the memoised theory of a sub-term was modified in place (%s): later "
                            "queries on formulas sharing that sub-term see the modified theory" % (shape, detail),
                            "pysmt/oracles.py")
            elif kind in ("valid", "invalid"):
                rs.ok({"shape": shape, "memoised_subterms": "unchanged"})
            elif kind not in ("vacuous",):
                rs.unrec("get_theory(%s): %s" % (shape, detail[:100]))
    ctx.floor(rs, 45)


# ------------------------------------------------------------------------------------------------------
# R7: history independence of the environment's services, by interpretation.
#
# For each service of the environment (simplify, substitute, type, free symbols, atoms, sorts, size, theory,
# quantifier-freeness, nnf, prenex, aig, cnf) and each target skeleton f, the service is interpreted on f
#   (a) in a fresh environment, and
#   (b) in an environment in which the same services were first applied to *other* formulas that share
#       sub-terms with f, use the same symbols in other roles, and (for substitution) other maps;
# the two results must be equal up to the order of commutative arguments and the names of fresh symbols, and
# repeating the call in (b) must return the very same object when no fresh symbol is involved.
from ..absint import AbsRaise, AObj, Unsupported          # noqa: E402
from ..common import parallel_map                         # noqa: E402
from .. import proc
from ..world import World                                       # noqa: E402
from ..proc import Shape, S, BOOL, INT, REAL              # noqa: E402
from .. import simpcheck as sc                            # noqa: E402
import re as _re                                          # noqa: E402

COMMUTATIVE = {"AND", "OR", "PLUS", "TIMES", "IFF", "EQUALS", "BV_AND", "BV_OR", "BV_XOR", "BV_ADD", "BV_MUL"}


def ac_sig(w, v):
    """canonical signature: children of commutative operators sorted, fresh names normalised"""
    if w.is_node(v):
        op = w.opname(v)
        if op == "SYMBOL":
            return ("sym", _re.sub(r"FV\d+", "FV#", str(w.npayload(v)[0])))
        kids = [ac_sig(w, a) for a in w.nargs(v)]
        if op in COMMUTATIVE:
            kids = sorted(kids, key=repr)
        p = w.npayload(v)
        if op in ("FORALL", "EXISTS"):
            p = tuple(ac_sig(w, x) for x in p)
        elif op == "FUNCTION":
            p = ac_sig(w, p)
        elif isinstance(p, (tuple, list)):
            p = tuple(repr(x) if not w.is_node(x) else ac_sig(w, x) for x in p)
        elif isinstance(p, AObj):
            if w.is_node(p):
                p = ac_sig(w, p)
            else:
                try:
                    p = str(w.sort_of_tyobj(p))
                except Exception:
                    p = ("obj", p.cls)
        return (op, tuple(kids), repr(p))
    if isinstance(v, (list, tuple)):
        return tuple(ac_sig(w, x) for x in v)
    if isinstance(v, (set, frozenset)):
        return frozenset(ac_sig(w, x) for x in v)
    if isinstance(v, dict):
        return frozenset((ac_sig(w, a), ac_sig(w, b)) for a, b in v.items())
    if isinstance(v, AObj):
        if v.cls.endswith(".Theory") or v.cls.endswith(".Logic"):
            return (v.cls, tuple(sorted((k, repr(x)) for k, x in v.attrs.items() if isinstance(x, (bool, int, str, type(None))))))
        try:
            return ("obj", v.cls, str(w.sort_of_tyobj(v)))
        except Exception:
            return ("obj", v.cls)
    return v


def _services():
    def meth(name, *extra):
        return lambda w, it, f: it.call(it.getattr(f, name), list(extra))

    def modfn(mod, name):
        return lambda w, it, f: it.call(it.module_global(w.repo.modules[mod], name), [f])
    sub = lambda w, it, f: it.call(it.getattr(f, "substitute"), [{w.symbol("a", ("BOOL",)): w.symbol("c", ("BOOL",)),
                                                                  w.symbol("x", ("INT",)): w.symbol("y", ("INT",))}])
    def smt_text(w, it, f):
        fn = it.module_global(w.repo.modules["pysmt.smtlib.printers"], "to_smtlib")
        return it.call(fn, [f], {"daggify": False})

    def smt_script(w, it, f):
        from ..absint import ExtRef
        mk = it.module_global(w.repo.modules["pysmt.smtlib.script"], "smtlibscript_from_formula")
        sio = it.call(ExtRef("io.StringIO"), [])
        it.call(it.getattr(it.call(mk, [f]), "serialize"), [sio], {"daggify": True})
        text = it.call(it.getattr(sio, "getvalue"), [])
        # the declarations are written in the iteration order of a set of symbols: compared as a multiset of lines
        return tuple(sorted(text.split("\n"))) if isinstance(text, str) else text
    def size_m(mname):
        return lambda w, it, f: it.call(it.getattr(f, "size"), [it.getattr(it.getattr(w.env, "sizeo"), mname)])

    def simplify_twice(w, it, f):
        """simplify applied to its own result: compared with a fresh Simplifier instance on that result"""
        r1 = it.call(it.getattr(f, "simplify"), [])
        r2 = it.call(it.getattr(r1, "simplify"), [])
        fresh = w.new_walker("pysmt.simplifier.Simplifier", w.env)
        r2f = it.call(it.getattr(fresh, "simplify"), [r1])
        return ("own result", r2 is r2f, ac_sig(w, r2), ac_sig(w, r2f))
    return {
        "size (depth)": (size_m("MEASURE_DEPTH"), False), "size (leaves)": (size_m("MEASURE_LEAVES"), False),
        "size (dag nodes)": (size_m("MEASURE_DAG_NODES"), False), "size (symbols)": (size_m("MEASURE_SYMBOLS"), False),
        "simplify of a simplified term": (simplify_twice, False),
        "serialize": (meth("serialize"), False), "to_smtlib": (smt_text, False), "smt-lib script": (smt_script, False),
        "simplify": (meth("simplify"), False), "substitute": (sub, False), "get_type": (meth("get_type"), False),
        "free variables": (meth("get_free_variables"), False), "atoms": (meth("get_atoms"), False),
        "size": (meth("size"), False), "get_logic": (modfn("pysmt.oracles", "get_logic"), False),
        "nnf": (modfn("pysmt.rewritings", "nnf"), False), "prenex": (modfn("pysmt.rewritings", "prenex_normal_form"), True),
        "aig": (modfn("pysmt.rewritings", "aig"), False), "cnf": (modfn("pysmt.rewritings", "cnf"), True),
    }


def _history_shapes():
    a, b, c = S("a"), S("b"), S("c")
    x, y, z = S("x", INT), S("y", INT), S("z", INT)
    lt = ("LT", ("Plus", x, y), z)
    o = ("Or", a, lt)
    kw1, kw2 = S("let"), S("push")           # names both concrete syntaxes have to quote, each in its own way
    targets = [("LT", ("Plus", S("yy", INT), ("Times", S("xx", INT), ("lit", -3, INT))), ("lit", 7, INT)),
               ("And", kw1, ("Or", kw2, a)), ("LE", ("Minus", ("Plus", ("lit", 5, INT), ("lit", 3, INT)), x), ("lit", 10, INT)),
               ("LT", ("Plus", ("Minus", ("lit", 5, INT), x), ("lit", 3, INT)), y), ("And", o, ("Not", ("And", b, o))), ("Implies", ("Iff", a, b), ("Ite", c, lt, ("Not", lt))),
               ("forall", [("a", BOOL)], ("Or", a, ("And", b, lt))), ("Equals", ("Times", ("lit", 2, INT), ("Plus", x, y)), ("Minus", z, x))]
    five, three_ = ("lit", 5, INT), ("lit", 3, INT)
    # two stores over one array value, printing of that value: helpers that hand out a description of a node must
    # hand out a fresh one
    AV = ("Array", ("type", INT), ("lit", 0, INT), ("dict", (("lit", 1, INT), ("lit", 5, INT))))
    marr = S("marr", ("ARRAY", INT, INT))
    targets += [("And", ("LT", ("lit", 0, INT), x), ("Or", a, ("LT", ("Plus", y, ("lit", 1, INT)), z))),
                ("And", ("forall", [("x", INT)], ("LT", y, x)), ("Or", ("LT", ("lit", 0, INT), z), b)),
                ("Or", ("exists", [("a", BOOL)], ("And", a, b)), ("Not", ("forall", [("b", BOOL)], ("Or", b, c)))),
                ("Equals", ("Store", AV, three_, ("lit", 30, INT)), marr),
                ("Equals", ("Select", ("Store", AV, three_, ("lit", 30, INT)), ("lit", 2, INT)), x),
                ("Equals", AV, marr)]
    history = [("Store", AV, ("lit", 2, INT), ("lit", 20, INT)), ("Equals", ("Store", AV, ("lit", 2, INT), ("lit", 20, INT)), marr),("LT", ("lit", -3, INT), ("lit", 7, INT)), ("Or", kw1, ("Not", kw2)), ("Plus", ("Minus", five, x), three_), ("Plus", ("Minus", ("Plus", x, y), z), ("lit", 1, INT)),
               o, ("And", b, o), ("Not", lt), ("Plus", x, y), ("Iff", a, b), ("Or", ("And", b, lt), c),
               ("exists", [("b", BOOL)], ("And", b, lt)), ("LE", ("Plus", x, y), ("lit", 0, INT)), ("And", a, ("Not", a))]
    return targets, history


class TypedWorld(World):
    """constructions go through the interpreted type checker, as create_node does: ill-typed ones raise"""

    def __init__(self, *a, **k):
        World.__init__(self, *a, **k)
        self.typecheck = True


def _hist_job(job):
    """One target, a group of services: the history is interpreted once, then every service of the group is asked
    (twice) in that environment; each answer is compared with the answer in a fresh environment."""
    ti, svcs = job
    targets, history = _history_shapes()
    shape = Shape(targets[ti])
    dummy = Shape(("lit", True, BOOL))     # the target is built inside the run: after the history, resp. first
    table = _services()

    def apply(fn, w, it, f):
        try:
            return ("ret", fn(w, it, f))
        except AbsRaise as ex:
            return ("raise", ex.cls_name)

    def call_hist(w, it, f_):
        for hi, ht in enumerate(history):
            h = proc.build_shape(w, ht)
            for nm in ("serialize", "to_smtlib", "simplify", "substitute", "get_type", "free variables", "atoms", "size (depth)", "size",
                       "size (leaves)", "size (symbols)", "get_logic", "nnf", "aig"):
                if w.nsort(h) != ("BOOL",) and nm in ("nnf", "aig", "atoms"):
                    continue
                if nm == "get_logic" and hi % 4:
                    continue          # (the search over the logic table is the costly part of the history)
                try:
                    table[nm][0](w, it, h)
                except AbsRaise:
                    pass
        # another map for the substituter, a failing construction, many unrelated nodes
        try:
            it.call(it.getattr(proc.build_shape(w, history[-1]), "substitute"), [{w.symbol("a", ("BOOL",)): w.symbol("b", ("BOOL",))}])
            w.app("And", w.symbol("x", ("INT",)), w.symbol("a", ("BOOL",)))
        except AbsRaise:
            pass
        # a substitution that fails half-way (the rebuilt term is ill-typed), handled by the caller; either conjunct first
        xs, ys, zs, rs_ = w.symbol("x", ("INT",)), w.symbol("y", ("INT",)), w.symbol("z", ("INT",)), w.symbol("rr", ("REAL",))
        c1 = w.app("LT", w.app("Plus", ys, w.int_const(1)), zs)
        c2 = w.app("LT", w.int_const(0), xs)
        for hf in (w.app("And", c1, c2), w.app("And", c2, c1), w.app("Or", c2, w.app("Not", c1))):
            try:
                it.call(it.getattr(hf, "substitute"), [{xs: w.int_const(5), ys: rs_}])
            except AbsRaise:
                pass
        for i in range(12):
            w.app("Or", w.symbol("u%d" % i, ("BOOL",)), w.symbol("a", ("BOOL",)))
        f = proc.build_shape(w, shape.t)
        # every service is asked once about the target itself before the answers are taken: a service must not
        # change what another one answers about the same formula
        for nm in sorted(table):
            try:
                table[nm][0](w, it, f)
            except AbsRaise:
                pass
        out = {}
        for svc in svcs:
            fn = table[svc][0]
            r1 = apply(fn, w, it, f)
            r2 = apply(fn, w, it, f)
            same = r1[0] == "ret" and r2[0] == "ret" and (r1[1] is r2[1] or (not w.is_node(r1[1]) and ac_sig(w, r1[1]) == ac_sig(w, r2[1])))
            out[svc] = (r1[0], ac_sig(w, r1[1]) if r1[0] == "ret" else r1[1], same)
        return out

    ph = proc.run_proc(dummy, call_hist, post=lambda w, f, v, facts: proc.ProcResult(shape, "valid", v), services="full", max_paths=8,
                       interp_kwargs={"max_steps": 12000000}, world_cls=TypedWorld)
    results = []
    if len(ph) != 1 or ph[0].kind != "valid":
        why = "%s %s" % (ph[0].kind, str(ph[0].detail)[:200])
        return ("unsupported", why)
    return ("ok", ph[0].detail)


def _fresh_job(job):
    """One target, a few services, each in a fresh environment of its own."""
    ti, svcs = job
    targets, _h = _history_shapes()
    shape = Shape(targets[ti])
    dummy = Shape(("lit", True, BOOL))
    table = _services()
    out = {}
    for svc in svcs:
        fn = table[svc][0]

        def call_fresh(w, it, f_, fn=fn):
            try:
                r = ("ret", fn(w, it, proc.build_shape(w, shape.t)))
            except AbsRaise as ex:
                r = ("raise", ex.cls_name)
            return (r[0], ac_sig(w, r[1]) if r[0] == "ret" else r[1])
        pf = proc.run_proc(dummy, call_fresh, post=lambda w, f, v, facts: proc.ProcResult(shape, "valid", v), services="full", max_paths=8,
                           world_cls=TypedWorld)
        if len(pf) != 1 or pf[0].kind != "valid":
            out[svc] = ("unsupported", "%s %s" % (pf[0].kind, str(pf[0].detail)[:200]))
        else:
            out[svc] = ("ok", pf[0].detail)
    return out


def _hist_or_fresh(job):
    kind, j = job
    return _hist_job(j) if kind == "hist" else _fresh_job(j)


def run_history(ctx):
    if not ctx.want("R7"):
        return
    rs = ctx.rule("R7", "services of an environment answer as in a fresh environment after other formulas were built, queried and transformed")
    targets, _h = _history_shapes()
    names = sorted(_services())
    table = _services()
    hist_jobs = [(ti, names) for ti in range(len(targets))]
    fresh_jobs = [(ti, names[k::4]) for ti in range(len(targets)) for k in range(4)]
    res = parallel_map(_hist_or_fresh, [("hist", j) for j in hist_jobs] + [("fresh", j) for j in fresh_jobs])
    hist = dict((j[0], r) for j, r in zip(hist_jobs, res[:len(hist_jobs)]))
    fresh = {}
    for j, r in zip(fresh_jobs, res[len(hist_jobs):]):
        fresh.setdefault(j[0], {}).update(r)
    flat = []
    for ti in range(len(targets)):
        shape = repr(Shape(targets[ti]))
        hk, hv = hist[ti]
        for svc in names:
            fk, fv = fresh[ti][svc]
            if hk != "ok" or fk != "ok":
                flat.append((svc, shape, "unsupported", str(hv if hk != "ok" else fv)))
                continue
            a_, b_ = fv, hv[svc]
            if a_[0] != b_[0]:
                flat.append((svc, shape, "invalid", "fresh environment: %s; after other work: %s" % (a_[0], b_[0])))
            elif a_[0] == "raise":
                flat.append((svc, shape, "valid" if a_[1] == b_[1] else "invalid", "raises %s / %s" % (a_[1], b_[1])))
            elif a_[1] != b_[1]:
                flat.append((svc, shape, "invalid", "the result differs from the one in a fresh environment: %s vs %s"
                             % (str(b_[1])[:160], str(a_[1])[:160])))
            elif not table[svc][1] and not b_[2]:
                flat.append((svc, shape, "invalid", "repeating the call returns a different object"))
            else:
                flat.append((svc, shape, "valid", "same as in a fresh environment; repeatable"))
    for svc, shape, kind, detail in flat:
        if kind == "valid":
            rs.ok({"service": svc, "skeleton": shape, "result": detail})
        elif kind == "invalid":
            ctx.finding(rs, "history|%s|%s" % (svc, shape), "%s on %s: %s" % (svc, shape, detail), "pysmt/environment.py")
        else:
            rs.unrec("%s on %s: %s" % (svc, shape, detail[:160]))
    ctx.floor(rs, 30)
