"""C14 deep rule R2: cached Theory answers are never mutated (shared run with C13 R1d)."""
from . import c13_deep


def run(ctx):
    if not ctx.want("R2"):
        return
    rs = ctx.rule("R2", "analysing a term leaves the cached theories of its sub-terms unchanged")
    for res in c13_deep.results():
        for shape, kind, detail, result in res:
            if kind == "stale":
                ctx.finding(rs, "TheoryOracle|cached-answer-mutated|%s" % shape,
                            "after get_theory(%s) the memoised theory of a sub-term was modified in place (%s): later "
                            "queries on formulas sharing that sub-term see the modified theory" % (shape, detail),
                            "pysmt/oracles.py")
            elif kind in ("valid", "invalid"):
                rs.ok({"shape": shape, "memoised_subterms": "unchanged"})
            elif kind not in ("vacuous",):
                rs.unrec("get_theory(%s): %s" % (shape, detail[:100]))
    ctx.floor(rs, 45)
