"""Traversal protocol of DagWalker, decided by interpreting the real walk()/iter_walk()/_process_stack()/
_compute_node_result()/_push_with_children_to_stack() (whatever they are called and however they are
split into helpers) of every DagWalker subclass the package instantiates, on DAG-shaped formulas with
shared sub-terms.  The handlers that Walker.__init__ collects are wrapped by a recording probe:

  compute-once (C20)   no (node, extra-arguments) pair reaches a handler twice during one walk;
  memo-hit     (C20)   a persistent-memo walker asked again for the same formula calls no handler;
  no-trace     (C15)   a handler raising at the k-th call (every k) leaves the walker in a state in which
                       the next walk - of the same formula, and of another formula under different extra
                       arguments - makes the same handler calls and returns the same result as a fresh walker.

Shapes are concrete, leaves symbolic; nothing of pysmt is executed."""
from ..absint import AbsRaise, Prim, AObj, Unsupported
from ..world import World
from ..common import get_repo, parallel_map
from .. import proc
from ..proc import Shape, S, BOOL, INT

DAG = "pysmt.walkers.dag.DagWalker"


class ProbeWorld(World):
    def __init__(self, *a, **k):
        World.__init__(self, *a, **k)
        self.calls = []          # (walker tag, handler name, node, kwargs signature)
        self.fail_at = None      # raise at the n-th recorded call (1-based) of walker `fail_tag`
        self.fail_tag = None
        self.count = {}
        self.recording = True
        self.handler_steps = 0   # interpreter steps spent inside handlers (not traversal work)
        self.class_tags = {}     # walker class -> tag, for walkers that a service creates per call
        self.wrapping = False    # only the handlers collected by Walker.__init__ are probed: direct
                                 # handler-to-handler calls are not traversal steps

    def wrap_handler(self, it, fn, h):
        world = self
        bound = fn.bound
        if not self.wrapping:
            return fn

        def probe(i, a, k):
            tag = getattr(bound, "probe_tag", None) or world.class_tags.get(getattr(bound, "cls", None))
            if tag is not None and world.recording and a and world.is_node(a[0]):
                sig = tuple(sorted((kk, world._sig(v)) for kk, v in k.items() if kk != "args"))
                world.calls.append((tag, h.name, a[0], sig))
                world.count[tag] = world.count.get(tag, 0) + 1
                if world.fail_tag == tag and world.fail_at == world.count[tag]:
                    raise AbsRaise("ValueError", ("injected handler failure",))
                s0 = i.steps
                try:
                    return i.call(fn, a, k)
                finally:
                    world.handler_steps += i.steps - s0
            return i.call(fn, a, k)
        return Prim(probe, "probe:" + h.name)

    def _sig(self, v):
        if self.is_node(v):
            return ("node", id(v))
        if isinstance(v, dict):
            return tuple(sorted((self._sig(a), self._sig(b)) for a, b in v.items()))
        if isinstance(v, (list, tuple)):
            return tuple(self._sig(x) for x in v)
        if isinstance(v, (bool, int, str, type(None))):
            return v
        return ("obj", id(v))


def _shared_shapes():
    a, b, c = S("a"), S("b"), S("c")
    x, y = S("x", INT), S("y", INT)
    lt = ("LT", x, y)
    o = ("Or", a, b)
    n = ("And", a, ("Not", b))
    return [Shape(("And", o, ("Not", o), ("Implies", o, c))),
            Shape(("Iff", n, n)),
            Shape(("Ite", lt, ("And", o, c), ("Or", ("And", o, c), lt))),
            Shape(("Or", ("And", lt, a), ("Not", ("And", lt, a)), ("Iff", a, ("And", lt, a)))),
            Shape(("And", ("LE", ("Plus", x, y), ("Plus", x, y)), ("Equals", ("Plus", x, y), x)))]


# entry points: class -> (constructor extras, method, builds the argument list from the formula)
def _entries():
    sub = lambda w, f: [f, {w.symbol("a", w.sort_bool()): w.symbol("c", w.sort_bool())}]
    return {
        "pysmt.walkers.identitydag.IdentityDagWalker": ("walk", None),
        "pysmt.simplifier.Simplifier": ("simplify", None),
        "pysmt.substituter.MGSubstituter": ("substitute", "subs"),
        "pysmt.substituter.MSSubstituter": ("substitute", "subs"),
        "pysmt.oracles.SizeOracle": ("get_size", "measure"),
        "pysmt.oracles.QuantifierOracle": ("is_qf", None),
        "pysmt.oracles.TheoryOracle": ("get_theory", None),
        "pysmt.oracles.FreeVarsOracle": ("get_free_variables", None),
        "pysmt.oracles.AtomsOracle": ("get_atoms", None),
        "pysmt.oracles.TypesOracle": ("get_types", None),
        "pysmt.rewritings.NNFizer": ("convert", None),
        "pysmt.rewritings.CNFizer": ("convert", None),
        "pysmt.rewritings.PolarityCNFizer": ("convert", None),
        "pysmt.rewritings.PrenexNormalizer": ("normalize", None),
        "pysmt.rewritings.AIGer": ("convert", None),
        "pysmt.rewritings.TimesDistributor": ("walk", None),
        "pysmt.type_checker.SimpleTypeChecker": ("get_type", None),
    }


def _mk_args(w, f, mode, variant=0, wk=None):
    if mode == "measure":
        if variant == 0 or wk is None:
            return [f]
        return [f, w.it.getattr(wk, "MEASURE_DAG_NODES")]
    if mode == "subs":
        src = w.symbol("a", ("BOOL",))
        dst = w.symbol("c" if variant == 0 else "b", ("BOOL",))
        return [f, {src: dst}]
    return [f]


def _value_sig(w, v):
    if w.is_node(v):
        import re
        return ("node", re.sub(r"FV\d+", "FV#", proc.sc.node_str(w, v)))
    if isinstance(v, (list, tuple)):
        return tuple(_value_sig(w, x) for x in v)
    if isinstance(v, (set, frozenset)):
        return frozenset(_value_sig(w, x) for x in v)
    if isinstance(v, dict):
        return frozenset((_value_sig(w, a), _value_sig(w, b)) for a, b in v.items())
    if isinstance(v, AObj):
        if v.cls in ("pysmt.logics.Theory",):
            return ("theory", tuple(sorted((k, repr(x)) for k, x in v.attrs.items() if isinstance(x, (bool, int, type(None))))))
        try:
            return ("obj", v.cls, w.to_str(v))
        except Exception:
            return ("obj", v.cls)
    if isinstance(v, (bool, int, str, type(None))):
        return v
    return ("val", repr(v)[:80])


def _calls_sig(w, calls, tag):
    return [(n, proc.sc.node_str(w, f), s) for (t, n, f, s) in calls if t == tag]


def _walk_job(job):
    """One (class, shape): clean walk statistics + failure injection at every handler call."""
    cls, shape_t, second_t = job
    shape = Shape(shape_t)
    meth, mode = _entries()[cls]
    out = {"cls": cls, "shape": repr(shape), "kind": "ok", "notes": [], "clean_calls": 0, "injections": 0}

    def fresh(w, tag):
        w.wrapping = True
        try:
            wk = w.new_walker(cls, w.env)
        finally:
            w.wrapping = False
        wk.probe_tag = tag
        return wk

    # 1. clean walk: compute-once and memo-hit
    def call_clean(w, it, f):
        wk = fresh(w, "A")
        r1 = it.call(it.getattr(wk, meth), _mk_args(w, f, mode))
        n1 = len(w.calls)
        r2 = it.call(it.getattr(wk, meth), _mk_args(w, f, mode))
        n2 = len(w.calls)
        stale = None
        if mode is not None:
            r3 = it.call(it.getattr(wk, meth), _mk_args(w, f, mode, 1, wk))
            ref = fresh(w, "B")
            rb = it.call(it.getattr(ref, meth), _mk_args(w, f, mode, 1, ref))
            if _value_sig(w, r3) != _value_sig(w, rb):
                stale = (proc.sc.node_str(w, r3) if w.is_node(r3) else repr(r3)[:80],
                         proc.sc.node_str(w, rb) if w.is_node(rb) else repr(rb)[:80])
        del w.calls[n2:]
        return (wk, r1, n1, r2, stale)

    def post_clean(w, f, val, facts):
        wk, r1, n1, r2, stale = val
        calls = w.calls[:n1]
        seen = {}
        for (t, name, node, sig) in calls:
            seen.setdefault((id(node), sig), []).append((name, node))
        dup = [(v[0][0], proc.sc.node_str(w, v[0][1]), len(v)) for v in seen.values() if len(v) > 1]
        res = {"n": n1, "dup": dup, "second": len(w.calls) - n1, "one_shot": bool(wk.attrs.get("invalidate_memoization")),
               "same": _value_sig(w, r1) == _value_sig(w, r2), "stale": stale}
        return proc.ProcResult(shape, "valid", res)
    res = proc.run_proc(shape, call_clean, post=post_clean, world_cls=ProbeWorld, max_paths=8)
    clean = [r for r in res if r.kind == "valid"]
    if len(clean) != len(res) or not clean:
        out["kind"] = "unsupported"
        out["notes"] = ["clean walk: %s %s" % (r.kind, str(r.detail)[:200]) for r in res if r.kind != "valid"][:3]
        return out
    info = clean[0].detail
    out["clean_calls"] = info["n"]
    out["dup"] = info["dup"]
    out["second_calls"] = info["second"]
    out["one_shot"] = info["one_shot"]
    out["second_same"] = info["same"]
    out["stale"] = info["stale"]
    n = info["n"]

    # 2. failure injection at every handler call k = 1..n, then two follow-up walks compared with a fresh walker
    bad = []
    for k in range(1, n + 1):
        def call_inj(w, it, f, k=k):
            g = proc.build_shape(w, second_t)
            wk = fresh(w, "A")
            w.fail_tag, w.fail_at = "A", k
            failed = False
            try:
                it.call(it.getattr(wk, meth), _mk_args(w, f, mode))
            except AbsRaise as ex:
                if ex.exc_args != ("injected handler failure",):
                    raise
                failed = True
            w.fail_at = None
            mark = len(w.calls)
            try:
                ra1 = it.call(it.getattr(wk, meth), _mk_args(w, g, mode, 1, wk))
                mid = len(w.calls)
                ra2 = it.call(it.getattr(wk, meth), _mk_args(w, f, mode, 1, wk))
            except AbsRaise as ex:
                return (failed, None, None, False, False, ["raises %s%s" % (ex.cls_name, proc._args(ex))], None, None)
            ca = _calls_sig(w, w.calls[mark:], "A")
            ca1 = _calls_sig(w, w.calls[mark:mid], "A")
            ref = fresh(w, "B")
            mark = len(w.calls)
            rb1 = it.call(it.getattr(ref, meth), _mk_args(w, g, mode, 1, ref))
            mid = len(w.calls)
            rb2 = it.call(it.getattr(ref, meth), _mk_args(w, f, mode, 1, ref))
            cb = _calls_sig(w, w.calls[mark:], "B")
            cb1 = _calls_sig(w, w.calls[mark:mid], "B")
            return (failed, ca, cb, _value_sig(w, ra1) == _value_sig(w, rb1), _value_sig(w, ra2) == _value_sig(w, rb2),
                    [proc.sc.node_str(w, x) if w.is_node(x) else repr(x)[:60] for x in (ra1, rb1, ra2, rb2)], ca1, cb1)

        def post_inj(w, f, val, facts):
            return proc.ProcResult(shape, "valid", val)
        r = proc.run_proc(shape, call_inj, post=post_inj, world_cls=ProbeWorld, max_paths=8)
        for pr in r:
            if pr.kind != "valid":
                out["notes"].append("injection %d: %s %s" % (k, pr.kind, str(pr.detail)[:160]))
                continue
            failed, ca, cb, same1, same2, shown, ca1, cb1 = pr.detail
            if not failed:
                continue       # the k-th call is not reached on this path
            out["injections"] += 1
            if ca is None:
                bad.append((k, "raises", "after a handler failed at call %d the next walk of another formula %s" % (k, shown[0])))
                continue
            persistent = not info["one_shot"]
            extra = [c for c in ca if c not in cb] or [c for c in ca1 if c not in cb1]
            if (ca != cb and not persistent) or extra:
                bad.append((k, "calls", "after a handler failed at call %d the next walks make %d handler calls, a fresh "
                            "walker makes %d%s" % (k, len(ca), len(cb),
                                                   (": stale work e.g. %s(%s)" % (extra[0][0], extra[0][1])) if extra else "")))
            elif not (same1 and same2):
                bad.append((k, "result", "after a handler failed at call %d the next walk returns %s, a fresh walker %s"
                            % (k, shown[0] if not same1 else shown[2], shown[1] if not same1 else shown[3])))
    out["bad"] = bad
    return out


def _tower(n, family="bool"):
    if family == "bool":
        t = ("Or", S("a"), S("b"))
        for _ in range(n):
            t = ("And", t, t)
        return t
    if family == "times":
        # t' = 2 * (t + y): products whose handlers ask the free-variables service about their operands
        t = S("x", INT)
        for _ in range(n):
            t = ("Times", ("lit", 2, INT), ("Plus", t, S("y", INT)))
        return ("LE", t, ("lit", 0, INT))
    t = S("x", INT)
    for _ in range(n):
        t = ("Plus", t, t)
    return ("LE", t, ("lit", 0, INT))


# walkers whose *result* on the arithmetic tower has 2^n summands (they flatten sums): the handler loops are
# output-bound, which is not traversal work, and exceed the interpreter's loop bound
ARITH_SKIP = {"pysmt.simplifier.Simplifier": "flattens nested sums: the result has 2^n summands",
              "pysmt.rewritings.TimesDistributor": "flattens nested sums: the result has 2^n summands"}
TOWER_NODES = {"bool": lambda d: d + 3, "arith": lambda d: d + 3}


def _tower_job(job):
    """Traversal work on a maximally shared DAG: towers x_{i+1} = And(x_i, x_i) (Boolean skeleton) and
    x_{i+1} = x_i + x_i under one atom (theory terms: several analyses memoise None there) of depth 5 and 10
    have 8 and 13 distinct nodes but 2^5 and 2^10 paths.  Interpreter steps and handler calls must grow with
    the number of nodes, not of paths."""
    cls, family = job
    meth, mode = _entries()[cls]
    out = {"cls": cls, "family": family, "kind": "ok", "steps": [], "calls": [], "service_calls": [], "nodes": []}
    for depth in (5, 10):
        shape = Shape(_tower(depth, family))

        def call(w, it, f):
            w.wrapping = True
            try:
                # the environment's free-variables service is the real class (handlers probed under their own tag)
                fvo = w.new_walker("pysmt.oracles.FreeVarsOracle", w.env)
                fvo.probe_tag = "FV"
                w.env.attrs["_fvo"] = fvo
                wk = w.new_walker(cls, w.env) if cls != "pysmt.oracles.FreeVarsOracle" else fvo
            finally:
                w.wrapping = False
            wk.probe_tag = "A"
            s0 = it.steps
            it.call(it.getattr(wk, meth), _mk_args(w, f, mode))
            nodes, st = set(), [f]
            while st:
                x = st.pop()
                if id(x) not in nodes:
                    nodes.add(id(x))
                    st.extend(w.nargs(x))
            return (it.steps - s0 - w.handler_steps, sum(1 for c in w.calls if c[0] == "A"),
                    sum(1 for c in w.calls if c[0] == "FV"), len(nodes))

        def post(w, f, val, facts):
            return proc.ProcResult(shape, "valid", val)
        r = proc.run_proc(shape, call, post=post, world_cls=ProbeWorld, max_paths=4,
                          interp_kwargs={"max_loop": 20000, "max_steps": 3000000})
        ok = [x for x in r if x.kind == "valid"]
        if not ok:
            out["kind"] = "unsupported"
            out["note"] = "; ".join("%s %s" % (x.kind, str(x.detail)[:160]) for x in r[:2])
            return out
        out["steps"].append(ok[0].detail[0])
        out["calls"].append(ok[0].detail[1])
        out["service_calls"].append(ok[0].detail[2])
        out["nodes"].append(ok[0].detail[3])
    return out


# ---------------------------------------------------------------------------------------------- printing services
PRINT_SERVICES = {
    "serialize": ("pysmt.printers.HRPrinter", lambda w, it, f: it.call(it.getattr(f, "serialize"), [])),
    "str": ("pysmt.printers.HRPrinter", lambda w, it, f: w.to_str(it, f)[1]),
    "to_smtlib (tree)": ("pysmt.smtlib.printers.SmtPrinter",
                         lambda w, it, f: it.call(it.module_global(w.repo.modules["pysmt.smtlib.printers"], "to_smtlib"), [f], {"daggify": False})),
    "to_smtlib (let-DAG)": ("pysmt.smtlib.printers.SmtDagPrinter",
                            lambda w, it, f: it.call(it.module_global(w.repo.modules["pysmt.smtlib.printers"], "to_smtlib"), [f], {"daggify": True})),
}


def _print_failure_job(job):
    """A printing service of the environment whose printer fails at the k-th handler call (every k): the next texts
    - of another formula and of the same formula - are the ones a fresh environment prints."""
    svc, shape_t, second_t = job
    cls, fn = PRINT_SERVICES[svc]
    shape = Shape(shape_t)
    out = {"svc": svc, "shape": repr(shape), "kind": "ok", "notes": [], "injections": 0, "bad": []}

    def call_clean(w, it, f):
        w.wrapping = True
        w.class_tags = {cls: "P"}
        g = proc.build_shape(w, second_t)
        t1 = fn(w, it, f)
        n = w.count.get("P", 0)
        return (n, t1, fn(w, it, g))
    r = proc.run_proc(shape, call_clean, post=lambda w, f, v, facts: proc.ProcResult(shape, "valid", v), world_cls=ProbeWorld,
                      services="full", max_paths=4)
    if len(r) != 1 or r[0].kind != "valid" or not isinstance(r[0].detail[1], str):
        out["kind"] = "unsupported"
        out["notes"] = ["clean print: %s %s" % (r[0].kind, str(r[0].detail)[:200])]
        return out
    n, want_f, want_g = r[0].detail
    out["clean_calls"] = n
    for k in range(1, n + 1):
        def call_inj(w, it, f, k=k):
            w.wrapping = True
            w.class_tags = {cls: "P"}
            g = proc.build_shape(w, second_t)
            w.fail_tag, w.fail_at = "P", k
            failed = False
            try:
                fn(w, it, f)
            except AbsRaise as ex:
                if ex.exc_args != ("injected handler failure",):
                    raise
                failed = True
            w.fail_at = None
            try:
                return (failed, fn(w, it, g), fn(w, it, f))
            except AbsRaise as ex:
                return (failed, "raises %s" % ex.cls_name, None)
        rr = proc.run_proc(shape, call_inj, post=lambda w, f, v, facts: proc.ProcResult(shape, "valid", v), world_cls=ProbeWorld,
                           services="full", max_paths=4)
        for pr in rr:
            if pr.kind != "valid":
                out["notes"].append("injection %d: %s %s" % (k, pr.kind, str(pr.detail)[:160]))
                continue
            failed, tg, tf = pr.detail
            if not failed:
                continue
            out["injections"] += 1
            if tg != want_g or tf != want_f:
                out["bad"].append((k, "after the printer failed at its handler call %d, the next %s gives %r; a fresh environment gives %r"
                                   % (k, svc, tg if tg != want_g else tf, want_g if tg != want_g else want_f)))
    return out


_PCACHE2 = {}


def print_failure_results(repo, tier="quick"):
    key = (repo.root, tier)
    if key not in _PCACHE2:
        a, b, c = S("a"), S("b"), S("c")
        x, y = S("x", INT), S("y", INT)
        f1 = ("And", ("Or", a, b), ("Or", a, b), ("LT", ("Plus", x, y), x))
        f2 = ("Or", a, b)
        f3 = ("Implies", ("forall", [("a", BOOL)], ("Or", a, c)), ("Equals", ("Select", ("Array", ("type", INT), ("lit", 0, INT), ("dict", (("lit", 1, INT), x))), y), x))
        jobs = [(svc, t, f2) for svc in sorted(PRINT_SERVICES) for t in (f1, f3)]
        _PCACHE2[key] = parallel_map(_print_failure_job, jobs)
    return _PCACHE2[key]


def discover(repo):
    """DagWalker subclasses the package instantiates with (env) and a known entry point."""
    ent = _entries()
    subs = [DAG] + list(repo.subclasses(DAG, strict=True))
    known = [q for q in subs if q in ent]
    others = [q for q in subs if q not in ent]
    return known, others


def jobs(repo, tier="quick", classes=None):
    known, others = discover(repo)
    if classes is not None:
        known = [q for q in known if q in classes]
    shapes = _shared_shapes()
    out = []
    for q in known:
        use = shapes if tier == "thorough" else shapes[:3]
        for i, sh in enumerate(use):
            second = shapes[(i + 1) % len(shapes)].t
            out.append((q, sh.t, second))
    return out, others, known


_CACHE = {}


def results(repo, tier="quick", classes=None, towers=True):
    key = (repo.root, tier, tuple(classes) if classes else None, towers)
    if key not in _CACHE:
        js, others, known = jobs(repo, tier, classes)
        tw = []
        if towers:
            tw = parallel_map(_tower_job, [(q, fam) for q in known for fam in ("bool", "arith", "times")
                                           if not (fam in ("arith", "times") and q in ARITH_SKIP)])
        _CACHE[key] = (parallel_map(_walk_job, js), others, tw)
    return _CACHE[key]
