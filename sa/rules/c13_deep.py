"""C13 deep rule R5: get_logic(f) and the set-logic command smtlibscript_from_formula(f) writes are interpreted on the same
skeletons; the logic they name must enable every feature, be non-linear if the term is, and not be quantifier-free
if the skeleton has a quantifier.
C13 deep rule R1d: TheoryOracle interpreted on operator skeletons; the theory it reports must
enable every feature the skeleton uses (computed structurally from sorts and operators).
C14 R2 (shared with this run): analysing a term must not change the cached theory of its sub-terms."""
from ..common import get_repo, parallel_map
from .. import proc, refsem
from .. import simpcheck as sc
from ..absint import AObj, AbsRaise

FLAGS = ["arrays", "arrays_const", "bit_vectors", "floating_point", "integer_arithmetic", "real_arithmetic",
         "integer_difference", "real_difference", "linear", "uninterpreted", "custom_type", "strings"]


def sort_features(sort, out):
    k = sort[0]
    if k == "INT":
        out.add("integer_arithmetic")
    elif k == "REAL":
        out.add("real_arithmetic")
    elif k == "BV":
        out.add("bit_vectors")
    elif k == "STRING":
        out.add("strings")
    elif k == "CUSTOM":
        out.add("custom_type")
    elif k == "ARRAY":
        out.add("arrays")
        sort_features(sort[1], out)
        sort_features(sort[2], out)
    elif k == "FUN":
        out.add("uninterpreted")
        sort_features(sort[1], out)


def required(w, n):
    """(features that must be on, must_be_nonlinear)"""
    out = set()
    nonlinear = False
    stack = [n]
    seen = set()
    while stack:
        x = stack.pop()
        if id(x) in seen:
            continue
        seen.add(id(x))
        op = w.opname(x)
        try:
            sort_features(w.nsort(x), out)
        except Exception:
            pass
        if op == "FUNCTION":
            out.add("uninterpreted")
        if op == "ARRAY_VALUE":
            out.add("arrays")
            out.add("arrays_const")
            sort_features(w.sort_of_tyobj(w.npayload(x)), out)
        if op in ("FORALL", "EXISTS"):
            for v in w.npayload(x):
                sort_features(w.nsort(v), out)
        if op == "POW":
            base, expo = w.nargs(x)
            ev = w.npayload(expo) if w.opname(expo).endswith("_CONSTANT") else None
            # x^e is a polynomial of degree <= 1 in its free symbols only for e in {0, 1}
            if w.free_symbols(base) and ev not in (0, 1):
                nonlinear = True
        if op == "TIMES":
            if sum(1 for a in w.nargs(x) if w.free_symbols(a)) > 1:
                nonlinear = True
        if op == "DIV":
            l, r = w.nargs(x)
            if w.free_symbols(l) and w.free_symbols(r):
                nonlinear = True
        stack.extend(w.nargs(x))
    return out, nonlinear


def flags_of(t):
    return dict((f, t.attrs.get(f)) for f in FLAGS)


def _job(shape):
    def call(w, it, f):
        o = w.new_walker("pysmt.oracles.TheoryOracle", w.env)
        t = it.call(it.getattr(o, "get_theory"), [f])
        # R5: the labels the callers attach - get_logic(f) and the set-logic command of the exported script
        labels = {}
        for what, fn, args in (("get_logic", "pysmt.oracles.get_logic", [f, w.env]),
                               ("smtlibscript_from_formula", "pysmt.smtlib.script.smtlibscript_from_formula", [f])):
            try:
                mod, name = fn.rsplit(".", 1)
                r = it.call(it.module_global(w.repo.modules[mod], name), args)
            except AbsRaise as ex:
                labels[what] = ("raise", ex.cls_name)
                continue
            if what != "get_logic":
                cmds = [c for c in it.iterate(it.getattr(r, "commands")) if it.getattr(c, "name") == "set-logic"]
                r = it.iterate(it.getattr(cmds[0], "args"))[0] if cmds else None
            labels[what] = ("ret", r)
        o.attrs["#labels"] = labels
        return (o, t)

    def post(w, f, r, facts):
        o, t = r
        it = w.it
        if not isinstance(t, AObj) or not t.cls.endswith("logics.Theory"):
            return proc.ProcResult(shape, "unsupported", "get_theory returned %r" % (t,))
        fl = flags_of(t)
        req, nonlin = required(w, f)
        missing = sorted(x for x in req if fl.get(x) is not True)
        res = []
        if missing:
            res.append("the detected theory lacks %s (uses: %s)" % (missing, sorted(req)))
        if nonlin and fl.get("linear") is not False:
            res.append("the term is non-linear but the detected theory is linear")
        if res:
            return proc.ProcResult(shape, "invalid", "; ".join(res), str(dict((k, v) for k, v in fl.items() if v)))
        quantified, st_, seen_ = False, [f], set()
        while st_:
            x = st_.pop()
            if id(x) in seen_:
                continue
            seen_.add(id(x))
            quantified = quantified or w.opname(x) in ("FORALL", "EXISTS")
            st_.extend(w.nargs(x))
        for what, (st, lg) in sorted(o.attrs.pop("#labels", {}).items()):
            if st == "raise":
                if lg != "NoLogicAvailableError":      # declining to label is sound
                    res.append("%s raises %s" % (what, lg))
                continue
            if not isinstance(lg, AObj) or not lg.cls.endswith("logics.Logic"):
                res.append("%s labels the formula with %r, not a logic" % (what, lg))
                continue
            lfl = flags_of(lg.attrs["theory"])
            miss = sorted(x for x in req if lfl.get(x) is not True)
            nm = lg.attrs.get("name")
            if miss:
                res.append("%s labels the formula with %s, which lacks %s" % (what, nm, miss))
            if nonlin and lfl.get("linear") is not False:
                res.append("%s labels the non-linear formula with the linear logic %s" % (what, nm))
            if quantified and lg.attrs.get("quantifier_free") is not False:
                res.append("%s labels the quantified formula with the quantifier-free logic %s" % (what, nm))
        if res:
            return proc.ProcResult(shape, "label-invalid", "; ".join(res), str(dict((k, v) for k, v in fl.items() if v)))
        # C14 R2: every memoised sub-term still has the theory a fresh oracle computes for it
        memo = o.attrs.get("memoization", {})
        stale = []
        for node, th in list(memo.items()):
            if not w.is_node(node) or node is f:
                continue
            o2 = w.new_walker("pysmt.oracles.TheoryOracle", w.env)
            t2 = it.call(it.getattr(o2, "get_theory"), [node])
            if flags_of(t2) != flags_of(th):
                diff = sorted(k for k in FLAGS if flags_of(t2)[k] != flags_of(th)[k])
                stale.append("%s: cached theory now differs in %s" % (sc.node_str(w, node), diff))
        if stale:
            return proc.ProcResult(shape, "stale", "; ".join(stale[:3]))
        return proc.ProcResult(shape, "valid", "features %s%s" % (sorted(req), " non-linear" if nonlin else ""),
                               str(sorted(k for k, v in fl.items() if v)))
    res = proc.run_proc(shape, call, post=post, services="full")
    return [(repr(shape), r.kind, str(r.detail), r.result) for r in res]


_OUT = {}


def results(tier="quick"):
    if tier not in _OUT:
        shapes = proc.term_shapes() + proc.quantified_shapes()[:8] + proc.boolean_shapes(depth2=False)[:8]
        if tier == "thorough":
            shapes = proc.in_contexts(proc.term_shapes() + proc.quantified_shapes() + proc.boolean_shapes(depth2=False))
        _OUT[tier] = parallel_map(_job, shapes)
    return _OUT[tier]


def _seq_shapes():
    from ..proc import S, BOOL, INT
    REAL, B4, STR = ("REAL",), ("BV", 4), ("STRING",)
    x, y, r = S("x", INT), S("y", INT), S("r", REAL)
    u, v = S("u", B4), S("v", B4)
    US = ("CUSTOM", "U")
    return [("LT", x, y), ("Equals", ("BVAdd", u, v), u), ("LT", ("Times", r, r), r), ("Equals", ("StrLength", S("st", STR)), x),
            ("forall", [("e", US)], ("Equals", ("fun", "h", US, (US,), S("e", US)), S("e2", US))), ("And", S("a"), S("b")),
            ("Equals", ("Select", S("arr", ("ARRAY", INT, INT)), x), y), ("LT", ("Plus", x, ("lit", 1, INT)), y)]


def _label_sequence_job(mode):
    """The labels of several formulas asked one after the other in one environment (the detected logics are anonymous objects that
    share one name) are the labels each formula gets when it is the only one asked."""
    shapes = _seq_shapes()
    dummy = proc.Shape(("lit", True, ("BOOL",)))

    def label(w, it, t):
        f = proc.build_shape(w, t)
        try:
            r = it.call(it.module_global(w.repo.modules["pysmt.smtlib.script"], "smtlibscript_from_formula"), [f])
        except AbsRaise as ex:
            return "raises " + ex.cls_name
        cmds = [c for c in it.iterate(it.getattr(r, "commands")) if it.getattr(c, "name") == "set-logic"]
        lg = it.iterate(it.getattr(cmds[0], "args"))[0] if cmds else None
        return it.getattr(lg, "name") if isinstance(lg, AObj) else repr(lg)

    def run(ts):
        res = proc.run_proc(dummy, lambda w, it, f0: [label(w, it, t) for t in ts],
                            post=lambda w, f, v, facts: proc.ProcResult(dummy, "valid", v), services="full", max_paths=4,
                            interp_kwargs={"max_steps": 12000000})
        if len(res) != 1 or res[0].kind != "valid":
            return None, "%s %s" % (res[0].kind, str(res[0].detail)[:200])
        return res[0].detail, None
    order = shapes if mode == "forward" else list(reversed(shapes))
    got, why = run(order)
    if got is None:
        return [("sequence " + mode, "unsupported", why)]
    out = []
    for t, g in zip(order, got):
        alone, why = run([t])
        if alone is None:
            out.append((proc.shape_str(t), "unsupported", why))
        elif alone[0] != g:
            out.append((proc.shape_str(t), "bad", "asked after other formulas (%s order) the exported script is labelled %s, asked alone %s"
                        % (mode, g, alone[0])))
        else:
            out.append((proc.shape_str(t), "ok", g))
    return out


def run_labels(ctx):
    rs = ctx.rule("R5", "get_logic / smtlibscript_from_formula label the formula with a logic that enables every feature it uses")
    for mode in ("forward", "backward"):
        for shape, kind, detail in _label_sequence_job(mode):
            if kind == "ok":
                rs.ok({"shape": shape, "label after other formulas (%s)" % mode: detail})
            elif kind == "bad":
                ctx.finding(rs, "label-sequence|%s|%s" % (mode, shape), "%s: %s" % (shape, detail), "pysmt/logics.py")
            else:
                rs.unrec("label sequence %s: %s" % (shape, detail[:160]))
    for res in results(ctx.tier):
        for shape, kind, detail, result in res:
            if kind in ("valid", "stale"):
                rs.ok({"shape": shape, "labels": "get_logic, set-logic of the exported script"})
            elif kind == "label-invalid":
                ctx.finding(rs, "label|%s" % shape, "%s: %s" % (shape, detail), "pysmt/oracles.py")
            elif kind not in ("vacuous", "invalid", "raises"):
                rs.unrec("labels(%s): %s" % (shape, detail[:120]))
    ctx.floor(rs, 45)


def run(ctx):
    if ctx.want("R5"):
        run_labels(ctx)
    if not ctx.want("R1d"):
        return
    rs = ctx.rule("R1d", "TheoryOracle: the detected theory enables every feature the skeleton uses")
    for res in results(ctx.tier):
        for shape, kind, detail, result in res:
            if kind in ("valid", "stale", "label-invalid"):
                rs.ok({"shape": shape, "uses": detail if kind == "valid" else "(see C14 R2)", "detected": result})
            elif kind == "invalid":
                ctx.finding(rs, "TheoryOracle|%s" % shape, "get_theory(%s): %s [detected %s]" % (shape, detail, result),
                            "pysmt/oracles.py")
            elif kind == "raises":
                ctx.finding(rs, "TheoryOracle|%s|raises" % shape, "get_theory(%s) raises %s" % (shape, detail), "pysmt/oracles.py")
            elif kind != "vacuous":
                rs.unrec("get_theory(%s): %s" % (shape, detail[:120]))
    ctx.floor(rs, 45)
