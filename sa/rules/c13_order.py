"""C13 rule R2: order axioms of Theory / Logic and soundness of the selection functions, decided by interpreting
pysmt/logics.py: the module's own tables (LOGICS, PYSMT_LOGICS, SMTLIB2_LOGICS - built by interpreting its top
level, the loop that derives the extended logics included) give the concrete Theory and Logic objects; the real
__le__ / __lt__ / __eq__ / combine / get_closer_logic / most_generic_logic are interpreted on them.

  reflexive, antisymmetric, transitive (all pairs / triples of the distinct theories; all pairs of logics);
  combine(a, b) is an upper bound of a and b (all pairs of distinct theories);
  get_closer_logic(S, t), for S in {SMT-LIB logics, pySMT logics, every third pySMT logic} and every logic t:
     the result is in S, t <= result, and no s in S has t <= s < result; if it raises, no s in S is above t;
  most_generic_logic(S) is in S and above every element of S."""
import itertools

from ..absint import AbsRaise, AObj, Unsupported, ListIter, ClassRef
from ..common import get_repo, parallel_map
from .. import proc
from ..proc import Shape, BOOL

LOGICS_MOD = "pysmt.logics"


def _job(part):
    shape = Shape(("lit", True, BOOL))

    def call(w, it, f0):
        lm = w.repo.modules[LOGICS_MOD]
        G = lambda n: it.module_global(lm, n)
        logics = sorted(it.iterate(G("LOGICS")), key=lambda l: l.attrs["name"])
        pysmt_l = sorted(it.iterate(G("PYSMT_LOGICS")), key=lambda l: l.attrs["name"])
        smtlib_l = sorted(it.iterate(G("SMTLIB2_LOGICS")), key=lambda l: l.attrs["name"])

        def le(a, b):
            return it.call(it.getattr(a, "__le__"), [b])

        def lt(a, b):
            return it.call(it.getattr(a, "__lt__"), [b])

        def eq(a, b):
            return it.call(it.getattr(a, "__eq__"), [b])

        def tsig(t):
            return tuple(sorted((k, v) for k, v in t.attrs.items() if isinstance(v, bool)))
        theories = {}
        for l in logics:
            theories.setdefault(tsig(l.attrs["theory"]), l.attrs["theory"])
        ths = [theories[k] for k in sorted(theories)]
        out = []

        def name(x):
            return x.attrs.get("name") or "Theory{%s}" % ",".join(k for k, v in tsig(x) if v)
        if part == "theory-order":
            n_ok = 0
            lem = {}
            for a in ths:
                for b in ths:
                    lem[(id(a), id(b))] = bool(le(a, b))
            for a in ths:
                if not lem[(id(a), id(a))]:
                    out.append(("bad", "reflexivity|%s" % name(a), "%s <= itself is false" % name(a)))
            for a, b in itertools.combinations(ths, 2):
                if lem[(id(a), id(b))] and lem[(id(b), id(a))] and not eq(a, b):
                    out.append(("bad", "antisymmetry|%s|%s" % (name(a), name(b)), "%s and %s are below each other but differ" % (name(a), name(b))))
            for a in ths:
                for b in ths:
                    if not lem[(id(a), id(b))]:
                        continue
                    for c in ths:
                        if lem[(id(b), id(c))] and not lem[(id(a), id(c))]:
                            out.append(("bad", "transitivity|%s|%s|%s" % (name(a), name(b), name(c)),
                                        "%s <= %s <= %s but not %s <= %s" % (name(a), name(b), name(c), name(a), name(c))))
                        n_ok += 1
            out.append(("ok", "theory order", "%d distinct theories, %d triples" % (len(ths), n_ok)))
        elif part == "combine":
            n_ok = 0
            for a in ths:
                for b in ths:
                    c = it.call(it.getattr(a, "combine"), [b])
                    if not le(a, c) or not le(b, c):
                        out.append(("bad", "combine|%s|%s" % (name(a), name(b)),
                                    "combine(%s, %s) = %s is not above both" % (name(a), name(b), name(c))))
                    n_ok += 1
            out.append(("ok", "combine is an upper bound", "%d pairs" % n_ok))
        elif part == "logic-order":
            n_ok = 0
            for a in logics:
                if not le(a, a):
                    out.append(("bad", "reflexivity|%s" % name(a), "%s <= itself is false" % name(a)))
            for a, b in itertools.combinations(logics, 2):
                ab, ba = bool(le(a, b)), bool(le(b, a))
                if ab and ba and not eq(a, b):
                    out.append(("bad", "antisymmetry|%s|%s" % (name(a), name(b)),
                                "%s and %s are below each other but are different logics" % (name(a), name(b))))
                if bool(lt(a, b)) != (ab and not eq(a, b)):
                    out.append(("bad", "strict|%s|%s" % (name(a), name(b)), "%s < %s disagrees with <= and ==" % (name(a), name(b))))
                n_ok += 1
            out.append(("ok", "logic order", "%d logics, %d pairs" % (len(logics), n_ok)))
        elif part == "closer-smtlib-anonymous":
            # get_closer_smtlib_logic asked, one after the other, about anonymous logics that share one name (what the theory oracle
            # hands out: Logic(name="Detected Logic", ...)): each answer is the one get_closer_logic gives for that logic alone
            fn = G("get_closer_smtlib_logic")
            closer = G("get_closer_logic")
            n_ok = 0
            for t in logics[::2] + logics[1::2]:
                anon = it.instantiate(ClassRef("pysmt.logics.Logic"), ["Detected Logic", ""],
                                      {"quantifier_free": t.attrs.get("quantifier_free"), "theory": t.attrs["theory"]})
                outs = []
                for f_, args in ((fn, [anon]), (closer, [list(smtlib_l), t])):
                    try:
                        outs.append(("returns", it.call(f_, args)))
                    except AbsRaise as ex:
                        outs.append(("raises", ex.cls_name))
                (k1, r1), (k2, r2) = outs
                if name(t) in ("QF_BOOL", "BOOL"):
                    n_ok += 1           # documented special cases of the function
                elif k1 != k2 or (k1 == "returns" and r1 is not r2):
                    out.append(("bad", "closer-smtlib-anonymous|%s" % name(t), "get_closer_smtlib_logic(an unnamed logic with the theory of %s) %s %s; "
                                "get_closer_logic over the SMT-LIB logics %s %s" % (name(t), k1, name(r1) if k1 == "returns" else r1, k2, name(r2) if k2 == "returns" else r2)))
                else:
                    n_ok += 1
            out.append(("ok", part, "%d logics asked in sequence" % n_ok))
        elif part == "families":
            # the derived families solvers declare their supported logics with: each is the sub-family of the
            # final table of pySMT logics its name states
            fams = {"PYSMT_QF_LOGICS": lambda l: l.attrs.get("quantifier_free") is True,
                    "BV_LOGICS": lambda l: l.attrs["theory"].attrs.get("bit_vectors") is True,
                    "ARRAYS_LOGICS": lambda l: l.attrs["theory"].attrs.get("arrays") is True,
                    "ARRAYS_CONST_LOGICS": lambda l: l.attrs["theory"].attrs.get("arrays_const") is True}
            n_ok = 0
            for fam, pred in sorted(fams.items()):
                try:
                    members = set(id(l) for l in it.iterate(G(fam)))
                except (AbsRaise, Unsupported, KeyError):
                    continue          # the family does not exist in this tree: nothing to decide
                want = [l for l in pysmt_l if pred(l)]
                missing = [name(l) for l in want if id(l) not in members]
                extra = [name(l) for l in pysmt_l if id(l) in members and not pred(l)]
                if missing or extra:
                    out.append(("bad", "family|%s" % fam, "%s is not the family of pySMT logics its name states: missing %s, extra %s"
                                % (fam, missing[:6], extra[:6])))
                else:
                    n_ok += 1
            out.append(("ok", "derived families", "%d families" % n_ok))
        elif part == "factory-select":
            # Factory._get_solver_class, the function every Solver() / is_sat(solver_name=...) / Optimizer() call goes
            # through: for solvers that declare a few logics, selected by name and by preference, the logic the solver
            # is created with is one of its own logics, above the request and minimal among those
            byname = dict((l.attrs["name"], l) for l in logics)
            decl = {"rec": ["QF_UFLIRA", "QF_UFBV"], "lia": ["QF_LIA", "LIA"], "wide": ["QF_AUFBVLIRA", "QF_BV", "UFLIRA", "QF_UFLIRA"]}
            classes = dict((n, AObj("probe.SolverClass", {"LOGICS": [byname[x] for x in ls], "__name__": n})) for n, ls in decl.items()
                           if all(x in byname for x in ls))
            fac = AObj("pysmt.factory.Factory", {"preferences": {"Solver": ["lia", "rec", "wide"]}, "environment": w.env})
            gsc = it.getattr(fac, "_get_solver_class")
            n_ok = 0
            for t in logics + [None]:
                for nm in [None] + sorted(classes):
                    cands = [classes[nm]] if nm is not None else [classes[k] for k in sorted(classes)]
                    tag = "%s|%s" % (nm or "by-preference", name(t) if t is not None else "no-logic")
                    above_any = t is None or any(le(t, s) for c in cands for s in c.attrs["LOGICS"])
                    try:
                        r = it.call(gsc, [], {"solver_list": dict(classes), "solver_type": "Solver", "default_logic": byname["QF_UFLIRA"],
                                              "name": nm, "logic": t})
                    except AbsRaise as ex:
                        if above_any and t is not None:
                            out.append(("bad", "factory|%s|raises" % tag, "Factory._get_solver_class(name=%s, logic=%s) raises %s although a "
                                        "declared logic is above the request" % (nm, name(t), ex.cls_name)))
                        else:
                            n_ok += 1
                        continue
                    cls_, lg = list(it.iterate(r))
                    own = cls_.attrs["LOGICS"]
                    cn = cls_.attrs["__name__"]
                    if nm is not None and cls_ is not classes[nm]:
                        out.append(("bad", "factory|%s|other-solver" % tag, "solver %s requested, %s selected" % (nm, cn)))
                    elif not any(lg is s for s in own):
                        out.append(("bad", "factory|%s|outside" % tag, "solver %s (declares %s) is created with logic %s, which is not one of its logics"
                                    % (cn, [name(s) for s in own], name(lg) if isinstance(lg, AObj) else lg)))
                    elif t is not None and not le(t, lg):
                        out.append(("bad", "factory|%s|below" % tag, "request %s: solver %s is created with %s, which cannot express it" % (name(t), cn, name(lg))))
                    elif t is not None and [s for s in own if s is not lg and le(t, s) and lt(s, lg)]:
                        out.append(("bad", "factory|%s|not-minimal" % tag, "request %s: solver %s is created with %s although it declares a smaller logic above the request"
                                    % (name(t), cn, name(lg))))
                    else:
                        n_ok += 1
            out.append(("ok", part, "%d (solver, request) pairs" % n_ok))
        else:
            closer = G("get_closer_logic")
            which = {"closer-smtlib": smtlib_l, "closer-pysmt": pysmt_l, "closer-subset": pysmt_l[::3], "closer-iterator": pysmt_l[1::2]}[part]
            one_shot = part == "closer-iterator"       # the supported logics arrive as a one-shot iterable (the parameter is an Iterable)
            n_ok = 0
            for t in logics:
                above = [s for s in which if le(t, s)]
                try:
                    r = it.call(closer, [ListIter(list(which)) if one_shot else list(which), t])
                except AbsRaise as ex:
                    if above:
                        out.append(("bad", "%s|%s|raises" % (part, name(t)),
                                    "get_closer_logic raises %s for %s although %s is supported and above it" % (ex.cls_name, name(t), name(above[0]))))
                    else:
                        n_ok += 1
                    continue
                if not any(r is s for s in which):
                    out.append(("bad", "%s|%s|outside" % (part, name(t)), "get_closer_logic(%s) = %s is not a supported logic" % (name(t), name(r))))
                elif not le(t, r):
                    out.append(("bad", "%s|%s|below" % (part, name(t)), "get_closer_logic(%s) = %s cannot express it" % (name(t), name(r))))
                else:
                    between = [s for s in above if s is not r and lt(s, r)]
                    if between:
                        out.append(("bad", "%s|%s|not-minimal" % (part, name(t)),
                                    "get_closer_logic(%s) = %s although %s is supported, above the target and strictly below it"
                                    % (name(t), name(r), name(between[0]))))
                    else:
                        n_ok += 1
            if part == "closer-pysmt":
                # a set with a maximum: the down-set of the logic that has most SMT-LIB logics below it
                top = max(smtlib_l, key=lambda l: sum(1 for s in smtlib_l if le(s, l)))
                down = [s for s in smtlib_l if le(s, top)]
                try:
                    mg = it.call(G("most_generic_logic"), [list(down)])
                    if mg is not top:
                        out.append(("bad", "most_generic_logic", "most_generic_logic(down-set of %s) = %s" % (name(top), name(mg))))
                    else:
                        n_ok += 1
                except AbsRaise as ex:
                    out.append(("bad", "most_generic_logic", "most_generic_logic(down-set of %s) raises %s" % (name(top), ex.cls_name)))
            out.append(("ok", part, "%d targets" % n_ok))
        return out

    def post(w, f, val, facts):
        return proc.ProcResult(shape, "valid", val)
    res = proc.run_proc(shape, call, post=post, services="full", max_paths=4,
                        interp_kwargs={"max_steps": 60000000, "max_loop": 200000})
    if len(res) != 1 or res[0].kind != "valid":
        return [("unsupported", part, "%s %s" % (res[0].kind, str(res[0].detail)[:200]))]
    return res[0].detail


PARTS = ["theory-order", "combine", "logic-order", "closer-smtlib", "closer-pysmt", "closer-subset", "closer-iterator", "closer-smtlib-anonymous", "families", "factory-select"]


def run(ctx):
    if not ctx.want("R2"):
        return
    rs = ctx.rule("R2", "Theory / Logic order axioms, combine is an upper bound, get_closer_logic returns a minimal supported logic above the target")
    from ..common import parallel_map as pm
    import multiprocessing as mp
    with mp.get_context("fork").Pool(len(PARTS)) as pool:
        outs = pool.map(_job, PARTS)
    for res in outs:
        for kind, key, detail in res:
            if kind == "ok":
                rs.ok({"clause": key, "checked": detail})
            elif kind == "unsupported":
                rs.unrec("%s: %s" % (key, detail))
            else:
                ctx.finding(rs, key, detail, "pysmt/factory.py" if key.startswith("factory|") else "pysmt/logics.py")
    ctx.floor(rs, 7)
