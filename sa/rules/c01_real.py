"""C01 rule R7: whole terms simplified on the *real* manager.  The handlers of R3 are decided on operand classes with a
modelled manager; here Simplifier.simplify is interpreted together with the real FormulaManager, so what a handler gets
back when it rebuilds a node from simplified children (constructor shortcuts included) is part of the result.
Menu: composed skeletons outer(disguise(inner)) whose operand only *becomes* an inner-application through
simplification, the array terms of R4 again, stores of the default element over array values, quantifier nests."""
import itertools

from ..common import parallel_map
from .. import proc
from ..proc import Shape, S, BOOL, INT
from ..world import RealMgrWorld
from . import c01_arrays

REAL = ("REAL",)
BV3 = ("BV", 3)
BV1 = ("BV", 1)


def L(v, sort):
    return ("lit", v, sort)


def composed():
    out = []
    # bit-vectors (width 3, and width 1 where sign and value coincide)
    for bw in (BV3, BV1):
        x, y, z = S("x", bw), S("y", bw), S("z", bw)
        zero, one = L(0, bw), L(1, bw)
        inners = [("BVNot", x), ("BVNeg", x), ("BVAdd", x, y), ("BVSub", x, y), ("BVMul", x, y), ("BVXor", x, y),
                  ("BVUDiv", x, y), ("BVURem", x, y)]
        disguises = [lambda t: ("BVAdd", t, zero), lambda t: ("Ite", ("lit", True, BOOL), t, z), lambda t: ("BVOr", zero, t),
                     lambda t: ("BVMul", one, t)]
        outers = [lambda t: ("BVNot", t), lambda t: ("BVNeg", t), lambda t: ("BVAdd", t, y), lambda t: ("BVSub", t, y),
                  lambda t: ("BVSub", y, t), lambda t: ("BVMul", t, y), lambda t: ("BVAnd", t, y), lambda t: ("BVOr", t, y),
                  lambda t: ("BVXor", t, y), lambda t: ("BVUDiv", t, y), lambda t: ("BVUDiv", y, t), lambda t: ("BVURem", t, y),
                  lambda t: ("BVURem", y, t), lambda t: ("BVSDiv", t, y), lambda t: ("BVSRem", y, t), lambda t: ("BVLShl", t, y),
                  lambda t: ("BVLShr", y, t), lambda t: ("BVAShr", t, y), lambda t: ("BVUDiv", t, ("same",)), lambda t: ("BVURem", t, ("same",)),
                  lambda t: ("BVSub", t, ("same",)), lambda t: ("BVXor", t, ("same",))]
        cmp_outers = [lambda t: ("BVULT", t, y), lambda t: ("BVULE", y, t), lambda t: ("BVSLT", t, y), lambda t: ("BVSLE", y, t),
                      lambda t: ("BVSLE", t, L((1 << (bw[1] - 1)), bw)), lambda t: ("BVSLE", L((1 << (bw[1] - 1)) - 1 if bw[1] > 1 else 0, bw), t),
                      lambda t: ("BVULE", t, zero), lambda t: ("Equals", t, y)]
        sel = disguises if bw == BV3 else disguises[:1]
        for i, (inner, dis) in enumerate(itertools.product(inners, sel)):
            arg = dis(inner)
            for o in outers:
                t = o(arg)
                t = tuple(arg if a == ("same",) else a for a in t)
                out.append(("Equals", t, S("w", bw)))
            for o in cmp_outers:
                out.append(o(arg))
    # Boolean structure
    p, q, r = S("p"), S("q"), S("r")
    T, F = ("lit", True, BOOL), ("lit", False, BOOL)
    xi, yi = S("xi", INT), S("yi", INT)
    inners = [("Not", p), ("And", p, q), ("Or", p, q), ("Implies", p, q), ("Iff", p, q), ("LT", xi, yi), ("LE", xi, yi),
              ("Equals", xi, yi), ("Ite", p, q, r)]
    disguises = [lambda t: ("Or", t, F), lambda t: ("Ite", T, t, r), lambda t: ("And", T, t), lambda t: ("Iff", t, T)]
    outers = [lambda t: ("Not", t), lambda t: ("And", t, q), lambda t: ("Or", t, q), lambda t: ("Implies", t, q),
              lambda t: ("Implies", q, t), lambda t: ("Iff", t, q), lambda t: ("Ite", t, q, r), lambda t: ("Ite", q, t, r),
              lambda t: ("And", t, ("Not", t)), lambda t: ("Or", ("Not", t), t), lambda t: ("Iff", t, t)]
    for inner, dis in itertools.product(inners, disguises):
        for o in outers:
            out.append(o(dis(inner)))
    # arithmetic, both sorts
    for sort, nm in ((INT, "i"), (REAL, "r")):
        x, y, z = S("x" + nm, sort), S("y" + nm, sort), S("z" + nm, sort)
        zero, one, two, m1 = L(0, sort), L(1, sort), L(2, sort), L(-1, sort)
        inners = [("Minus", x, y), ("Plus", x, y), ("Times", x, two), ("Times", x, m1), ("Ite", S("p"), x, y), ("Times", x, zero),
                  ("Times", x, y)]
        disguises = [lambda t: ("Plus", t, zero), lambda t: ("Times", one, t), lambda t: ("Ite", T, t, z)]
        outers = [lambda t: ("Plus", t, y), lambda t: ("Minus", t, y), lambda t: ("Minus", y, t), lambda t: ("Times", t, y),
                  lambda t: ("Times", t, two), lambda t: ("Times", zero, t), lambda t: ("Minus", t, t)]
        cmps = [lambda t: ("LE", t, zero), lambda t: ("LE", zero, t), lambda t: ("LT", t, zero), lambda t: ("LT", zero, t),
                lambda t: ("Equals", t, y), lambda t: ("LE", t, t), lambda t: ("Equals", t, zero)]
        for inner, dis in itertools.product(inners, disguises):
            arg = dis(inner)
            for o in outers:
                out.append(("Equals", o(arg), S("w" + nm, sort)))
            for o in cmps:
                out.append(o(arg))
        if sort == INT:
            out += [("Equals", ("ToReal", ("Plus", ("Times", x, zero), zero)), S("wr", REAL)),
                    ("Equals", ("ToReal", ("Times", one, ("Minus", x, y))), S("wr", REAL))]
    # quantifier nests: alternations, same-kind nests, a nest that appears only after a connective folds away
    B2 = ("BV", 2)
    a2, b2, c2 = S("a2", B2), S("b2", B2), S("c2", B2)
    eq = ("Equals", a2, b2)
    lt = ("BVULT", a2, b2)
    for body in (eq, lt, ("Or", eq, ("Equals", b2, c2))):
        for k1, k2 in itertools.product(("forall", "exists"), repeat=2):
            out.append((k1, [("a2", B2)], (k2, [("b2", B2)], body)))
            out.append((k1, [("a2", B2)], ("And", T, (k2, [("b2", B2)], body))))
            out.append(("And", ("Equals", c2, L(1, B2)), (k1, [("a2", B2)], ("Or", F, (k2, [("b2", B2)], body)))))
    return [Shape(t) for t in out]


def array_extra():
    def Li(v):
        return L(v, INT)

    def AV(default, *pairs):
        return ("Array", ("type", INT), Li(default), ("dict",) + tuple((Li(i), Li(v)) for i, v in pairs))
    a = S("m", ("ARRAY", INT, INT))
    i, j, x = S("i", INT), S("j", INT), S("x", INT)
    sh = []
    for base in (AV(0, (1, 5)), AV(7, (1, 5), (2, 7)), ("Store", AV(0), Li(1), Li(5)), ("Store", ("Store", AV(0), Li(1), Li(5)), Li(2), Li(6))):
        for dflt in (0, 7, 5):
            st = ("Store", base, j, Li(dflt))          # the default element (or not) stored at a symbolic index
            sh += [("Equals", ("Select", st, Li(1)), x), ("Equals", ("Select", st, i), x), ("Equals", st, a),
                   ("Equals", ("Select", ("Store", base, ("Plus", j, i), Li(dflt)), Li(1)), x),
                   ("Equals", ("Select", ("Ite", ("lit", True, BOOL), st, a), Li(1)), x)]
    return [Shape(t) for t in sh]


def _job(shape):
    return c01_arrays._job(shape, RealMgrWorld)


def run(ctx):
    if not ctx.want("R7"):
        return
    rs = ctx.rule("R7", "whole terms on the real manager: simplify (with the constructors it rebuilds nodes through) preserves the "
                        "denotation of composed skeletons, array terms and quantifier nests")
    shapes = composed() + array_extra() + c01_arrays.shapes()
    ctx.analysed["whole_terms_on_the_real_manager"] = len(shapes)
    for res in parallel_map(_job, shapes):
        for shape, kind, detail, result in res:
            if kind == "valid":
                rs.ok({"term": shape, "result": (result or "")[:120], "checked": detail})
            elif kind == "invalid":
                ctx.finding(rs, "whole-term|%s" % shape, "simplify(%s): %s" % (shape, detail), "pysmt/simplifier.py")
            elif kind == "raises":
                ctx.finding(rs, "whole-term|%s|raises" % shape, "simplify(%s) raises %s" % (shape, detail), "pysmt/simplifier.py")
            elif kind != "vacuous":
                rs.unrec("%s: %s" % (shape, detail[:160]))
    ctx.floor(rs, 800)
