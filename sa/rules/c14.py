"""C14 -- results do not depend on what the environment was used for before."""
import ast

from ..common import (get_repo, get_tables, get_ops, short, norm, CFG, normal_only, method_loc,
                      calls_in, attr_tail, is_self_attr, handler_funcs, kwarg, class_instantiations,
                      stores_in)
from .c01 import class_closure

DAG = "pysmt.walkers.dag.DagWalker"
ENV = "pysmt.environment.Environment"

EXPLANATION = (
    "Static analysis: every DagWalker subclass either memoises under a key that contains all "
    "result-relevant extra arguments or is constructed one-shot at every construction site (R1); "
    "cached Theory answers are never mutated: every attribute store in TheoryOracle targets a value "
    "that is fresh on all paths (R2, freshness dataflow with arity facts); handlers of the "
    "environment singletons write no instance attribute (R4); the value-keyed constant caches of the real, interpreted "
    "manager give a value that merely compares equal to a cached key (True / 1, Fraction(1) / 1, 1+0j / 1) the outcome "
    "it has on a fresh manager (R5); after the type checker's be_nice mode was used to probe an ill-typed application "
    "and switched off again, the real manager rejects the application as a fresh one does (R8).  Environment "
    "services interpreted after a history of other formulas built, queried, transformed and printed - two stores "
    "over one array value included; functools.lru_cache / cache on a helper is modelled, so a cached mutable result "
    "handed to several callers is seen - answer as in a fresh environment (R7).  Importing formulas into an environment from two sources whose node ids coincide gives the copies a fresh target gives (R10); module-level procedures (cnf, nnf, aig, prenex, get_logic) called with a second environment on top of the stack answer as when the first did nothing (part of R9).  The substitution map belongs to the caller: after a substitution that fails inside the body of a quantifier, or succeeds, the map holds what it held and a later call with the same map object answers like one with a fresh copy (R11).")
NOT_DECIDED = ["ordering effects of set iteration (allowed by the property: 'up to the order of commutative arguments')"]


def env_singletons(repo):
    ci = repo.cls(ENV)
    out = {}
    for name in ci.order:
        kind, v = ci.attrs[name]
        if kind == "expr" and name.endswith("Class"):
            r = repo.resolve_expr(ci.module, v)
            if r and r[0] == "class":
                out[name] = r[1]
    return out


def run(ctx):
    repo, ht = get_repo(), get_tables()
    ctx.analysed["modules"] = ["pysmt/walkers/dag.py", "pysmt/environment.py", "pysmt/oracles.py",
                               "pysmt/formula.py", "all DagWalker subclasses"]
    walkers = [q for q in repo.subclasses(DAG)]

    if ctx.want("R1"):
        rs = ctx.rule("R1", "memo key complete, or the memo is one-shot at every construction site")
        for q in walkers:
            kq, gk = repo.find_method(q, "_get_key")
            if gk is None:
                ctx.error("R1", "%s: _get_key not resolvable" % q)
                continue
            # which extra keyword arguments does this class pass to walk()?
            extra = set()
            for cq in repo.mro(q):
                ci = repo.classes[cq]
                for nm in ci.order:
                    f = ci.own_func(nm)
                    if f is None:
                        continue
                    for c in calls_in(f):
                        if attr_tail(c) == "walk" and isinstance(c.func, ast.Attribute) and \
                                isinstance(c.func.value, ast.Name) and c.func.value.id == "self":
                            for k in c.keywords:
                                if k.arg:
                                    extra.add(k.arg)
            if not extra:
                rs.ok({"class": q.split(".")[-1], "walk_kwargs": [], "key": "formula suffices"})
                continue
            rets = [r.value for r in ast.walk(gk) if isinstance(r, ast.Return) and r.value is not None]
            key_names = set()
            for r in rets:
                key_names |= set(n.id for n in ast.walk(r) if isinstance(n, ast.Name))
            params = set(a.arg for a in gk.args.args) | set(a.arg for a in gk.args.kwonlyargs)
            covered = set(e for e in extra if e in key_names and e in params)
            if gk.args.kwarg is not None and gk.args.kwarg.arg in key_names:
                covered = set(extra)          # the key is built from the whole keyword dictionary
            missing = sorted(extra - covered)
            if not missing:
                rs.ok({"class": q.split(".")[-1], "walk_kwargs": sorted(extra), "key": [short(r) for r in rets]})
                continue
            # must be one-shot at every construction site
            one_shot = _one_shot(repo, q)
            if one_shot is True:
                rs.ok({"class": q.split(".")[-1], "walk_kwargs": sorted(extra), "key_drops": missing, "memo": "one-shot"})
            elif one_shot is None:
                rs.unrec("%s: memo key drops %s; construction sites not understood" % (q, missing))
            else:
                ctx.finding(rs, "%s|memo-key-drops|%s" % (q, ",".join(missing)),
                            "%s memoises under a key without %s and keeps the memo across calls (%s): a "
                            "second call with different %s returns the first call's results"
                            % (q.split(".")[-1], missing, one_shot, missing),
                            method_loc(repo, kq, gk))
        ctx.floor(rs, 20)

    if ctx.want("R1b"):
        rs = ctx.rule("R1b", "walkers whose handlers have side effects (output, counters) use a one-shot memo")
        for q in walkers:
            if q.startswith("pysmt.solvers.") and not q.endswith("qelim.ShannonQuantifierEliminator"):
                continue          # solver converters: results are solver terms, side effects are declarations
            groups = handler_funcs(q)
            clo = class_closure(repo, q, [(h.cls, h.func) for h, _ in groups])
            eff = []
            for (cls, name), f in sorted(clo.items()):
                for c in calls_in(f):
                    if isinstance(c.func, ast.Attribute) and is_self_attr(c.func.value) is False and False:
                        pass
                    if isinstance(c.func, ast.Attribute) and isinstance(c.func.value, ast.Name) and c.func.value.id == "self" \
                            and c.func.attr == "write":
                        eff.append((cls, name, "self.write(...)"))
                for t, st in stores_in(f):
                    if isinstance(st, ast.AugAssign) and is_self_attr(t):
                        eff.append((cls, name, "self.%s %s=" % (t.attr, type(st.op).__name__)))
            if not eff:
                rs.ok({"class": q.split(".")[-1], "effectful_handlers": 0})
                continue
            one_shot = _one_shot(repo, q)
            if one_shot is True:
                rs.ok({"class": q.split(".")[-1], "effectful_handlers": len(eff), "memo": "one-shot"})
            elif one_shot is None:
                rs.unrec("%s: effectful handlers, construction not understood" % q)
            else:
                cls, name, what = eff[0]
                ctx.finding(rs, "%s|effectful-handlers-with-persistent-memo" % q,
                            "%s keeps its memo across calls (%s) although its handlers have side effects (%s in %s): a "
                            "memo hit on a later call returns the old result without repeating the effect - e.g. a let "
                            "name that was never written to the new output" % (q.split(".")[-1], one_shot, what, name),
                            method_loc(repo, cls, clo[(cls, name)]))
        ctx.floor(rs, 20)

    if ctx.want("R6"):
        rs = ctx.rule("R6", "accumulating walker state is reset together (tables filled together, memo included)")
        for q in walkers:
            groups = handler_funcs(q)
            own = [(h, o) for h, o in groups if h.cls == q or h.cls in repo.mro(q)]
            clo = class_closure(repo, q, [(h.cls, h.func) for h, _ in groups])
            acc = set()
            for (cls, name), f in clo.items():
                if cls == DAG or cls == "pysmt.walkers.generic.Walker":
                    continue
                for t, st in stores_in(f):
                    if isinstance(t, ast.Subscript) and is_self_attr(t.value):
                        acc.add(t.value.attr)
                for c in calls_in(f):
                    if isinstance(c.func, ast.Attribute) and c.func.attr in ("add", "append", "setdefault", "update") and \
                            is_self_attr(c.func.value):
                        acc.add(c.func.value.attr)
                    if isinstance(c.func, ast.Attribute) and c.func.attr in ("add", "append") and isinstance(c.func.value, ast.Call) \
                            and isinstance(c.func.value.func, ast.Attribute) and is_self_attr(c.func.value.func.value):
                        acc.add(c.func.value.func.value.attr)      # self.x.setdefault(k, set()).add(v)
            acc -= {"memoization", "stack", "functions"}
            if len(acc) < 1:
                continue
            full = acc | {"memoization"}
            ci = repo.classes[q]
            for nm in ci.order:
                f = ci.own_func(nm)
                if f is None or nm == "__init__":
                    continue
                cleared = set()
                for t, st in stores_in(f):
                    if is_self_attr(t) and t.attr in full and isinstance(st, ast.Assign) and \
                            (isinstance(st.value, (ast.Dict, ast.Set, ast.List)) or (isinstance(st.value, ast.Call) and attr_tail(st.value) in ("dict", "set", "list"))):
                        cleared.add(t.attr)
                for c in calls_in(f):
                    if isinstance(c.func, ast.Attribute) and c.func.attr == "clear" and is_self_attr(c.func.value) and \
                            c.func.value.attr in full:
                        cleared.add(c.func.value.attr)
                if cleared and cleared != full and cleared != {"memoization"}:
                    ctx.finding(rs, "%s.%s|partial-reset|%s" % (q, nm, ",".join(sorted(cleared))),
                                "%s.%s clears %s but not %s: the tables are filled together by the handlers (and guarded by "
                                "the memo), so after this partial reset a second call on the same object sees entries of "
                                "one table without the matching entries of the others"
                                % (q.split(".")[-1], nm, sorted(cleared), sorted(full - cleared)), method_loc(repo, q, f))
                elif cleared:
                    rs.ok({"class": q.split(".")[-1], "method": nm, "clears": sorted(cleared)})
            rs.ok({"class": q.split(".")[-1], "accumulators": sorted(acc)})
        ctx.floor(rs, 3)

    if ctx.want("R4"):
        rs = ctx.rule("R4", "handlers of environment singletons write no instance attribute")
        for slot, q in sorted(env_singletons(repo).items()):
            if DAG not in repo.mro(q) and "pysmt.walkers.generic.Walker" not in repo.mro(q):
                continue
            groups = handler_funcs(q)
            clo = class_closure(repo, q, [(h.cls, h.func) for h, _ in groups])
            for (cls, name), f in sorted(clo.items()):
                if name in ("__init__",):
                    continue
                bad = []
                for t, st in stores_in(f):
                    base = t
                    while isinstance(base, (ast.Subscript, ast.Attribute)):
                        if is_self_attr(base):
                            bad.append((base.attr, st))
                            break
                        base = base.value
                bad = [(a, st) for a, st in bad if a not in ("functions",)]  # dwf binding, documented
                if bad:
                    for a, st in bad:
                        ctx.finding(rs, "%s.%s|writes-self.%s" % (cls, name, a),
                                    "handler %s of the environment-wide %s writes self.%s (%s): its answer for a "
                                    "formula can depend on earlier formulas" % (name, q.split(".")[-1], a, short(st)),
                                    method_loc(repo, cls, st))
                else:
                    rs.ok({"singleton": slot, "handler": name, "self_writes": 0})
        ctx.floor(rs, 90)

    if ctx.want("R5"):
        rs = ctx.rule("R5", "real manager: a value that equals a cached constant key but has another Python type is treated as on a fresh manager")
        from . import mgr_deep
        mgr_deep.report(ctx, rs, mgr_deep.cache_results(), "pysmt/formula.py", 12)

    if ctx.want("R8"):
        rs = ctx.rule("R8", "real manager: after the type checker's be_nice mode was used to probe an ill-typed application and switched off again, constructions have the outcome of a fresh manager")
        from . import mgr_deep
        mgr_deep.report(ctx, rs, mgr_deep.mode_results(), "pysmt/formula.py", 10)

    if ctx.want("R11"):
        rs = ctx.rule("R11", "the substitution map belongs to the caller: after a call (failing inside a quantifier body, or succeeding) it holds what it held and a later call with the same map answers like one with a fresh copy")
        from . import c05_deep
        for cls, case, kind, detail in c05_deep.map_reuse_results():
            nm = cls.split(".")[-1]
            if kind == "ok":
                rs.ok({"substituter": nm, "first call": case, "outcome": detail})
            elif kind == "bad":
                ctx.finding(rs, "map|%s|%s" % (nm, case), "%s, first call: %s: %s" % (nm, case, detail), "pysmt/substituter.py")
            else:
                rs.unrec("%s %s: %s" % (nm, case, detail))
        ctx.floor(rs, 8)

    if ctx.want("R13"):
        from . import c14_envstack
        c14_envstack.run(ctx)

    if ctx.want("R12"):
        rs = ctx.rule("R12", "sort requests in unusual argument forms (one-shot iterator, tuple, keywords) leave the type manager's tables as the usual form does")
        from . import mgr_deep
        mgr_deep.report(ctx, rs, mgr_deep.type_forms_results(), "pysmt/typing.py", 4)

    if ctx.want("R10"):
        rs = ctx.rule("R10", "real managers: importing a formula into an environment (normalize) gives the same copy whatever was imported before, also from another source whose node ids coincide")
        from . import mgr_deep
        mgr_deep.report(ctx, rs, mgr_deep.copy_results(), "pysmt/formula.py", 6)

    if ctx.want("R9"):
        rs = ctx.rule("R9", "real managers: types, widths, free variables, sizes and substitutions in a second environment are the same whether or not the first environment worked on nodes with the same ids before")
        from . import mgr_deep
        mgr_deep.report(ctx, rs, mgr_deep.xenv_results(), "pysmt/environment.py", 5)

    from . import c14_deep
    c14_deep.run(ctx)
    c14_deep.run_history(ctx)


def _one_shot(repo, q):
    """True if every construction of q (or the __init__ chain) passes invalidate_memoization=True;
    a string describing the offending site otherwise; None if not understood."""
    # the class's own __init__ may hard-wire it
    for cq in repo.mro(q):
        ci = repo.classes[cq]
        init = ci.own_func("__init__")
        if init is None:
            continue
        for c in calls_in(init):
            if attr_tail(c) == "__init__":
                v = kwarg(c, "invalidate_memoization")
                if v is not None:
                    if isinstance(v, ast.Constant):
                        if v.value is True:
                            return True
                        return "%s.__init__ passes invalidate_memoization=%r" % (cq.split(".")[-1], v.value)
                    if isinstance(v, ast.Name) and v.id == "invalidate_memoization":
                        # forwarded parameter: look at default and at the construction sites
                        dflt = _param_default(init, "invalidate_memoization")
                        sites = class_instantiations(repo, q)
                        vals = []
                        for m, enc, call in sites:
                            kv = kwarg(call, "invalidate_memoization")
                            vals.append(kv.value if isinstance(kv, ast.Constant) else (dflt if kv is None else None))
                        if sites and all(x is True for x in vals):
                            return True
                        if not sites:
                            return True if dflt is True else "default invalidate_memoization=%r" % dflt
                        return "constructed with invalidate_memoization=%s" % vals
                    return None
        if cq == DAG:
            dflt = _param_default(init, "invalidate_memoization")
            return True if dflt is True else "DagWalker default invalidate_memoization=%r" % dflt
    return None


def _param_default(fn, name):
    args = fn.args.args
    defaults = fn.args.defaults
    off = len(args) - len(defaults)
    for i, a in enumerate(args):
        if a.arg == name and i >= off:
            d = defaults[i - off]
            return d.value if isinstance(d, ast.Constant) else None
    return None
