"""C04 deep rules.
R4  constructor / accessor agreement: a node built by the real constructor from symbolic parameters is
    asked back through the real accessor; the answer must be the parameter it was built from.
    Predicates with optional arguments (is_constant, is_bv_constant ...) are decided against their
    documented meaning for every combination of present/absent arguments over small domains.
R8  per-environment state: no class-level mutable container of a per-environment class is mutated
    in place through `self` (it would be shared by all environments)."""
import ast
import itertools

from ..common import get_repo, parallel_map, method_loc, norm, short, stores_in, calls_in, attr_tail, is_self_attr
from .. import proc, refsem
from ..proc import S, BOOL, INT, REAL
from .. import simpcheck as sc
from ..absint import Interp, Explorer, Unsupported, AbsRaise, SymInt, SymBool, AObj, eval_term, term_of
from ..world import World

MUT_CALLS = {"append", "add", "update", "pop", "clear", "setdefault", "extend", "insert", "remove", "popitem", "discard"}


def r8(ctx):
    repo = get_repo()
    rs = ctx.rule("R8", "per-environment state is held in instance attributes (no shared class-level containers)")
    roots = ["pysmt.formula.FormulaManager", "pysmt.typing.TypeManager", "pysmt.environment.Environment",
             "pysmt.walkers.generic.Walker", "pysmt.smtlib.parser.parser.SmtLibParser",
             "pysmt.smtlib.parser.parser.SmtLibExecutionCache", "pysmt.smtlib.script.SmtLibScript",
             "pysmt.solvers.solver.Solver", "pysmt.solvers.solver.Model", "pysmt.smtlib.annotations.Annotations"]
    classes = set()
    for r in roots:
        if r in repo.classes:
            classes |= set(repo.subclasses(r))
    n = 0
    for q in sorted(classes):
        ci = repo.classes[q]
        for name in ci.order:
            kind, v = ci.attrs[name]
            if kind != "expr":
                continue
            mutable = isinstance(v, (ast.Dict, ast.List, ast.Set, ast.ListComp, ast.DictComp, ast.SetComp)) or \
                (isinstance(v, ast.Call) and attr_tail(v) in ("dict", "list", "set", "defaultdict", "OrderedDict", "deque"))
            if not mutable:
                continue
            n += 1
            # is it mutated in place through self / cls in this class or a subclass?
            hits = []
            for sq in repo.subclasses(q):
                sci = repo.classes[sq]
                rebinding = False
                for mname in sci.order:
                    f = sci.own_func(mname)
                    if f is None:
                        continue
                    for t, st in stores_in(f):
                        if is_self_attr(t, name) and mname == "__init__":
                            rebinding = True
                        if isinstance(t, ast.Subscript) and is_self_attr(t.value, name):
                            hits.append((sq, mname, st))
                    for c in calls_in(f):
                        if isinstance(c.func, ast.Attribute) and c.func.attr in MUT_CALLS and is_self_attr(c.func.value, name):
                            hits.append((sq, mname, c))
                if rebinding:
                    hits = [h for h in hits if h[0] != sq]
            if hits:
                sq, mname, st = hits[0]
                ctx.finding(rs, "%s|class-level-container|%s" % (q, name),
                            "%s.%s is a class-level %s and %s.%s mutates it in place (%s): one container is shared by "
                            "every instance, i.e. by all environments - objects built in one environment leak into another"
                            % (q.split(".")[-1], name, type(v).__name__.lower(), sq.split(".")[-1], mname, short(st)),
                            method_loc(repo, sq, st))
            else:
                rs.ok({"class": q.split(".")[-1], "attribute": name, "mutated_in_place": False})
    # instance containers are created in __init__
    for q, attrs in (("pysmt.formula.FormulaManager", ["formulae", "symbols", "int_constants", "real_constants", "string_constants"]),
                     ("pysmt.walkers.dag.DagWalker", ["memoization", "stack"])):
        init = repo.classes[q].own_func("__init__")
        for a in attrs:
            if any(is_self_attr(t, a) for t, _ in stores_in(init)):
                rs.ok({"class": q.split(".")[-1], "attribute": a, "created_in": "__init__"})
            else:
                ctx.finding(rs, "%s|not-instance-state|%s" % (q, a),
                            "%s.%s is not created per instance in __init__" % (q.split(".")[-1], a),
                            method_loc(repo, q, init))
    ctx.floor(rs, 7)


# ------------------------------------------------------------------------------------ R4
def _run(fn, max_paths=200):
    def one(ex):
        it = Interp(ex)
        w = proc.setup_env(World().attach(it))
        return fn(w, it)
    return Explorer(max_paths=max_paths).run(one)


def _check_pred(name, build, expect, doms, width_vars=("W",)):
    """build(w, it) -> value ; expect(asg) -> expected python value; doms: var -> list (may depend on W)"""
    try:
        paths = _run(build)
    except Unsupported as e:
        return (name, "unsupported", str(e))
    names = sorted(doms)
    n_ok = 0
    for combo in itertools.product(*[doms[k] for k in names]):
        asg = dict(zip(names, combo))
        for p in paths:
            try:
                if not sc.facts_hold(p.facts(), asg):
                    continue
            except KeyError:
                continue
            if p.kind == "unsupported":
                return (name, "unsupported", str(p.value))
            try:
                exp = expect(asg)
            except Exception as e:
                exp = ("raise",)
            if p.kind == "raise":
                got = ("raise",)
            else:
                got = p.value
                if isinstance(got, (SymInt, SymBool)):
                    got = eval_term(got.t, asg)
                elif isinstance(got, tuple):
                    got = tuple(eval_term(g.t, asg) if isinstance(g, (SymInt, SymBool)) else g for g in got)
            if exp == ("skip",):
                break
            if got != exp and not (isinstance(exp, bool) and isinstance(got, bool) is False and got == exp):
                return (name, "invalid", "with %s the answer is %r, by definition %r" % (asg, got, exp))
            n_ok += 1
            break
    return (name, "valid", "%d argument/value combinations" % n_ok)


def _accessor_jobs():
    jobs = []
    W3 = [1, 2, 3]

    def bvdom():
        return {"W": W3, "c": [0, 1, 2, 5], "v": [0, 1, 2, 5], "w": [1, 2, 3]}
    # is_bv_constant(value, width)
    for hv, hw in itertools.product([False, True], repeat=2):
        def build(w, it, hv=hv, hw=hw):
            n = w.bv_const(w.var("c", "bv"), w.var("W", "width"))
            return it.call(it.getattr(n, "is_bv_constant"), [], dict(([("value", w.var("v", "int"))] if hv else []) +
                                                                    ([("width", w.var("w", "int"))] if hw else [])))
        jobs.append(("is_bv_constant(%s%s) on a BV constant" % ("value" if hv else "", ", width" if hw else ""), build,
                     (lambda hv, hw: lambda a: ((not hv) or a["c"] == a["v"]) and ((not hw) or a["W"] == a["w"]))(hv, hw), bvdom()))

    def b2(w, it):
        return it.call(it.getattr(w.symbol("x", ("BV", w.var("W", "width"))), "is_bv_constant"), [w.var("v", "int")])
    jobs.append(("is_bv_constant(value) on a symbol", b2, lambda a: False, {"W": W3, "v": [0, 1]}))
    # is_int_constant / is_real_constant / is_bool_constant(value)
    for kind, mk, meth in (("Int", lambda w: w.int_const(w.var("c", "int")), "is_int_constant"),
                           ("Real", lambda w: w.real_const(w.var("c", "real")), "is_real_constant")):
        for hv in (False, True):
            def build(w, it, mk=mk, meth=meth, hv=hv):
                return it.call(it.getattr(mk(w), meth), [w.var("v", "int")] if hv else [])
            jobs.append(("%s(%s) on a %s constant" % (meth, "value" if hv else "", kind), build,
                         (lambda hv: lambda a: (not hv) or a["c"] == a["v"])(hv), {"c": [-1, 0, 1, 2], "v": [-1, 0, 1, 2]}))
        for other, mk2 in (("Int", lambda w: w.int_const(3)), ("Real", lambda w: w.real_const(3)), ("Bool", lambda w: w.bool_const(True)),
                           ("BV", lambda w: w.bv_const(1, 2)), ("symbol", lambda w: w.symbol("x", INT))):
            if other == kind:
                continue
            def build(w, it, mk2=mk2, meth=meth):
                return it.call(it.getattr(mk2(w), meth), [])
            jobs.append(("%s() on a %s" % (meth, other), build, lambda a: False, {"_": [0]}))
    for val in (True, False):
        for q in (None, True, False):
            def build(w, it, val=val, q=q):
                return it.call(it.getattr(w.bool_const(val), "is_bool_constant"), [] if q is None else [q])
            jobs.append(("is_bool_constant(%s) on %s" % (q, val), build, (lambda val, q: lambda a: q is None or q == val)(val, q), {"_": [0]}))
    for meth, exp in (("is_true", lambda v: v is True), ("is_false", lambda v: v is False)):
        for val in (True, False):
            def build(w, it, val=val, meth=meth):
                return it.call(it.getattr(w.bool_const(val), meth), [])
            jobs.append(("%s() on %s" % (meth, val), build, (lambda val, exp: lambda a: exp(val))(val, exp), {"_": [0]}))
    for meth, target in (("is_zero", 0), ("is_one", 1)):
        for kind, mk in (("Int", lambda w: w.int_const(w.var("c", "int"))), ("Real", lambda w: w.real_const(w.var("c", "real")))):
            def build(w, it, mk=mk, meth=meth):
                return it.call(it.getattr(mk(w), meth), [])
            jobs.append(("%s() on a %s constant" % (meth, kind), build, (lambda t: lambda a: a["c"] == t)(target), {"c": [-1, 0, 1, 2]}))
        def build(w, it, meth=meth):
            return it.call(it.getattr(w.bv_const(w.var("c", "bv"), 2), meth), [])
        jobs.append(("%s() on a BV constant" % meth, build, lambda a: False, {"c": [0, 1, 2]}))
    # is_constant(_type, value)
    for tname, tsort in (("INT", INT), ("REAL", REAL), ("BOOL", BOOL), ("BV(w)", ("BV", "w"))):
        for nk, mk, nsort in (("Int", lambda w: w.int_const(w.var("c", "int")), INT), ("Real", lambda w: w.real_const(w.var("c", "real")), REAL),
                              ("BV", lambda w: w.bv_const(w.var("c", "bv"), w.var("W", "width")), ("BV", "W"))):
            def build(w, it, mk=mk, tsort=tsort):
                t = w.tyobj(sc._sort(w, tsort) if tsort[0] != "BV" else ("BV", w.var("w", "width")))
                return it.call(it.getattr(mk(w), "is_constant"), [t, w.var("v", "int")])

            def expect(a, tsort=tsort, nsort=nsort):
                if tsort[0] != nsort[0]:
                    return False
                if tsort[0] == "BV" and a["W"] != a["w"]:
                    return False
                return a["c"] == a["v"]
            jobs.append(("is_constant(%s, value) on a %s constant" % (tname, nk), build, expect,
                         {"c": [0, 1, 2], "v": [0, 1, 2], "W": [1, 2], "w": [1, 2]}))
    # BV value accessors
    def bu(w, it):
        return it.call(it.getattr(w.bv_const(w.var("c", "bv"), w.var("W", "width")), "bv_unsigned_value"), [])
    jobs.append(("bv_unsigned_value()", bu, lambda a: a["c"] if a["c"] < (1 << a["W"]) else ("skip",), {"W": W3, "c": list(range(8))}))
    def bs(w, it):
        return it.call(it.getattr(w.bv_const(w.var("c", "bv"), w.var("W", "width")), "bv_signed_value"), [])
    jobs.append(("bv_signed_value()", bs, lambda a: refsem.to_signed(a["c"], a["W"]) if a["c"] < (1 << a["W"]) else ("skip",),
                 {"W": W3, "c": list(range(8))}))
    def b2n(w, it):
        return it.call(it.getattr(w.bv_const(w.var("c", "bv"), w.var("W", "width")), "bv2nat"), [])
    jobs.append(("bv2nat()", b2n, lambda a: a["c"] if a["c"] < (1 << a["W"]) else ("skip",), {"W": W3, "c": list(range(8))}))
    # constructor parameters read back
    def ex_start(w, it):
        x = w.symbol("x", ("BV", 8))
        n = w.app("BVExtract", x, start=w.var("s", "idx"), end=w.var("e", "idx"))
        return (it.call(it.getattr(n, "bv_extract_start"), []), it.call(it.getattr(n, "bv_extract_end"), []),
                it.call(it.getattr(n, "bv_width"), []))
    jobs.append(("BVExtract(x, s, e): bv_extract_start / bv_extract_end / bv_width", ex_start,
                 lambda a: (a["s"], a["e"], a["e"] - a["s"] + 1) if 0 <= a["s"] <= a["e"] < 8 else ("raise",),
                 {"s": list(range(0, 8)), "e": list(range(0, 8))}))
    for ctor in ("BVRol", "BVRor"):
        def rot(w, it, ctor=ctor):
            n = w.app(ctor, w.symbol("x", ("BV", w.var("W", "width"))), w.var("k", "idx"))
            return (it.call(it.getattr(n, "bv_rotation_step"), []), it.call(it.getattr(n, "bv_width"), []))
        jobs.append(("%s(x, k): bv_rotation_step / bv_width" % ctor, rot, lambda a: (a["k"], a["W"]), {"W": W3, "k": [0, 1, 2, 3]}))
    for ctor in ("BVZExt", "BVSExt"):
        def ext(w, it, ctor=ctor):
            n = w.app(ctor, w.symbol("x", ("BV", w.var("W", "width"))), w.var("k", "idx"))
            return (it.call(it.getattr(n, "bv_extend_step"), []), it.call(it.getattr(n, "bv_width"), []))
        jobs.append(("%s(x, k): bv_extend_step / bv_width" % ctor, ext, lambda a: (a["k"], a["W"] + a["k"]), {"W": W3, "k": [0, 1, 2, 3]}))
    for ctor in ("BVAnd", "BVAdd", "BVUDiv", "BVLShl", "BVXor", "BVSub"):
        def wd(w, it, ctor=ctor):
            W = w.var("W", "width")
            n = w.app(ctor, w.symbol("x", ("BV", W)), w.symbol("y", ("BV", W)))
            return it.call(it.getattr(n, "bv_width"), [])
        jobs.append(("%s(x, y).bv_width()" % ctor, wd, lambda a: a["W"], {"W": W3}))
    def cc(w, it):
        n = w.app("BVConcat", w.symbol("x", ("BV", w.var("W", "width"))), w.symbol("y", ("BV", w.var("V", "width"))))
        return it.call(it.getattr(n, "bv_width"), [])
    jobs.append(("BVConcat(x, y).bv_width()", cc, lambda a: a["W"] + a["V"], {"W": W3, "V": W3}))
    def itew(w, it):
        W = w.var("W", "width")
        n = w.app("Ite", w.symbol("p", BOOL), w.app("Ite", w.symbol("q", BOOL), w.symbol("x", ("BV", W)), w.symbol("y", ("BV", W))),
                  w.symbol("z", ("BV", W)))
        return it.call(it.getattr(n, "bv_width"), [])
    jobs.append(("Ite(p, Ite(q, x, y), z).bv_width()", itew, lambda a: a["W"], {"W": W3}))
    def symw(w, it):
        return it.call(it.getattr(w.symbol("x", ("BV", w.var("W", "width"))), "bv_width"), [])
    jobs.append(("Symbol(x, BV W).bv_width()", symw, lambda a: a["W"], {"W": W3}))
    return jobs


JOBS = None


def _acc_job(i):
    name, build, expect, doms = JOBS[i]
    return _check_pred(name, build, expect, doms)


def _struct_job(_):
    """symbol / quantifier / function / array accessors: structural read-back (identity of objects)."""
    out = []

    def run1(name, fn):
        for p in _run(fn):
            if p.kind == "return":
                okk, detail = p.value
                out.append((name, "valid" if okk else "invalid", detail))
            elif p.kind == "raise":
                out.append((name, "invalid", "raises %s" % p.value.cls_name))
            else:
                out.append((name, "unsupported", str(p.value)))

    def sym(w, it):
        t = w.tyobj(INT)
        n = w.app("Symbol", "x", t)
        return (it.call(it.getattr(n, "symbol_name"), []) == "x" and it.call(it.getattr(n, "symbol_type"), []) is t,
                "symbol_name / symbol_type")
    run1("Symbol(name, type): symbol_name / symbol_type", sym)

    def quant(w, it):
        a, b = w.symbol("a", BOOL), w.symbol("b", BOOL)
        body = w.app("Or", a, b)
        n = w.app("ForAll", [a, b], body)
        qv = it.call(it.getattr(n, "quantifier_vars"), [])
        return (tuple(qv) == (a, b) and it.call(it.getattr(n, "arg"), [0]) is body and w.opname(n) == "FORALL",
                "quantifier_vars %s" % [sc.node_str(w, x) for x in qv])
    run1("ForAll(vars, body): quantifier_vars / arg(0)", quant)

    # documented normal form of the n-ary bit-vector constructors: "a left-associative formula is generated" - the n-ary request
    # and the nested binary requests are one object
    for ctor in ("BVAnd", "BVOr", "BVAdd", "BVMul", "BVXor"):
        for k in (3, 4, 5, 7):
            def nary(w, it, ctor=ctor, k=k):
                xs = [w.symbol("x%d" % i, ("BV", 4)) for i in range(k)]
                try:
                    n = w.app(ctor, *xs)
                except AbsRaise as ex_:
                    return (True, "n-ary form not offered (%s)" % ex_.cls_name)
                left = xs[0]
                for x_ in xs[1:]:
                    left = w.app(ctor, left, x_)
                n2 = w.app(ctor, list(xs))
                return (n is left and n2 is left, "%s of %d operands is %s, the left-associative nesting is %s"
                        % (ctor, k, sc.node_str(w, n), sc.node_str(w, left)))
            run1("%s/%d: the n-ary form is the left-associative nesting" % (ctor, k), nary)

    def fun(w, it):
        f = w.symbol("f", ("FUN", INT, (INT, INT)))
        x, y = w.symbol("x", INT), w.symbol("y", INT)
        n = w.app("Function", f, [x, y])
        return (it.call(it.getattr(n, "function_name"), []) is f and tuple(it.call(it.getattr(n, "args"), [])) == (x, y),
                "function_name / args")
    run1("Function(f, [x, y]): function_name / args", fun)

    def arr(w, it):
        t = w.tyobj(INT)
        d = w.int_const(0)
        k1, k2 = w.int_const(1), w.int_const(2)
        v1, v2 = w.int_const(10), w.int_const(20)
        n = w.app("Array", t, d, {k1: v1, k2: v2, w.int_const(3): d})
        m = it.call(it.getattr(n, "array_value_assigned_values_map"), [])
        okk = (it.call(it.getattr(n, "array_value_index_type"), []) is t and it.call(it.getattr(n, "array_value_default"), []) is d
               and len(m) == 2 and m.get(k1) is v1 and m.get(k2) is v2
               and it.call(it.getattr(n, "array_value_get"), [k1]) is v1 and it.call(it.getattr(n, "array_value_get"), [k2]) is v2
               and it.call(it.getattr(n, "array_value_get"), [w.int_const(7)]) is d)
        return (okk, "index type, default, assignments (entries equal to the default dropped), array_value_get")
    run1("Array(idx, default, assignments): accessors", arr)

    def nt(w, it):
        x, y = w.symbol("x", INT), w.symbol("y", INT)
        n = w.app("Minus", x, y)
        return (tuple(it.call(it.getattr(n, "args"), [])) == (x, y) and it.call(it.getattr(n, "arg"), [1]) is y
                and it.call(it.getattr(n, "is_minus"), []) is True and it.call(it.getattr(n, "is_plus"), []) is False, "args / arg / is_minus")
    run1("Minus(x, y): args / arg(i) / is_minus", nt)

    def hc(w, it):
        x, y = w.symbol("x", INT), w.symbol("y", INT)
        a = w.app("Plus", x, y)
        b = w.app("Plus", [x, y])
        c = w.app("Plus", y, x)
        return (a is b and a is not c, "Plus(x,y) is Plus([x,y]) and differs from Plus(y,x)")
    run1("hash-consing: same structure, one object", hc)
    return out


def run(ctx):
    global JOBS
    if ctx.want("R8"):
        r8(ctx)
    if ctx.want("R9"):
        r9(ctx)
    if not ctx.want("R4"):
        return
    rs = ctx.rule("R4", "constructor / accessor agreement and predicate meaning (interpreted, small domains)")
    JOBS = _accessor_jobs()
    outs = parallel_map(_acc_job, list(range(len(JOBS))))
    outs += _struct_job(None)
    for name, kind, detail in outs:
        if kind == "valid":
            rs.ok({"accessor": name, "checked": detail})
        elif kind == "invalid":
            ctx.finding(rs, "%s|unfaithful" % name, "%s: %s" % (name, detail), "pysmt/fnode.py")
        else:
            rs.unrec("%s: %s" % (name, detail[:120]))
    ctx.floor(rs, 60)


# ------------------------------------------------------------------------------------------------------
# R9: faithful copies.  Rebuilding a formula from its own structure gives the very same object:
# IdentityDagWalker.walk(f) is f, FormulaManager.normalize(f) is f and f.substitute({}) is f, for every
# skeleton of the export menu (every operator, n-ary forms, constants of every kind, arrays, functions,
# quantifiers, parametric sorts).
def _identity_job(shape_t):
    from ..proc import Shape
    shape = Shape(shape_t)

    def call(w, it, f):
        out = []
        idw = w.new_walker("pysmt.walkers.identitydag.IdentityDagWalker", w.env)
        for name, fn in (("IdentityDagWalker.walk", lambda: it.call(it.getattr(idw, "walk"), [f])),
                         ("FormulaManager.normalize", lambda: it.call(it.getattr(w.mgr, "normalize"), [f])),
                         ("substitute({})", lambda: it.call(it.getattr(f, "substitute"), [{}]))):
            try:
                r = fn()
                out.append((name, "same" if r is f else "differs", sc.node_str(w, r) if w.is_node(r) else repr(r)))
            except AbsRaise as ex:
                out.append((name, "raise", ex.cls_name))
        return out
    res = proc.run_proc(shape, call, post=lambda w, f, v, facts: proc.ProcResult(shape, "valid", v), services="full", max_paths=8)
    if len(res) != 1 or res[0].kind != "valid":
        return [(repr(shape), "?", "unsupported", "%s %s" % (res[0].kind, str(res[0].detail)[:160]))]
    return [(repr(shape),) + x for x in res[0].detail]


def r9(ctx):
    rs = ctx.rule("R9", "rebuilding a formula from its structure returns the very same object (identity walker, normalize, empty substitution)")
    from . import text_deep as td
    shapes = [sh.t for sh in td.export_shapes()]
    for res in parallel_map(_identity_job, shapes):
        for shape, name, kind, detail in res:
            if kind == "same":
                rs.ok({"skeleton": shape, "rebuilt_by": name})
            elif kind == "unsupported":
                rs.unrec("%s: %s" % (shape, detail))
            else:
                ctx.finding(rs, "%s|%s" % (name, shape), "%s of %s %s" % (
                    name, shape, ("returns the different formula %s" % detail) if kind == "differs" else ("raises %s" % detail)),
                    "pysmt/walkers/identitydag.py")
    ctx.floor(rs, 300)
