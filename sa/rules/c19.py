"""C19 -- portfolio answer independent of the race; never blocks forever."""
from ..common import get_repo

PF = "pysmt.solvers.portfolio.Portfolio"

EXPLANATION = (
    "Abstract interpretation of pysmt/solvers/portfolio.py under a model of its environment in which the race "
    "is a schedule: multiprocessing.Queue / Pipe / Process are analysis-side models, each member's message is "
    "obtained by interpreting _run_solver with a stub solver that answers, raises or dies, and Portfolio.solve "
    "(with the IncrementalTrackingSolver machinery it inherits) is interpreted for every scenario: 2 and 3 "
    "members, every assignment of {answers, raises, dies silently}, every arrival order of the messages, an "
    "optional time-out before each arrival, exit_on_exception on and off.  Decided per scenario: the verdict "
    "is the members' verdict whenever one member answers, failures and time-outs do not change it; when no "
    "member answers the call raises instead of waiting (the receive loop exits within a bounded number of "
    "reads once every member is dead); the surviving member is the one whose answer was taken and every other "
    "process is terminated; each member puts exactly one message; a second solve after the assertions changed "
    "- while a loser's answer of the first race arrived late - returns the new verdict; with per-member options "
    "(a member configured to give up, others given by name or with other options) every member process is started "
    "with the shared options plus its own and the verdict is that of the members that run as configured (R6).  The "
    "portfolio used incrementally (add_assertion / push / pop / reset / is_sat / solve, 11 sequences): the formula "
    "handed to every member process is the conjunction of the live assertions, plus the one-shot formula of is_sat (R7).  Text-interface "
    "members: when the solver process ends without answering, the reply read terminates with an error (R5, "
    "interpreted against the reference solver process).  A value asked for after a race in which every member failed is an error, not a request nobody answers (control pipe modelled on the parent's side); the portfolio used as a context manager lets errors through.")
NOT_DECIDED = ["the model / value obtained afterwards through the control pipe (the surviving member's side of the pipe "
               "protocol is interpreted only up to its first message)",
               "operating-system effects: a member killed while it holds the queue's lock"]


def run(ctx):
    repo = get_repo()
    ctx.analysed["modules"] = ["pysmt/solvers/portfolio.py", "pysmt/solvers/solver.py", "pysmt/smtlib/solver.py"]
    from . import solver_deep as sd

    if ctx.want("R6"):
        rs = ctx.rule("R6", "portfolio scenarios: verdict independent of arrival order, failures and time-outs; bounded wait; winner bookkeeping; no stale answers")
        res = sd.portfolio_results(repo, ctx.tier)
        ctx.analysed["scenarios"] = len(res)
        for n, eoe, tag, beh, order, gaps, kind, detail in res:
            name = "%d members %s, arrival order %s, time-outs %s%s%s" % (n, "".join(beh), list(order), list(gaps),
                                                                         ", exit_on_exception" if eoe else "", tag)
            key = "%s|%s%s|%s" % ("".join(beh), "eoe" if eoe else "std", tag.replace(", member options ", "|opts "), kind)
            if kind == "ok":
                rs.ok({"scenario": name})
            elif kind == "unsupported":
                rs.unrec("%s: %s" % (name, detail[:160]))
            elif kind == "hang":
                ctx.finding(rs, "portfolio|%s" % key, "%s: solve() keeps waiting although no member can answer any more (%s)"
                            % (name, detail), "pysmt/solvers/portfolio.py")
            else:
                ctx.finding(rs, "portfolio|%s" % key, "%s: %s" % (name, detail), "pysmt/solvers/portfolio.py")
        ctx.floor(rs, 800)

    if ctx.want("R7"):
        rs = ctx.rule("R7", "the portfolio as an incremental solver: the members are asked about the live assertions (after push / pop / reset / one-shot queries)")
        names = {"A1": "assert a|b", "A2": "assert !a", "P": "push", "O": "pop", "R": "reset_assertions", "S": "solve", "Q": "is_sat(c|a)"}
        for seq, kind, detail in sd.portfolio_stack_results(repo, ctx.tier):
            tag = " ; ".join(names[x] for x in seq)
            if kind == "ok":
                rs.ok({"calls": tag, "result": "every member process receives the conjunction of the live assertions"})
            elif kind == "unsupported":
                rs.unrec("%s: %s" % (tag, detail[:160]))
            else:
                ctx.finding(rs, "portfolio-stack|%s" % ",".join(seq), "%s: %s" % (tag, detail), "pysmt/solvers/portfolio.py")
        ctx.floor(rs, 8)

    if ctx.want("R9"):
        rs = ctx.rule("R9", "one-shot shortcuts of the factory with portfolio=<members>: the portfolio is built over exactly the members given, "
                            "whatever iterable they arrive in")
        from . import c13_factory
        for api, form, kind, detail in c13_factory.portfolio_argument_results():
            if kind == "ok":
                rs.ok({"shortcut": api, "members given as": form})
            elif kind == "bad":
                ctx.finding(rs, "portfolio-argument|%s|%s" % (api, form), "Factory.%s(f, portfolio=<%s of 3 members>): the portfolio is built over %s"
                            % (api, form, detail), "pysmt/factory.py")
            else:
                rs.unrec("%s %s: %s" % (api, form, detail))
        ctx.floor(rs, 6)

    if ctx.want("R8"):
        rs = ctx.rule("R8", "text-interface members started with the per-member options a portfolio hands them (seed, model generation, "
                            "solver options): the member finishes starting - it does not wait for a reply the process never sends - and answers")
        for tag, kind, problems in sd.text_options_results(repo):
            if kind != "ok":
                rs.unrec("%s: %s" % (tag, problems))
            elif problems:
                ctx.finding(rs, "text-member-options|%s" % tag, "a text-interface member created with [%s]: %s - a portfolio whose members are "
                            "configured so never gets an answer" % (tag, problems[0]), "pysmt/smtlib/solver.py")
            else:
                rs.ok({"member options": tag})
        ctx.floor(rs, 6)

    if ctx.want("R5"):
        rs = ctx.rule("R5", "reply reads of a text-interface member terminate when the solver process ends")
        for ans, api, want, got in sd._verdict_job(None):
            if ans is not None:
                continue
            if got == "does-not-terminate":
                ctx.finding(rs, "text-member|%s|eof-loop" % api,
                            "%s() of a text-interface member: when the solver process ends without answering, the reply "
                            "read never terminates - the member, and a portfolio waiting for it, block forever" % api,
                            "pysmt/smtlib/solver.py")
            elif got.startswith("unsupported"):
                rs.unrec(got)
            else:
                rs.ok({"call": api, "solver_process": "ends without answering", "outcome": got})
        ctx.floor(rs, 2)
