"""C03 -- every formula that exists is well-typed; ill-typed applications are rejected."""
import ast

from ..common import (dispatch_rule, get_repo, get_ops, get_tables, short, norm, CFG, normal_only,
                      class_instantiations, method_loc, calls_in, attr_tail, is_self_attr, eval_bool)

STC = "pysmt.type_checker.SimpleTypeChecker"
FM = "pysmt.formula.FormulaManager"
FNODE = "pysmt.fnode.FNode"

EXPLANATION = (
    "Static analysis: FNode is instantiated only inside FormulaManager.create_node and every path "
    "of create_node that returns a node passes the type check on that node (R1, who-may-call + CFG "
    "must-pass-through); SimpleTypeChecker dispatches every operator (R2); get_type raises on an "
    "untypable node unless be_nice (R4); the per-operator typing rules are interpreted in the "
    "sort-kind domain against the signature table (R3, abstract interpreter).")
NOT_DECIDED = [
    "acceptance of non-term (function-typed) operands beyond the representatives of R3",
    "that parsers only produce well-typed terms is implied by R1 (they construct through the manager)",
]


def fnode_alloc_rule(ctx, rs):
    repo = get_repo()
    sites = class_instantiations(repo, FNODE)
    ok_site = (FM, "create_node")
    found_ok = False
    for m, enc, call in sites:
        if enc == ok_site:
            found_ok = True
            rs.ok({"site": "%s.%s" % enc, "call": short(call)})
        else:
            ctx.finding(rs, "%s.%s|FNode()" % (enc[0] or m.name, enc[1]),
                        "FNode is instantiated outside FormulaManager.create_node (%s): such a node "
                        "bypasses hash-consing and the construction-time type check" % short(call),
                        repo.loc(m, call))
    if not found_ok:
        ctx.error(rs.rule, "anchor vanished: no FNode(...) allocation inside FormulaManager.create_node")
    # positive control
    ctl = ast.parse("from pysmt.fnode import FNode\ndef f(c):\n    return FNode(c, 7)\n")
    rs.control = any(isinstance(n, ast.Call) and isinstance(n.func, ast.Name) and n.func.id == "FNode"
                     for n in ast.walk(ctl))


def run(ctx):
    repo = get_repo()
    ctx.analysed["modules"] = ["pysmt/type_checker.py", "pysmt/formula.py", "pysmt/fnode.py", "pysmt/typing.py"]

    if ctx.want("R1"):
        rs = ctx.rule("R1", "single construction path; every returned node was type-checked")
        fnode_alloc_rule(ctx, rs)
        cls, fn = repo.method(FM, "create_node")
        cfg = CFG(fn)
        rets = [n for n in cfg.nodes if n.kind == "stmt" and isinstance(n.ast, ast.Return)]
        if not rets:
            ctx.error("R1", "create_node has no return statement")
        for r in rets:
            v = r.ast.value
            if not isinstance(v, ast.Name):
                rs.unrec("create_node returns non-name expression %s" % short(r.ast))
                continue
            var = v.id

            def is_check(n, var=var):
                if n.ast is None or n.kind != "stmt":
                    return False
                for c in calls_in(n.ast):
                    if attr_tail(c) in ("_do_type_check", "_do_type_check_real", "get_type") and \
                            any(isinstance(a, ast.Name) and a.id == var for a in c.args):
                        return True
                return False
            if cfg.dominated_by(r.id, is_check, follow=normal_only):
                rs.ok({"return": short(r.ast), "dominated_by": "_do_type_check(%s)" % var})
            else:
                p = cfg.path(cfg.entry.id, r.id, avoid=is_check, follow=normal_only)
                ctx.finding(rs, "%s.create_node|unchecked-return|%s" % (FM, norm(r.ast)),
                            "a path of create_node returns node '%s' without type-checking it: %s"
                            % (var, " -> ".join("L%s" % getattr(x.ast, "lineno", "?") for x in (p or []) if x.ast is not None)),
                            method_loc(repo, FM, r.ast))
        # _do_type_check must resolve to the environment's type checker
        _, dtc = repo.method(FM, "_do_type_check")
        txt = norm(dtc)
        if "self.env.stc.get_type" in txt:
            rs.ok({"_do_type_check": "binds self.env.stc.get_type"})
        else:
            rs.unrec("_do_type_check does not bind self.env.stc.get_type in a recognised way")
        ctx.floor(rs, 3)

    if ctx.want("R2"):
        rs = ctx.rule("R2", "exhaustive dispatch of SimpleTypeChecker")
        dispatch_rule(ctx, rs, STC)
        rs.exhaustive = True
        ctx.floor(rs, 60)

    if ctx.want("R4"):
        rs = ctx.rule("R4", "get_type raises on an untypable node unless be_nice")
        cls, fn = repo.method(STC, "get_type")
        cfg = CFG(fn)
        def leaf(n):
            t = norm(n)
            if t.endswith("be_nice"):
                return False            # the default configuration: be_nice is off
            if " is None" in t and not " is not None" in t:
                return True             # the walk produced no type
            if " is not None" in t:
                return False
            return None
        tests = [n for n in cfg.nodes if n.kind == "test" and "None" in norm(n.ast)]
        verdict = None
        for t in tests:
            v = eval_bool(t.ast, leaf)
            if v is None:
                continue
            lab = "T" if v else "F"
            for (y, l2) in cfg.succ[t.id]:
                if l2 != lab:
                    continue
                if cfg.ret.id not in cfg.reachable(y, follow=normal_only) and \
                        (cfg.rse.id in cfg.reachable(y) or cfg.nodes[y].id == cfg.rse.id):
                    verdict = ("ok", norm(t.ast))
                elif verdict is None:
                    verdict = ("bad", norm(t.ast))
        if verdict and verdict[0] == "ok":
            rs.ok({"guard": verdict[1], "case": "be_nice off, walk result None", "outcome": "raise"})
        elif verdict:
            ctx.finding(rs, "%s.get_type|none-not-raised" % STC,
                        "with be_nice off and an untypable node, get_type does not raise (guard: %s)"
                        % verdict[1], method_loc(repo, cls, fn))
        elif not tests:
            ctx.finding(rs, "%s.get_type|no-none-test" % STC,
                        "get_type never tests the walk result for None: an ill-typed node is "
                        "returned with type None instead of raising", method_loc(repo, cls, fn))
        else:
            rs.unrec("None test of get_type not understood: %s" % [norm(t.ast) for t in tests])
        ctx.floor(rs, 1)

    from . import c03_deep
    c03_deep.run(ctx)
