"""C03 -- every formula that exists is well-typed; ill-typed applications are rejected."""
import ast

from ..common import (dispatch_rule, get_repo, get_ops, get_tables, short, norm, CFG, normal_only,
                      class_instantiations, owner_region, method_loc, calls_in, attr_tail, is_self_attr, eval_bool)

STC = "pysmt.type_checker.SimpleTypeChecker"
FM = "pysmt.formula.FormulaManager"
FNODE = "pysmt.fnode.FNode"

EXPLANATION = (
    "FNode is instantiated only inside the construction region of FormulaManager.create_node - create_node and the "
    "private helpers the call graph shows to be reachable only through it (R1, who-may-call over the whole "
    "package); SimpleTypeChecker dispatches every operator (R2).  R3 interprets the real FormulaManager - "
    "create_node, its table, FNode and the construction-time call into the environment's SimpleTypeChecker are "
    "all interpreted from source, nothing of it is modelled - on every constructor and every operand-sort "
    "combination (bit-widths and indices symbolic): an application that the signature table rejects must raise "
    "at construction (so no ill-typed node is ever returned: the check is really reached, and an untypable "
    "node is an error, not a None), one it accepts must be built and a fresh checker must give it the sort of "
    "the table; the same node at two operand positions is covered (identity shortcuts).")
NOT_DECIDED = [
    "acceptance of non-term (function-typed) operands beyond the representatives of R3",
    "that parsers only produce well-typed terms is implied by R1 (they construct through the manager)",
]


def construction_region(repo):
    """create_node and the private helpers reachable only through it (call-graph closure)."""
    return owner_region(repo, {(FM, "create_node")})


def fnode_alloc_rule(ctx, rs):
    repo = get_repo()
    sites = class_instantiations(repo, FNODE)
    region = construction_region(repo)
    ctx.analysed["construction_region"] = sorted("%s.%s" % ((c or "<module>").split(".")[-1], f) for c, f in region)
    found_ok = False
    for m, enc, call in sites:
        if enc in region:
            found_ok = True
            rs.ok({"site": "%s.%s" % enc, "call": short(call), "region": "create_node and helpers called only from it"})
        else:
            ctx.finding(rs, "%s.%s|FNode()" % (enc[0] or m.name, enc[1]),
                        "FNode is instantiated outside FormulaManager.create_node (%s): such a node "
                        "bypasses hash-consing and the construction-time type check" % short(call),
                        repo.loc(m, call))
    if not found_ok:
        ctx.error(rs.rule, "anchor vanished: no FNode(...) allocation inside the construction region of FormulaManager.create_node")
    # positive control
    ctl = ast.parse("from pysmt.fnode import FNode\ndef f(c):\n    return FNode(c, 7)\n")
    rs.control = any(isinstance(n, ast.Call) and isinstance(n.func, ast.Name) and n.func.id == "FNode"
                     for n in ast.walk(ctl))


def run(ctx):
    repo = get_repo()
    ctx.analysed["modules"] = ["pysmt/type_checker.py", "pysmt/formula.py", "pysmt/fnode.py", "pysmt/typing.py"]

    if ctx.want("R1"):
        rs = ctx.rule("R1", "FNode is allocated only inside the construction region of create_node")
        fnode_alloc_rule(ctx, rs)
        ctx.floor(rs, 1)

    if ctx.want("R2"):
        rs = ctx.rule("R2", "exhaustive dispatch of SimpleTypeChecker")
        dispatch_rule(ctx, rs, STC)
        rs.exhaustive = True
        ctx.floor(rs, 60)


    if ctx.want("R5"):
        rs = ctx.rule("R5", "real managers: the sort and bit-width reported for a term of a second environment are the same whether or not the first environment built terms with the same node ids before")
        from . import mgr_deep
        mgr_deep.report(ctx, rs, mgr_deep.xenv_results(), "pysmt/fnode.py", 5)

    from . import c03_deep
    c03_deep.run(ctx)
